#!/usr/bin/env python3
"""rewrite the seeded-changes table at the end of DESIGN.md from seeded/*/meta.json"""
import glob, json, os
root = os.path.dirname(os.path.dirname(os.path.abspath(__file__)))
rows = []
for f in sorted(glob.glob(os.path.join(root, "seeded", "*", "meta.json"))):
    m = json.load(open(f))
    rows.append("| `%s` | %s | %s | %s | %s |" % (m["id"], m["property"], m["needs_to_manifest"].replace("|", "/"), ", ".join(m["detection"]["detected_by"]) or "**none**", ", ".join(m["detection"].get("silent", [])) or "-"))
block = "<!-- SEEDTABLE BEGIN -->\n\n| seeded change | property | needs, in order to manifest | caught by (quick tier) | other checks run, silent |\n|---|---|---|---|---|\n" + "\n".join(rows) + "\n\n<!-- SEEDTABLE END -->\n"
p = os.path.join(root, "DESIGN.md")
s = open(p).read()
if "<!-- SEEDTABLE BEGIN -->" in s:
    i, j = s.index("<!-- SEEDTABLE BEGIN -->"), s.index("<!-- SEEDTABLE END -->") + len("<!-- SEEDTABLE END -->\n")
    s = s[:i] + block + s[j:]
else:
    s = s.rstrip("\n") + "\n\n" + block
open(p, "w").write(s)
print(len(rows), "seeds")
