#!/usr/bin/env python3
"""seedverify.py <seeded/ID>: confirm a seeded change independently in a fresh scratch worktree of /repo:
demo exits 0 on the unchanged tree, patch applies, demo exits 1 on the changed tree, felupe's own suite passes with the
change.  Writes seeded/<ID>/verify.json and removes the worktree."""
import json
import os
import re
import subprocess
import sys

d = os.path.abspath(sys.argv[1].rstrip("/"))
name = os.path.basename(d)
wt = "/tmp/sv/" + name
os.makedirs("/tmp/sv", exist_ok=True)
subprocess.run(["git", "-C", "/repo", "worktree", "remove", "--force", wt], capture_output=True)
subprocess.run(["git", "-C", "/repo", "worktree", "add", "-q", wt, "HEAD"], check=True)
env = dict(os.environ, PYTHONPATH=wt + "/src", FELUPE_VERBOSE="false", MPLBACKEND="Agg", PYVISTA_OFF_SCREEN="true")
env.pop("FELUPE_VERIF", None)
res = {"repo_head": subprocess.check_output(["git", "-C", "/repo", "log", "--format=%h", "-1"], text=True).strip()}
try:
    def demo():
        p = subprocess.run(["/venv/bin/python", os.path.join(d, "demo.py")], cwd=wt, env=env, capture_output=True, text=True, timeout=1800)
        return p.returncode, (p.stdout + p.stderr)[-600:]

    res["demo_unchanged"] = demo()
    a = subprocess.run(["git", "-C", wt, "apply", os.path.join(d, "patch.diff")], capture_output=True, text=True)
    res["patch_applies"] = a.returncode == 0
    res["demo_changed"] = demo()
    t = subprocess.run(["/venv/bin/python", "-m", "pytest", "-q", "-p", "no:cacheprovider", "--timeout=900"], cwd=wt, env=env, capture_output=True, text=True)
    m = re.findall(r"(\d+) passed", t.stdout)
    f = re.findall(r"(\d+) failed", t.stdout)
    res["suite_passed"] = int(m[-1]) if m else 0
    res["suite_failed"] = int(f[-1]) if f else 0
    res["suite_exit"] = t.returncode
finally:
    subprocess.run(["git", "-C", "/repo", "worktree", "remove", "--force", wt], capture_output=True)
res["confirmed"] = bool(res.get("demo_unchanged", [1])[0] == 0 and res.get("patch_applies") and res.get("demo_changed", [0])[0] == 1 and res.get("suite_exit") == 0 and res.get("suite_passed", 0) >= 161)
json.dump(res, open(os.path.join(d, "verify.json"), "w"), indent=1)
print(name, "confirmed" if res["confirmed"] else "NOT CONFIRMED", {k: (v if not isinstance(v, (list, tuple)) else v[0]) for k, v in res.items()})
