#!/bin/sh
# tools/seedimport.sh <worktree-root> <ID> <seed-name>: copy <worktree-root>/<ID>/SEED/{patch.diff,demo.py,README.md} to
# /verif/seeded/<seed-name>/ and confirm it in a fresh scratch worktree (tools/seedverify.py)
set -e
d=/verif/seeded/$3
mkdir -p $d
cp $1/$2/SEED/patch.diff $1/$2/SEED/demo.py $1/$2/SEED/README.md $d/
python3 /verif/tools/seedverify.py $d 2>&1 | grep -v -i conda | cut -c1-160
