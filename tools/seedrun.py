#!/usr/bin/env python3
"""seedrun.py <seeded/ID> [check ids...]: apply seeded/<ID>/patch.diff to /repo, run the given checks (default:
all 20, quick tier), record exit codes / first VIOLATION lines into seeded/<ID>/detection.json, and ALWAYS undo the
patch (git -C /repo checkout -- .).  Refuses to run when /repo has uncommitted changes to tracked files."""
import json
import os
import subprocess
import sys

d = sys.argv[1].rstrip("/")
ids = sys.argv[2:] or ["C%02d" % i for i in range(1, 21)]
tier = os.environ.get("SEED_TIER", "quick")
st = subprocess.run(["git", "-C", "/repo", "status", "--porcelain", "--untracked-files=no"], capture_output=True, text=True).stdout.strip()
if st:
    sys.exit("refusing: /repo has uncommitted changes:\n" + st)
patch = os.path.abspath(os.path.join(d, "patch.diff"))
r = subprocess.run(["git", "-C", "/repo", "apply", patch], capture_output=True, text=True)
if r.returncode:
    sys.exit("patch does not apply: " + r.stderr)
res = {}
try:
    for i in ids:
        p = subprocess.run(["/verif/check", i, "--tier", tier], capture_output=True, text=True)
        lines = [l for l in p.stdout.splitlines() if "conda" not in l.lower()]
        v = [l for l in lines if l.startswith("VIOLATION")]
        res[i] = dict(exit=p.returncode, violations=len(v), first=[l[:300] for l in v[:2]], summary=lines[-1][:200] if lines else "")
        print(i, "exit", p.returncode, "violations", len(v), flush=True)
        for l in v[:1]:
            print("    " + l[:240])
finally:
    subprocess.run(["git", "-C", "/repo", "checkout", "--", "."])
    print(subprocess.run(["git", "-C", "/repo", "status", "--porcelain", "--untracked-files=no"], capture_output=True, text=True).stdout or "repo clean")
out = os.path.join(d, "detection.json")
old = json.load(open(out)) if os.path.exists(out) else {}
old.update({tier: res}) if set(res) == set("C%02d" % i for i in range(1, 21)) else old.setdefault(tier, {}).update(res)
json.dump(old, open(out, "w"), indent=1)
print("detected by:", [i for i, x in res.items() if x["exit"] == 1])
