#!/bin/sh
# runs felupe's own (baseline) suite on /repo's working tree with the guard OFF; prints counts
out=${1:-/tmp/ft/suite.xml}
mkdir -p "$(dirname "$out")"
cd /repo && env -u FELUPE_VERIF /venv/bin/python -m pytest -q -p no:cacheprovider --timeout=900 --continue-on-collection-errors --junitxml="$out" > "$out.log" 2>&1
python3 - "$out" <<'PY'
import sys, xml.etree.ElementTree as ET
r = ET.parse(sys.argv[1]).getroot()
ts = r if r.tag == "testsuite" else r[0]
print("tests=%s failures=%s errors=%s skipped=%s" % tuple(ts.get(k) for k in ("tests", "failures", "errors", "skipped")))
for tc in ts.iter("testcase"):
    if tc.find("failure") is not None or tc.find("error") is not None:
        print("FAILED", tc.get("classname"), tc.get("name"))
PY
