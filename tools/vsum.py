import json,glob,collections,sys
pid=sys.argv[1]
c=collections.Counter(); ex={}
for f in glob.glob('/verif/replays/%s-*.json'%pid):
    d=json.load(open(f))
    for v in d['violations']:
        k=v['key'].split('/')
        kk=k[0]+'/*/'+'/'.join(k[2:4])
        c[kk]+=1; ex.setdefault(kk,(v['key'],v.get('observed')))
for k,n in sorted(c.items()): print(n,k,str(ex[k])[:300])
