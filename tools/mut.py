#!/usr/bin/env python3
"""mut.py <file-under-/repo/src/felupe> <old> <new> -- <check ids...>: apply a one-off textual mutation to
/repo, run the given checks (quick), print their last lines, and ALWAYS restore the file."""
import subprocess, sys
f, old, new = sys.argv[1:4]
ids = sys.argv[5:]
path = "/repo/src/felupe/" + f
s = open(path).read()
assert s.count(old) >= 1, "pattern not found"
open(path, "w").write(s.replace(old, new, 1))
try:
    for i in ids:
        r = subprocess.run(["/verif/check", i, "--tier", "quick"], capture_output=True, text=True)
        lines = [l for l in r.stdout.splitlines() if "conda" not in l.lower()]
        v = [l for l in lines if l.startswith("VIOLATION")]
        print(i, "exit", r.returncode, "violations", len(v))
        for l in v[:2]:
            print("   ", l[:260])
        if r.returncode not in (0, 1):
            print(r.stderr[-800:])
finally:
    open(path, "w").write(s)
    subprocess.run(["git", "-C", "/repo", "diff", "--stat"])
