#!/usr/bin/env python3
"""seedmeta.py <seeded/ID> <property> "<needs to manifest>" ["<history>"]: (re)build seeded/<ID>/meta.json from
verify.json (tools/seedverify.py) and detection.json (tools/seedrun.py); keeps an existing history unless given."""
import json, os, sys
d = sys.argv[1].rstrip("/")
prop, needs = sys.argv[2], sys.argv[3]
v = json.load(open(os.path.join(d, "verify.json")))
det = json.load(open(os.path.join(d, "detection.json"))).get("quick", {})
mp = os.path.join(d, "meta.json")
old = json.load(open(mp)) if os.path.exists(mp) else {}
hist = sys.argv[4] if len(sys.argv) > 4 else old.get("detection", {}).get("history", "")
cb = {"how": "tools/seedverify.py: fresh scratch worktree of /repo HEAD; demo.py on unchanged tree -> exit 0; git apply patch.diff; demo.py -> exit 1; felupe's own suite with the change"}
for k, x in v.items():
    cb[k] = x[0] if isinstance(x, list) else x
m = {"id": os.path.basename(d), "property": prop,
     "origin": "independent sub-agent given only the property text and its own scratch worktree of /repo (nothing from /verif)",
     "needs_to_manifest": needs, "confirmed_by_me": cb,
     "detection": {"how": "tools/seedrun.py: git -C /repo apply patch.diff; ./check <id> --tier quick; git -C /repo checkout -- .",
                   "detected_by": sorted(i for i, x in det.items() if x["exit"] == 1),
                   "silent": sorted(i for i, x in det.items() if x["exit"] == 0),
                   "first_violation": {i: x["first"][0][:260] for i, x in det.items() if x["exit"] == 1 and x["first"]}}}
if hist:
    m["detection"]["history"] = hist
json.dump(m, open(mp, "w"), indent=1)
print(m["id"], "detected_by", m["detection"]["detected_by"], "silent", m["detection"]["silent"])
