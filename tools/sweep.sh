#!/bin/sh
# tools/sweep.sh "<seeds>" [tier]: run every existing check under several VERIF_SEED values; print one line per run
# (evidence files are rewritten as a side effect; re-run the quick tier with the default seed before committing evidence)
cd /verif
for s in ${1:-0 1 2 3}; do
  for f in vf/checks/c[0-9][0-9].py; do
    id=$(basename $f .py | tr c C)
    out=$(VERIF_SEED=$s timeout 3000 ./check $id --tier ${2:-quick} 2>&1 | grep -v -i conda)
    echo "$out" | grep "^VIOLATION" | head -3 | cut -c1-300
    echo "$out" | tail -1 | cut -c1-220
  done
done
