"""Catalogue of felupe's built-in constitutive models for C03 / C11 / C12.

Every entry: dict(name, make() -> umat, backend, nstate, flags...).  Parameters are the docstring
examples plus one or two further admissible sets.  Flags:
    finite      finite-strain model (C11 applies)
    hyper       hyperelastic: elasticity tensor has major symmetry
    iso         isotropic in invariants / principal stretches (right-rotation clause)
    eigen       evaluated through principal stretches by an AD backend that perturbs coincident
                eigenvalues: lattice members with repeated stretches are skipped for it
    stressfree  absolute bound on |P(I)| relative to the modulus scale (regularised models)
    energy      callable W(F) if an energy is exposed (else None)
    states      list of (label, callable(n) -> statevars array (nstate, n, 1))
"""

import numpy as np


def _sv_alt(n, a, b):
    """one state variable, alternating between two values from point to point (points on their primary path next to
    softened ones in one batch)"""
    v = np.full((1, n, 1), float(a))
    v[:, 1::2] = b
    return v


def _sv(nstate, n, fill=0.0):
    return np.full((nstate, n, 1), fill, dtype=float)


def tt_energy(fun, **kw):
    def W(F):
        import tensortrax as tr

        C = np.einsum("ki...,kj...->ij...", F, F)
        return tr.function(fun, wrt=0, ntrax=2)(np.ascontiguousarray(C), **kw)

    return W


TT_PARAMS = dict(
    neo_hooke=[dict(mu=1.2)],
    mooney_rivlin=[dict(C10=0.4, C01=0.2), dict(C10=0.3, C01=0.8)],
    yeoh=[dict(C10=0.5, C20=-0.1, C30=0.02)],
    third_order_deformation=[dict(C10=0.5, C01=0.1, C11=0.02, C20=-0.05, C30=0.01)],
    ogden=[dict(mu=[1.0, 0.2], alpha=[1.7, -1.5])],
    arruda_boyce=[dict(C1=1.0, limit=3.2)],
    extended_tube=[dict(Gc=0.1867, Ge=0.2169, beta=0.2, delta=0.09693)],
    van_der_waals=[dict(mu=1.0, beta=0.1, a=0.5, limit=5.0), dict(mu=1.0, beta=0.0, a=0.5, limit=5.0)],
    blatz_ko=[dict(mu=1.0)],
    storakers=[dict(mu=[4.5 * (1.85 / 2), -4.5 * (-9.2 / 2)], alpha=[1.85, -9.2], beta=[0.92, 0.92]), dict(mu=[0.8, 0.3], alpha=[2.5, -3.0], beta=[0.2, 0.6])],
    lopez_pamies=[dict(mu=[1.0, 0.1], alpha=[1.0, -2.0])],
    alexander=[dict(C1=17.0, C2=19.85, C3=1.0, gamma=0.735, k=0.00015)],
    anssari_benam_bucchi=[dict(mu=1.0, N=10.0)],
    miehe_goektepe_lulei=[dict(mu=0.1475, N=3.273, p=9.31, U=9.94, q=0.567)],
    saint_venant_kirchhoff=[dict(mu=1.0, lmbda=2.0), dict(mu=1.0, lmbda=2.0, k=0)],
    saint_venant_kirchhoff_orthotropic=[dict(mu=[1.0, 1.2, 1.4], lmbda=[2.0, 0.5, 0.6, 2.5, 0.7, 3.0], r1=[1.0, 0.0, 0.0], r2=[0.0, 1.0, 0.0]),
                                        dict(mu=[1.0, 1.2, 1.4], lmbda=[2.0, 0.5, 0.6, 2.5, 0.7, 3.0], r1=[0.6, 0.8, 0.0], r2=[-0.8, 0.6, 0.0], k=1)],
)
EIGEN = {"ogden", "storakers", "lopez_pamies", "extended_tube", "miehe_goektepe_lulei", "alexander_principal"}
ANISO = {"saint_venant_kirchhoff_orthotropic"}
MICRO = {"miehe_goektepe_lulei"}
# models that regularise the undeformed state (documented small shifts): |P(I)| bounded, not zero
REGULARISED = {"van_der_waals": 1e-2, "extended_tube": 1e-2, "storakers": 1e-2, "ogden": 1e-5, "lopez_pamies": 1e-5, "miehe_goektepe_lulei": 1e-3, "saint_venant_kirchhoff": 1e-6}
MORPH_P = [0.039, 0.371, 0.174, 2.41, 0.0094, 6.84, 5.65, 0.244]


def catalogue(tier="quick", backends=("hand", "tt", "jax")):
    import felupe as fem
    import felupe.constitution as C

    out = []

    def add(name, make, backend, nstate=0, finite=True, hyper=True, iso=True, eigen=False, energy=None, states=None, stressfree=0.0,
            scale=1.0, small=False, cost=1, micro=False, jaxm=False, lattice=None):
        out.append(dict(name=name, make=make, backend=backend, nstate=nstate, finite=finite, hyper=hyper, iso=iso, eigen=eigen, energy=energy,
                        states=states or [("virgin", lambda n, ns=nstate: _sv(ns, n))], stressfree=stressfree, scale=scale, small=small, cost=cost, micro=micro,
                        lattice=lattice or ("distinct" if eigen else "all")))

    if "hand" in backends:
        def en(m):
            return lambda F, m=m: m.function([F, None])[0]

        for lab, kw in (("mu,bulk", dict(mu=1.3, bulk=4.1)), ("mu", dict(mu=1.3)), ("bulk", dict(bulk=4.1)), ("mu,bulk-b", dict(mu=0.4, bulk=50.0))):
            m = fem.NeoHooke(**kw)
            add(f"NeoHooke({lab})", lambda kw=kw: fem.NeoHooke(**kw), "hand", energy=en(m), scale=max(kw.values()))
        add("Volumetric", lambda: C.Volumetric(bulk=3.0), "hand", energy=en(C.Volumetric(bulk=3.0)), scale=3.0)
        for lab, kw in (("mu,lmbda", dict(mu=1.3, lmbda=2.2)), ("mu", dict(mu=1.3))):
            m = fem.NeoHookeCompressible(**kw)
            add(f"NeoHookeCompressible({lab})", lambda kw=kw: fem.NeoHookeCompressible(**kw), "hand", energy=en(m), scale=2.2)
        add("LinearElasticLargeStrain", lambda: fem.LinearElasticLargeStrain(E=2.0, nu=0.3), "hand", scale=2.0,
            energy=(en(fem.LinearElasticLargeStrain(E=2.0, nu=0.3)) if hasattr(fem.LinearElasticLargeStrain(E=2.0, nu=0.3), "function") else None))
        add("Composite(NeoHooke&Volumetric)", lambda: fem.NeoHooke(mu=1.1) & C.Volumetric(bulk=3.0), "hand", scale=3.0)
        orx = dict(r=3.0, m=1.0, beta=0.1)
        add("OgdenRoxburgh(NeoHooke)", lambda: fem.OgdenRoxburgh(fem.NeoHooke(mu=1.0, bulk=2.0), **orx), "hand", nstate=1, hyper=False,
            states=[("virgin", lambda n: _sv(1, n, 0.0)), ("softened", lambda n: _sv(1, n, 3.0)), ("mixed-maxima", lambda n: _sv_alt(n, 0.02, 3.0))], scale=2.0)
        # pseudo-elasticity around the other hand-coded bases that expose an energy (the wrapper is the only consumer of it)
        add("OgdenRoxburgh(NeoHookeCompressible)", lambda: fem.OgdenRoxburgh(fem.NeoHookeCompressible(mu=1.0, lmbda=2.0), **orx), "hand", nstate=1, hyper=False,
            states=[("virgin", lambda n: _sv(1, n, 0.0)), ("softened", lambda n: _sv(1, n, 3.0)), ("mixed-maxima", lambda n: _sv_alt(n, 0.02, 3.0))], scale=2.0)
        if hasattr(fem.LinearElasticLargeStrain(E=2.0, nu=0.3), "function"):
            add("OgdenRoxburgh(LinearElasticLargeStrain)", lambda: fem.OgdenRoxburgh(fem.LinearElasticLargeStrain(E=2.0, nu=0.3), **orx), "hand", nstate=1, hyper=False,
                states=[("virgin", lambda n: _sv(1, n, 0.0)), ("softened", lambda n: _sv(1, n, 3.0))], scale=2.0)
        # the same bodies in another stress unit (a kPa gel in a GPa unit system and the reverse): all moduli x s, energies x s
        for s_ in (1e-9, 1e7):
            add(f"NeoHooke(mu,bulk)*{s_:g}", lambda s_=s_: fem.NeoHooke(mu=1.3 * s_, bulk=4.1 * s_), "hand", energy=en(fem.NeoHooke(mu=1.3 * s_, bulk=4.1 * s_)), scale=4.1 * s_)
            add(f"OgdenRoxburgh(NeoHooke)*{s_:g}", lambda s_=s_: fem.OgdenRoxburgh(fem.NeoHooke(mu=1.0 * s_, bulk=2.0 * s_), r=3.0, m=1.0 * s_, beta=0.1), "hand", nstate=1, hyper=False,
                states=[("virgin", lambda n: _sv(1, n, 0.0)), ("softened", lambda n, s_=s_: _sv(1, n, 3.0 * s_)), ("mixed-maxima", lambda n, s_=s_: _sv_alt(n, 0.02 * s_, 3.0 * s_))], scale=2.0 * s_)
        # small-strain laws (C03 only)
        add("LinearElastic", lambda: fem.LinearElastic(E=2.0, nu=0.3), "hand", finite=False, small=True, scale=2.0)
        add("LinearElasticTensorNotation", lambda: C.LinearElasticTensorNotation(E=2.0, nu=0.3), "hand", finite=False, small=True, scale=2.0)
        add("LinearElasticOrthotropic", lambda: fem.LinearElasticOrthotropic(E=[2.0, 3.0, 4.0], nu=[0.3, 0.2, 0.1], G=[1.0, 1.5, 2.0]), "hand", finite=False, small=True, iso=False, scale=4.0)
        add("Laplace", lambda: fem.Laplace(multiplier=2.0), "hand", finite=False, small=True, scale=2.0)
        add("MaterialStrain(linear_elastic)", lambda: fem.MaterialStrain(material=C.linear_elastic, λ=1.2, μ=0.8, statevars=(0,)), "hand", nstate=18, finite=False, small=True, scale=2.0,
            states=[("virgin", lambda n: _sv(18, n)), ("after-call", None), ("after-call-het", None)])

    if "tt" in backends:
        for name, plist in TT_PARAMS.items():
            fun = getattr(C, name)
            for k, kw in enumerate(plist if tier == "thorough" else plist[:2]):
                mod = max([abs(v) for vv in kw.values() for v in np.atleast_1d(vv) if np.isscalar(v)] + [1.0])
                add(f"tt.{name}#{k}", lambda fun=fun, kw=kw: fem.Hyperelastic(fun, **kw), "tt", iso=name not in ANISO, eigen=(name in EIGEN or (name == "saint_venant_kirchhoff" and kw.get("k", 2) == 0)),
                    energy=tt_energy(fun, **kw), stressfree=REGULARISED.get(name, 0.0) if not (name == "van_der_waals" and kw.get("beta") == 0.0) else 1e-2,
                    scale=1.0, micro=name in MICRO, cost=3)
        add("tt.ogden_roxburgh(neo_hooke)", lambda: fem.Hyperelastic(C.ogden_roxburgh, material=C.neo_hooke, r=3.0, m=1.0, beta=0.1, mu=1.0, nstatevars=1), "tt", nstate=1, hyper=False,
            states=[("virgin", lambda n: _sv(1, n, 0.0)), ("softened", lambda n: _sv(1, n, 3.0)), ("mixed-maxima", lambda n: _sv_alt(n, 0.02, 3.0))], cost=3)
        add("tt.finite_strain_viscoelastic", lambda: fem.Hyperelastic(C.finite_strain_viscoelastic, mu=1.0, eta=1.0, dtime=1.0, nstatevars=6), "tt", nstate=6, hyper=False,
            states=[("virgin", lambda n: _sv(6, n)), ("after-call", None), ("after-call-het", None)], cost=3)
        add("tt.micro.affine_stretch(langevin)", lambda: fem.Hyperelastic(C.tensortrax.models.hyperelastic.microsphere.affine_stretch, f=C.tensortrax.models.hyperelastic.microsphere.langevin, kwargs=dict(mu=1.0, N=10.0)),
            "tt", micro=True, cost=5, stressfree=0.0)
        add("tt.MaterialAD(total_lagrange svk)", lambda: _ad_total(), "tt", hyper=True, cost=3)
        add("tt.MaterialAD(updated_lagrange nh)", lambda: _ad_updated(), "tt", hyper=True, cost=3)
        add("tt.MaterialAD(morph)", lambda: C.tensortrax.Material(C.tensortrax.models.lagrange.morph, p=MORPH_P, nstatevars=13), "tt", nstate=13, hyper=False,
            states=[("virgin", lambda n: _sv(13, n)), ("after-call", None)], cost=5, lattice="generic", stressfree=1e-6)

    if "jax" in backends:
        import jax

        jax.config.update("jax_enable_x64", True)
        import felupe.constitution.jax as CJ

        names = CJ.models.hyperelastic.__all__ if tier == "thorough" else ["neo_hooke", "mooney_rivlin", "yeoh", "third_order_deformation", "blatz_ko", "van_der_waals", "storakers", "extended_tube", "miehe_goektepe_lulei"]
        for name in names:
            fun = getattr(CJ.models.hyperelastic, name)
            for k, kw in enumerate(TT_PARAMS[name][:1]):
                add(f"jax.{name}#{k}", lambda fun=fun, kw=kw: CJ.Hyperelastic(fun, **kw), "jax", iso=True, eigen=name in EIGEN,
                    stressfree=REGULARISED.get(name, 0.0), micro=name in MICRO, cost=8)
        # a user-written ANISOTROPIC energy psi(C) (Neo-Hooke matrix + one fibre family along an oblique direction) through the jax
        # wrapper, with the checker's own numpy energy of F^T F: the wrapper has to hand the RIGHT Cauchy-Green tensor to psi
        a_fib = np.array([0.6, 0.48, 0.64])

        def _psi_fibre(Cm, mu, k1):
            import jax.numpy as jnp

            a_ = jnp.array(a_fib)
            I4 = a_ @ Cm @ a_
            return mu / 2 * (jnp.linalg.det(Cm) ** (-1 / 3) * jnp.trace(Cm) - 3) + 2.5 * (jnp.sqrt(jnp.linalg.det(Cm)) - 1) ** 2 + k1 * (I4 - 1) ** 2

        def _w_fibre(F, mu=1.0, k1=0.7):
            Cn = np.einsum("ki...,kj...->ij...", F, F)
            J = np.sqrt(np.linalg.det(np.moveaxis(Cn, (0, 1), (-2, -1))))
            I4 = np.einsum("i,ij...,j->...", a_fib, Cn, a_fib)
            return mu / 2 * (J ** (-2 / 3) * np.trace(Cn) - 3) + 2.5 * (J - 1) ** 2 + k1 * (I4 - 1) ** 2

        add("jax.Hyperelastic(user fibre energy)", lambda: CJ.Hyperelastic(_psi_fibre, mu=1.0, k1=0.7), "jax", iso=False, energy=_w_fibre, cost=8)
        add("jax.Material(morph)", lambda: CJ.Material(CJ.models.lagrange.morph, p=MORPH_P, nstatevars=13), "jax", nstate=13, hyper=False,
            states=[("virgin", lambda n: _sv(13, n)), ("after-call", None)], cost=10, lattice="generic", stressfree=1e-4)
    return out


def _ad_total():
    import felupe as fem
    import tensortrax.math as tm

    @fem.total_lagrange
    def svk(F, mu, lmbda):
        C = F.T @ F
        I = tm.base.eye(C)
        E = (C - I) / 2
        return 2 * mu * E + lmbda * tm.trace(E) * I

    return fem.MaterialAD(svk, mu=1.0, lmbda=2.0)


def _ad_updated():
    import felupe as fem
    import tensortrax.math as tm

    @fem.updated_lagrange
    def nh(F, mu, bulk):
        J = tm.linalg.det(F)
        b = F @ F.T
        I = tm.base.eye(b)
        return mu * J ** (-5 / 3) * tm.special.dev(b) + bulk * (J - 1) * I

    return fem.MaterialAD(nh, mu=1.0, bulk=5.0)
