"""Mesh zoo and lattices shared by the checks.

Every member is deterministic in (name, seed).  The seed only moves *generic offsets*
(interior-node displacement, mid-node curvature, permutation, generic rotations); the zoo
itself is always enumerated completely.
"""

import itertools

import numpy as np

PHI = (np.sqrt(5.0) - 1) / 2


def offs(seed, k, j=0):
    """deterministic number in [-0.5, 0.5) that is irrational-looking in (seed, k, j)."""
    return ((seed + 1) * PHI * (k + 1) + np.sqrt(2.0) * (j + 1) + 0.1234) % 1.0 - 0.5


def offvec(seed, k, n):
    return np.array([offs(seed, k, j) for j in range(n)])


def offarr(seed, k, shape):
    n = int(np.prod(shape))
    return np.array([offs(seed, k + 7 * (i // 5), i) for i in range(n)]).reshape(shape)


def perm(seed, n, k=0):
    """deterministic non-monotone permutation of range(n)"""
    keys = [offs(seed, 31 + k, i) for i in range(n)]
    p = np.argsort(keys)
    if n > 1 and np.array_equal(p, np.arange(n)):
        p = p[::-1]
    return p


def renumber(mesh, seed, k=0):
    import felupe as fem

    n = len(mesh.points)
    p = perm(seed, n, k)  # old index i -> new index p[i]
    pts = np.zeros_like(mesh.points)
    pts[p] = mesh.points
    return fem.Mesh(pts, p[mesh.cells], mesh.cell_type)


def affine_matrix(dim, seed, k=0):
    A = np.eye(dim) + 0.35 * offarr(seed, 50 + k, (dim, dim))
    A[0, -1] += 0.3  # visible shear
    assert np.linalg.det(A) > 0.3
    return A


def rotation(axis, angle):
    axis = np.asarray(axis, float) / np.linalg.norm(axis)
    K = np.array([[0, -axis[2], axis[1]], [axis[2], 0, -axis[0]], [-axis[1], axis[0], 0]])
    return np.eye(3) + np.sin(angle) * K + (1 - np.cos(angle)) * K @ K


def cube_rotations():
    """the 24 proper rotations of the cube as exact integer matrices"""
    out = []
    for p in itertools.permutations(range(3)):
        for s in itertools.product((1, -1), repeat=3):
            Q = np.zeros((3, 3))
            for i in range(3):
                Q[i, p[i]] = s[i]
            if round(np.linalg.det(Q)) == 1:
                out.append(Q)
    return out


def generic_rotations(seed, n=3):
    out = []
    for k in range(n):
        ax = offvec(seed, 70 + k, 3) + np.array([0.2, 0.5, 0.9])
        ang = 0.4 + 2.2 * (offs(seed, 80 + k) + 0.5)
        out.append(rotation(ax, ang))
    return out


def rot2(angle):
    c, s = np.cos(angle), np.sin(angle)
    return np.array([[c, -s], [s, c]])


# ----------------------------------------------------------------------------- meshes
BASE = {
    "line": ("Line", 1),
    "quad": ("Rectangle", 2),
    "quad8": ("Rectangle", 2),
    "quad9": ("Rectangle", 2),
    "hexahedron": ("Cube", 3),
    "hexahedron20": ("Cube", 3),
    "hexahedron27": ("Cube", 3),
    "triangle": ("Rectangle", 2),
    "triangle6": ("Rectangle", 2),
    "triangle-mini": ("Rectangle", 2),
    "tetra": ("Cube", 3),
    "tetra10": ("Cube", 3),
    "tetra-mini": ("Cube", 3),
}


def _finish(mesh, kind):
    if kind in ("quad8", "hexahedron20"):
        return mesh.add_midpoints_edges()
    if kind == "quad9":
        return mesh.add_midpoints_edges().add_midpoints_faces()
    if kind == "hexahedron27":
        return mesh.add_midpoints_edges().add_midpoints_faces().add_midpoints_volumes()
    if kind == "triangle":
        return mesh.triangulate()
    if kind == "triangle6":
        return mesh.triangulate().add_midpoints_edges()
    if kind == "triangle-mini":
        return mesh.triangulate().add_midpoints_faces()
    if kind == "tetra":
        return mesh.triangulate()
    if kind == "tetra10":
        return mesh.triangulate().add_midpoints_edges()
    if kind == "tetra-mini":
        return mesh.triangulate().add_midpoints_volumes()
    return mesh


def base_mesh(kind, n, a=None, b=None):
    import felupe as fem

    gen, dim = BASE[kind]
    if dim == 1:
        return fem.mesh.Line(a=0.0 if a is None else a, b=1.0 if b is None else b, n=n)
    a = (0.0,) * dim if a is None else a
    b = (1.0,) * dim if b is None else b
    n = (n,) * dim if np.isscalar(n) else n
    return getattr(fem, gen)(a=a, b=b, n=n)


def make(kind, member, seed=0, a=None, b=None):
    """Return a felupe Mesh of cell family `kind` for zoo member `member`.

    members: ref (1 base cell), strip (2x1), block (2^d, interior node), distorted (block with
    the interior vertex displaced *before* mid-points are inserted: straight edges),
    affine (block mapped by a generic affine map, det>0), curved (quadratic kinds only:
    distorted + mid-nodes moved), renum (distorted + non-monotone renumbering),
    extra (distorted + trailing point without cells), aniso (3x2(x2) grid on a non-unit box).
    """
    import felupe as fem

    gen, dim = BASE[kind]
    if member == "ref":
        m = base_mesh(kind, 2, a, b)
    elif member == "strip":
        m = base_mesh(kind, (3,) + (2,) * (dim - 1) if dim > 1 else 3, a, b)
    elif member == "aniso":
        n = {1: 4, 2: (4, 3), 3: (4, 3, 3)}[dim]
        aa = {1: -0.3, 2: (-0.3, 0.2), 3: (-0.3, 0.2, 0.1)}[dim] if a is None else a
        bb = {1: 1.9, 2: (1.9, 1.3), 3: (1.9, 1.3, 0.8)}[dim] if b is None else b
        m = base_mesh(kind, n, aa, bb)
    else:
        m = base_mesh(kind, 3, a, b)
    if member in ("distorted", "curved", "renum", "extra", "mm", "km"):
        # displace every interior vertex (those not on the bounding box) by <= 0.15 h
        pts = m.points.copy()
        lo, hi = pts.min(0), pts.max(0)
        h = (hi - lo).min() / 2
        interior = np.all((pts > lo + 1e-9) & (pts < hi - 1e-9), axis=1)
        for j, i in enumerate(np.where(interior)[0]):
            pts[i] += 0.3 * h * offvec(seed, 3 + j, dim)
        m = fem.Mesh(pts, m.cells, m.cell_type)
    m = _finish(m, kind)
    if member == "affine":
        A = affine_matrix(dim, seed)
        m = fem.Mesh(m.points @ A.T + 0.1 * offvec(seed, 9, dim), m.cells, m.cell_type)
    if member == "curved":
        nv = len(base_mesh(kind, 3, a, b).points)
        pts = m.points.copy()
        lo, hi = pts.min(0), pts.max(0)
        h = (hi - lo).min() / 2
        pts[nv:] += 0.1 * h * offarr(seed, 11, pts[nv:].shape)
        m = fem.Mesh(pts, m.cells, m.cell_type)
    if member == "renum":
        m = renumber(m, seed)
    if member in ("mm", "km"):
        # the distorted block in other length units (a millimetre-sized body in metres and the reverse): absolute
        # tolerances hidden in the library show here
        m = fem.Mesh(m.points * (1e-3 if member == "mm" else 1e3), m.cells, m.cell_type)
    if member == "extra":
        m = fem.Mesh(np.vstack([m.points, m.points.max(0) + 0.5]), m.cells, m.cell_type)
    return m


QUADRATIC = ("quad8", "quad9", "hexahedron20", "hexahedron27", "triangle6", "tetra10")


def members(kind, tier="thorough"):
    base = ["ref", "block", "distorted", "affine", "renum"]
    if tier == "thorough":
        base += ["strip", "aniso"]
    if kind in QUADRATIC:
        base.append("curved")
    return base


REGION = {
    "quad": "RegionQuad",
    "quad8": "RegionQuadraticQuad",
    "quad9": "RegionBiQuadraticQuad",
    "hexahedron": "RegionHexahedron",
    "hexahedron20": "RegionQuadraticHexahedron",
    "hexahedron27": "RegionTriQuadraticHexahedron",
    "triangle": "RegionTriangle",
    "triangle6": "RegionQuadraticTriangle",
    "triangle-mini": "RegionTriangleMINI",
    "tetra": "RegionTetra",
    "tetra10": "RegionQuadraticTetra",
    "tetra-mini": "RegionTetraMINI",
}


def region(kind, mesh, **kw):
    import felupe as fem

    if kind == "line":
        return fem.Region(mesh, fem.Line(), fem.GaussLegendre(order=1, dim=1), **kw)
    if kind.startswith("lagrange"):
        dim, order = int(kind[8]), int(kind[10:].rstrip("n"))
        if kind.endswith("n"):  # not permuted: cells in lexicographic point order
            kw = dict(kw, permute=False)
        return fem.RegionLagrange(mesh, order=order, dim=dim, **kw)
    return getattr(fem, REGION[kind])(mesh, **kw)


def lagrange_mesh(dim, order, member, seed=0, permute=True):
    """single-cell arbitrary-order mesh: ref | affine | curved (interior/edge nodes moved)"""
    import felupe as fem

    if dim == 2:
        m = fem.mesh.RectangleArbitraryOrderQuad(order=order)
    else:
        m = fem.mesh.CubeArbitraryOrderHexahedron(order=order)
    if permute is False:
        m = fem.Mesh(m.points, np.arange(m.npoints).reshape(1, -1), m.cell_type)
    pts = m.points.copy()
    if member == "affine":
        pts = pts @ affine_matrix(dim, seed).T + 0.1 * offvec(seed, 9, dim)
    if member == "curved":
        pts = pts + 0.06 / order * offarr(seed, 13, pts.shape)
    return fem.Mesh(pts, m.cells, m.cell_type)


# ----------------------------------------------------------------------------- F lattice
def f_lattice(seed=0, tier="thorough"):
    """list of (label, F) with det F > 0, generic and special members."""
    out = [("I", np.eye(3))]
    lv = (0.8, 1.0, 1.3)
    for a, b, c in itertools.product(lv, repeat=3):
        if (a, b, c) != (1.0, 1.0, 1.0):
            if tier == "thorough" or len({a, b, c}) == 3 or (a == b == c):
                out.append((f"diag({a},{b},{c})", np.diag([a, b, c])))
    G1 = offarr(seed, 100, (3, 3)) * 2
    G2 = offarr(seed, 200, (3, 3)) * 2
    for s in (0.1, 0.25):
        out.append((f"I+{s}G1", np.eye(3) + s * G1))
        out.append((f"I+{s}G2", np.eye(3) + s * G2))
    slots = [(i, j) for i in range(3) for j in range(3) if i != j]
    for i, j in slots:
        for g in (0.3, -0.3) if tier == "thorough" else (0.3,):
            F = np.eye(3)
            F[i, j] = g
            out.append((f"shear[{i}{j}]={g}", F))
    res = []
    rots = [("", np.eye(3))] + [(f"Q{k}*", Q) for k, Q in enumerate(generic_rotations(seed, 2 if tier == "thorough" else 1))]
    for ql, Q in rots:
        for l, F in out:
            if ql and l == "I":
                continue
            FF = Q @ F
            assert np.linalg.det(FF) > 0.2
            res.append((ql + l, FF))
    return res
