"""C20 Result and mesh files contain exactly what was computed.

(a) mesh round trips: every cell type x zoo member x file format, containers with two blocks,
    read(merge=True) sharing one point array;
(b) explicit-state exploration of job shapes: steps x substeps x failure position x callbacks
    on/off x defaults on/off x x0 given or not, every written XDMF time series read back with
    meshio's independent TimeSeriesReader and compared frame by frame with what the job yielded;
(c) tools.save: arrays written unchanged.
Every execution runs in the worker's own scratch directory (meshio puts the .h5 next to cwd).
"""

import itertools
import os
import warnings

import numpy as np

from .. import zoo
from .c15 import Poison

ID = "C20"
RULE = (
    "case = (cell type, zoo member) for round trips over all formats; (job shape: substeps per step, failure position, "
    "callbacks, defaults, x0) for jobs; inside a case every frame of every written file is read back and compared. "
    "Non-trivial = files with at least one frame / one cell."
)
ASSUMPTIONS = [
    "Files are read back with meshio (read / xdmf.TimeSeriesReader), i.e. by code that felupe's writer path does not share beyond meshio's own writer.",
    "VTK_LAGRANGE cell types are round-tripped through vtk/vtu only: meshio's XDMF writer does not know them (third-party limit).",
    "Points are compared on the first `dim` columns (felupe pads to 3D on export), exactly (binary formats carry doubles).",
]
FORMATS = ["vtk", "vtu", "xdmf"]
KINDS = ["line", "quad", "quad8", "quad9", "hexahedron", "hexahedron20", "hexahedron27", "triangle", "triangle6", "tetra", "tetra10"]


def BOUNDS(tier):
    return {"formats": FORMATS, "steps": "1..2", "substeps_per_step": "1..3", "failure_positions": "every position + none"}


def plan(tier, seed):
    cases = []
    for kind in KINDS:
        for member in ("block", "distorted", "renum") + (("curved",) if kind in zoo.QUADRATIC else ()):
            cases.append(dict(key=f"roundtrip/{kind}/{member}", kind="roundtrip", cell=kind, member=member, seed=seed))
    cases.append(dict(key="roundtrip/vertex", kind="roundtrip", cell="vertex", member="-", seed=seed))
    for dim, order in ((2, 2), (2, 3), (3, 2)):
        cases.append(dict(key=f"roundtrip/lagrange{dim}o{order}", kind="roundtrip", cell=f"lagrange{dim}o{order}", member="curved", seed=seed))
    cases.append(dict(key="container", kind="container", seed=seed))
    shapes = [(1,), (2,), (3,), (1, 1), (1, 2), (2, 1), (2, 2)] + ([(3, 1), (1, 3), (3, 2)] if tier == "thorough" else [])
    for shape in shapes:
        n = sum(shape)
        for fail in [None] + list(range(n)):
            cases.append(dict(key=f"job/shape={shape}/fail={fail}", kind="job", shape=list(shape), fail=fail, seed=seed, cost=6))
    cases.append(dict(key="save", kind="save", seed=seed, tier=tier, cost=10))
    return cases


class Ctx:
    def __init__(self, key):
        self.key = key
        self.viol, self.nontrivial, self.outcomes, self.notes = [], [], set(), []
        self.trans = self.traces = self.states = 0

    def bad(self, sub, what, obs, exp, tol=0):
        if len(self.viol) < 50:
            self.viol.append(dict(key=f"{self.key}/{sub}", what=what, observed=obs, expected=exp, tol=tol))

    def same(self, sub, what, got, ref, tol=0.0):
        self.traces += 1
        got, ref = np.asarray(got), np.asarray(ref)
        if got.shape != ref.shape:
            self.bad(sub, what + " (shape)", list(got.shape), list(ref.shape))
            return False
        if tol == 0:
            ok = np.array_equal(got, ref)
        else:
            ok = np.abs(got - ref).max() <= tol * max(1.0, np.abs(ref).max()) if ref.size else True
        if not ok:
            self.bad(sub, what, f"max diff {np.abs(got.astype(float) - ref.astype(float)).max():.3e}", "equal", tol)
        return ok

    def result(self, sample):
        return dict(viol=self.viol, states=self.states, transitions=self.trans, traces=self.traces, nontrivial=self.nontrivial, outcomes=sorted(self.outcomes),
                    sample=sample, notes=self.notes, digest=f"{self.states}/{self.traces}/{len(self.viol)}")


def run(case):
    import felupe as fem
    import meshio

    warnings.simplefilter("ignore")
    c = Ctx(case["key"])
    kind, seed = case["kind"], case["seed"]
    if kind == "roundtrip":
        cell = case["cell"]
        if cell == "vertex":
            mesh = fem.mesh.Point(a=0.3)
            mesh = fem.Mesh(np.array([[0.3, 0.1, -0.2], [1.0, 2.0, 3.0]]), np.array([[0], [1]]), "vertex")
            fmts = FORMATS
        elif cell.startswith("lagrange"):
            mesh = zoo.lagrange_mesh(int(cell[8]), int(cell[10:]), "curved", seed)
            fmts = ["vtk", "vtu"]
        else:
            mesh = zoo.make(cell, case["member"], seed)
            fmts = FORMATS
        for fmt in fmts:
            fn = f"m_{cell}_{case['member']}.{fmt}".replace("-", "_")
            mesh.write(fn)
            c.trans += 1
            # the cellblock= argument: the only block of the file addressed in every way (None, 0, -1, numpy integer, slices)
            for cb_lab, cb in (("None", None), ("0", 0), ("-1", -1), ("np.int64(0)", np.int64(0)), ("slice(0,1)", slice(0, 1)), ("slice(None)", slice(None))):
                try:
                    mcb = fem.mesh.read(fn, dim=mesh.dim, cellblock=cb)
                except Exception as ex:  # noqa
                    c.bad(f"{fmt}/cellblock={cb_lab}/exception", "read(cellblock=...) raised for a valid block index", repr(ex)[:120], "the block")
                    continue
                c.trans += 1
                if len(mcb.meshes) != 1 or mcb.meshes[0].cell_type != mesh.cell_type or not np.array_equal(mcb.meshes[0].cells, mesh.cells):
                    c.bad(f"{fmt}/cellblock={cb_lab}", "read(cellblock=...) of a one-block file returns that block", [len(mcb.meshes), getattr(mcb.meshes[0], "cell_type", None) if len(mcb.meshes) else None], [1, mesh.cell_type])
            for dim_arg in (None, mesh.dim):
                mc = fem.mesh.read(fn, dim=dim_arg)
                c.trans += 1
                c.states += 1
                sub = f"{fmt}/dim={dim_arg}"
                if len(mc.meshes) != 1:
                    c.bad(sub + "/blocks", "number of cell blocks read back", len(mc.meshes), 1)
                    continue
                m = mc.meshes[0]
                c.nontrivial.append(sub)
                if m.cell_type != mesh.cell_type:
                    c.bad(sub + "/cell_type", "cell type after the round trip", m.cell_type, mesh.cell_type)
                c.same(sub + "/cells", "cells after the round trip", m.cells, mesh.cells)
                d = mesh.dim
                c.same(sub + "/points", "points after the round trip", m.points[:, :d], mesh.points)
                if m.points.shape[1] > d and np.abs(m.points[:, d:]).max() > 0:
                    c.bad(sub + "/padding", "padded coordinates must be zero", float(np.abs(m.points[:, d:]).max()), 0)
                if dim_arg is not None and m.points.shape[1] != d:
                    c.bad(sub + "/dim", "read(dim=...) must return points of that dimension", m.points.shape[1], d)
            os.remove(fn)
            if fmt == "xdmf" and os.path.exists(fn.replace(".xdmf", ".h5")):
                os.remove(fn.replace(".xdmf", ".h5"))
        # the pyvista route (as_unstructured_grid / MeshContainer.from_unstructured_grid): VTK cell type of the standard cell
        # types (independent table of VTK ids), and the same points, cells and cell type after the way back
        VTK_ID = {"line": 3, "triangle": 5, "quad": 9, "tetra": 10, "hexahedron": 12, "triangle6": 22, "quad8": 23, "tetra10": 24, "hexahedron20": 25, "quad9": 28, "hexahedron27": 29}
        if mesh.cell_type in VTK_ID:
            try:
                grid = mesh.as_unstructured_grid()
                c.trans += 1
                ids = np.unique(np.asarray(grid.celltypes))
                if ids.tolist() != [VTK_ID[mesh.cell_type]]:
                    c.bad("pyvista/celltype", "VTK cell type of the unstructured grid", ids.tolist(), [VTK_ID[mesh.cell_type]])
                back = fem.MeshContainer.from_unstructured_grid(grid, dim=mesh.dim)
                c.trans += 1
                c.states += 1
                if len(back.meshes) != 1 or back.meshes[0].cell_type != mesh.cell_type:
                    c.bad("pyvista/roundtrip/cell_type", "cell type after as_unstructured_grid -> from_unstructured_grid", [m_.cell_type for m_ in back.meshes], [mesh.cell_type])
                else:
                    c.same("pyvista/roundtrip/cells", "cells after the pyvista round trip", back.meshes[0].cells, mesh.cells)
                    c.same("pyvista/roundtrip/points", "points after the pyvista round trip", back.meshes[0].points[:, : mesh.dim], mesh.points)
                    c.nontrivial.append("pyvista/roundtrip")
            except Exception as ex:  # noqa
                c.bad("pyvista/exception", "the pyvista route raised for a standard cell type", repr(ex)[:160], "a grid and the mesh back")
        return c.result(dict(case=case["key"], points=int(mesh.npoints), cells=int(mesh.ncells), formats=fmts))
    if kind == "container":
        a = zoo.make("quad", "distorted", seed)
        b = fem.Mesh(a.points + np.array([1.0, 0.0]), a.cells, a.cell_type)
        t = zoo.make("triangle", "renum", seed)
        t = fem.Mesh(t.points + np.array([0.0, 1.0]), t.cells, t.cell_type)
        # (two blocks of the same cell type are merged into one block by meshio's vtk/vtu readers: third-party behaviour)
        for lab, blocks in (("quad+triangle", [a, t]),):
            mc = fem.MeshContainer(blocks)
            for fmt in FORMATS:
                fn = f"c_{lab.replace('+', '_')}.{fmt}"
                mc.as_meshio(combined=False).write(fn)
                for merge in (False, True):
                    r = fem.mesh.read(fn, dim=2, merge=merge)
                    c.trans += 1
                    c.states += 1
                    sub = f"{lab}/{fmt}/merge={merge}"
                    c.nontrivial.append(sub)
                    if len(r.meshes) != 2:
                        c.bad(sub + "/blocks", "number of blocks", len(r.meshes), 2)
                        continue
                    if not all(m.points is r.points for m in r.meshes):
                        c.bad(sub + "/shared-points", "all meshes of a container must refer to one shared point array", "distinct objects", "same object")
                    for k, (m, orig) in enumerate(zip(r.meshes, mc.meshes)):
                        if m.cell_type != orig.cell_type:
                            c.bad(sub + f"/block{k}/type", "cell type", m.cell_type, orig.cell_type)
                        # geometry of every cell is preserved (merging renumbers points)
                        c.same(sub + f"/block{k}/geometry", "corner coordinates of every cell", r.points[m.cells], mc.points[orig.cells], 1e-15 if merge else 0.0)
                    if merge:
                        npts = len(np.unique(np.round(mc.points, 12), axis=0))
                        if len(r.points) != npts:
                            c.bad(sub + "/merged-count", "number of points after merging duplicates", len(r.points), npts)
                # every block of the two-block file by its index from the front and from the back
                nb_ = len(mc.meshes)
                for k_ in range(nb_):
                    for cb in (k_, k_ - nb_, np.int64(k_)):
                        try:
                            rb_ = fem.mesh.read(fn, dim=2, cellblock=cb)
                        except Exception as ex:  # noqa
                            c.bad(f"{lab}/{fmt}/cellblock={cb}/exception", "read(cellblock=...) raised for a valid block index", repr(ex)[:120], "the block")
                            continue
                        c.trans += 1
                        if len(rb_.meshes) != 1 or rb_.meshes[0].cell_type != mc.meshes[k_].cell_type or len(rb_.meshes[0].cells) != len(mc.meshes[k_].cells):
                            c.bad(f"{lab}/{fmt}/cellblock={cb}", "read(cellblock=k) returns block k of the file", [len(rb_.meshes), getattr(rb_.meshes[0], "cell_type", None) if len(rb_.meshes) else None], [1, mc.meshes[k_].cell_type])
                os.remove(fn)
                if fmt == "xdmf" and os.path.exists(fn.replace(".xdmf", ".h5")):
                    os.remove(fn.replace(".xdmf", ".h5"))
        # the default export (combined=True: one block per cell type) for containers of THREE blocks in every order, two of them
        # of the same cell type (adjacent or separated by the third): per cell type the exported object, and a file written from
        # it and read back, hold exactly the cells that were given (compared by corner coordinates)
        def cellset(points, cells):
            return sorted(tuple(np.round(points[cl], 12).ravel().tolist()) for cl in cells)

        for order in itertools.permutations(("a", "b", "t")):
            blocks = [dict(a=a, b=b, t=t)[k_] for k_ in order]
            for merge in (False, True):
                mc = fem.MeshContainer(blocks, merge=merge)
                sub = f"combined/order={''.join(order)}/merge={merge}"
                want = {}
                for m_ in mc.meshes:
                    want.setdefault(m_.cell_type, []).extend(cellset(mc.points, m_.cells))
                mio = mc.as_meshio()
                c.trans += 1
                got = {}
                for cb in mio.cells:
                    got.setdefault(cb.type, []).extend(cellset(np.asarray(mio.points)[:, :2], cb.data))
                if {k_: sorted(v_) for k_, v_ in got.items()} != {k_: sorted(v_) for k_, v_ in want.items()}:
                    c.bad(sub + "/object", "cells per cell type in the exported (combined) meshio object", {k_: len(v_) for k_, v_ in got.items()}, {k_: len(v_) for k_, v_ in want.items()})
                    continue
                fn = f"c_comb_{''.join(order)}_{int(merge)}.vtu"
                import meshio

                meshio.Mesh(np.pad(np.asarray(mio.points)[:, :2], ((0, 0), (0, 1))), mio.cells).write(fn)  # (vtu wants 3D points)
                r = fem.mesh.read(fn, dim=2)
                c.trans += 1
                back = {}
                for m_ in r.meshes:
                    back.setdefault(m_.cell_type, []).extend(cellset(r.points, m_.cells))
                if {k_: sorted(v_) for k_, v_ in back.items()} != {k_: sorted(v_) for k_, v_ in want.items()}:
                    c.bad(sub + "/file", "cells per cell type in the file written from the combined export", {k_: len(v_) for k_, v_ in back.items()}, {k_: len(v_) for k_, v_ in want.items()})
                os.remove(fn)
                c.nontrivial.append(sub)
                c.states += 1
        return c.result(dict(case=case["key"]))
    if kind == "job":
        from meshio.xdmf import TimeSeriesReader

        shape, fail = case["shape"], case["fail"]
        ntot = sum(shape)
        # (custom = False, True, False: jobs relying on the defaults are also evaluated AFTER jobs with user-defined point / cell
        #  data in the same process)
        for (custom, defaults, use_x0, fam) in itertools.product((False, True, False), (True, False), (False, True), ("hexahedron", "quad-ps", "two-body")):
            bodies = None
            if fam == "two-body":
                # two bodies on the sub-meshes of a merged mesh container, solved through a top-level field x0 on the
                # stacked mesh: the file must hold the mesh of the field that was solved
                if not use_x0:
                    continue
                cont = fem.MeshContainer([fem.Cube(a=(0, 0, 0), b=(1, 1, 1), n=2), fem.Cube(a=(1, 0, 0), b=(3, 1, 1), n=(3, 2, 2))], merge=True)
                mesh = cont.stack()
                subfields = [fem.FieldContainer([fem.Field(fem.RegionHexahedron(m), dim=3)]) for m in cont.meshes]
                region = fem.RegionHexahedron(mesh)
                field = fem.FieldContainer([fem.Field(region, dim=3)])
                bodies = [fem.SolidBody(fem.NeoHooke(mu=1.0, bulk=5.0), subfields[0]), fem.SolidBody(fem.NeoHooke(mu=3.0, bulk=9.0), subfields[1])]
            elif fam == "hexahedron":
                mesh = zoo.make("hexahedron", "renum", seed)
                region = fem.RegionHexahedron(mesh)
                field = fem.FieldContainer([fem.Field(region, dim=3)])
            else:
                mesh = zoo.make("quad", "renum", seed)
                region = fem.RegionQuad(mesh)
                field = fem.FieldContainer([fem.FieldPlaneStrain(region, dim=2)])
            if bodies is None:
                bodies = [fem.SolidBody(fem.NeoHooke(mu=1.0, bulk=5.0), field)]
            bounds, lc = fem.dof.uniaxial(field, clamped=True, move=0.0, axis=0, sym=False)
            poison = Poison(field, lc["dof1"])
            vals = 0.05 * (1 + np.arange(ntot)) * np.where(np.arange(ntot) % 3 == 2, -1, 1)
            pv = [1 if fail == i else 0 for i in range(ntot)]
            steps, o = [], 0
            for ns in shape:
                steps.append(fem.Step(bodies + [poison], ramp={bounds["move"]: list(vals[o:o + ns]), poison: pv[o:o + ns]}, boundaries=bounds))
                o += ns
            got = []

            def cb(j, i, substep, got=got):
                got.append([np.array(f.values, copy=True) for f in substep.x.fields] + [substep.x.extract()[0].copy()])

            kw = {}
            if custom:
                kw["point_data"] = {"Twice": lambda field, substep: 2 * fem.math.displacement(field)}
                kw["cell_data"] = {"Cell Index Plus Time": lambda field, substep: [np.arange(mesh.ncells, dtype=float) + len(got)]}
            if use_x0:
                kw["x0"] = field
            fn = f"job_{fam}_{int(custom)}{int(defaults)}{int(use_x0)}.xdmf"
            job = fem.Job(steps, callback=cb)
            raised = None
            try:
                job.evaluate(filename=fn, point_data_default=defaults, cell_data_default=defaults, verbose=False, **kw)
            except Exception as e:  # noqa
                raised = e
            c.trans += 1
            c.states += 1
            sub = f"{fam}/custom={custom}/defaults={defaults}/x0={use_x0}"
            nok = ntot if fail is None else fail
            if len(got) != nok or (raised is None) != (fail is None):
                c.bad(sub + "/job", "job results / exception", [len(got), repr(raised)[:60]], [nok, "raise" if fail is not None else None])
                continue
            if not os.path.exists(fn):
                if nok == 0 and fail is not None:
                    c.outcomes.add("no-file-when-first-substep-fails")
                    continue
                c.bad(sub + "/file", "result file missing", "missing", fn)
                continue
            frames = []
            try:
                with TimeSeriesReader(fn) as reader:
                    pts, cells = reader.read_points_cells()
                    for k in range(reader.num_steps):
                        t, pd, cd = reader.read_data(k)
                        frames.append((t, pd, cd))
            except Exception as e:  # noqa
                if nok == 0:
                    c.outcomes.add("empty-series-unreadable")
                    continue
                c.bad(sub + "/read", "result file cannot be read back", repr(e)[:120], "readable")
                continue
            c.nontrivial.append(sub)
            c.outcomes.add(f"frames={len(frames)}")
            if len(frames) != nok:
                c.bad(sub + "/frames", "number of time frames = number of converged substeps", len(frames), nok)
                continue
            d = mesh.dim
            c.same(sub + "/mesh/points", "mesh points in the result file", pts[:, :d], mesh.points)
            c.same(sub + "/mesh/cells", "mesh cells in the result file", cells[0].data, mesh.cells)
            for k, (t, pd, cd) in enumerate(frames):
                if t != float(k):
                    c.bad(sub + f"/frame{k}/time", "time of frame k", t, float(k))
                u = got[k][0]
                ref_u = np.pad(u, ((0, 0), (0, 3 - u.shape[1])))
                names_p = set(pd.keys())
                exp_p = ({"Displacement"} if defaults else set()) | ({"Twice"} if custom else set())
                if names_p != exp_p:
                    c.bad(sub + f"/frame{k}/point-data-names", "point data arrays in the frame", sorted(names_p), sorted(exp_p))
                    continue
                if defaults:
                    c.same(sub + f"/frame{k}/Displacement", "point displacement of frame k = displacement field of substep k", pd["Displacement"], ref_u)
                if custom:
                    c.same(sub + f"/frame{k}/Twice", "custom point data of frame k", pd["Twice"], 2 * ref_u)
                exp_c = ({"Principal Values of Logarithmic Strain", "Logarithmic Strain", "Deformation Gradient"} if defaults else set()) | ({"Cell Index Plus Time"} if custom else set())
                if set(cd.keys()) != exp_c:
                    c.bad(sub + f"/frame{k}/cell-data-names", "cell data arrays in the frame", sorted(cd.keys()), sorted(exp_c))
                    continue
                if defaults:
                    F = got[k][-1]  # (3,3,q,c)
                    Fm = F.mean(-2).transpose(2, 0, 1)
                    c.same(sub + f"/frame{k}/F", "cell data 'Deformation Gradient' = quadrature mean of F (row-major per cell)", np.asarray(cd["Deformation Gradient"][0]).reshape(-1, 3, 3), Fm, 1e-14)
                    C = np.einsum("kiqc,kjqc->ijqc", F, F)
                    w, V = np.linalg.eigh(np.moveaxis(C, (0, 1), (-2, -1)))
                    lam = 0.5 * np.log(w)  # (q,c,3) ascending
                    E = np.einsum("qca,qcia,qcja->ijqc", lam, V, V)
                    voigt = np.stack([E[0, 0], E[1, 1], E[2, 2], 2 * E[0, 1], 2 * E[1, 2], 2 * E[0, 2]]).mean(-2).T
                    c.same(sub + f"/frame{k}/logstrain", "cell data 'Logarithmic Strain' (Voigt, doubled shear, quadrature mean)", np.asarray(cd["Logarithmic Strain"][0]), voigt, 1e-10)
                    princ = lam[..., ::-1].mean(0)  # descending, mean over q -> (c,3)
                    c.same(sub + f"/frame{k}/logstrain-principal", "cell data principal logarithmic strains (descending, quadrature mean)", np.asarray(cd["Principal Values of Logarithmic Strain"][0]), princ, 1e-10)
                if custom:
                    c.same(sub + f"/frame{k}/custom-cell", "custom cell data evaluated at substep k", np.asarray(cd["Cell Index Plus Time"][0]).ravel(), np.arange(mesh.ncells, dtype=float) + k + 1)
            for f_ in (fn, fn.replace(".xdmf", ".h5")):
                if os.path.exists(f_):
                    os.remove(f_)
        return c.result(dict(case=case["key"], substeps=ntot, expected_frames=ntot if fail is None else fail))
    if kind == "save":
        for fam in ("hexahedron", "quad", "tetra"):
            mesh = zoo.make(fam, "renum", seed)
            region = zoo.region(fam, mesh)
            u = 0.05 * zoo.offarr(seed, 1300, mesh.points.shape)
            field = fem.FieldContainer([fem.Field(region, dim=mesh.dim, values=u.copy())])
            body = fem.SolidBody(fem.NeoHooke(mu=1.0, bulk=2.0), field)
            forces = body.assemble.vector(field).toarray()[:, 0]
            for fmt in ("vtu", "xdmf"):  # (legacy vtk rejects the array name "Reaction Force": meshio limit)
                fn = f"save_{fam}.{fmt}"
                grad = body.results.stress if mesh.dim == 3 else None
                fem.tools.save(region, field, forces=forces, gradient=grad, filename=fn)
                m = meshio.read(fn)
                c.trans += 1
                c.states += 1
                sub = f"{fam}/{fmt}"
                c.nontrivial.append(sub)
                c.same(sub + "/Displacements", "saved displacements", m.point_data["Displacements"][:, : mesh.dim], u)
                c.same(sub + "/Reaction Force", "saved reaction forces", m.point_data["Reaction Force"][:, : mesh.dim], forces.reshape(-1, mesh.dim))
                c.same(sub + "/points", "saved mesh points", m.points[:, : mesh.dim], mesh.points)
                c.same(sub + "/cells", "saved mesh cells", m.cells[0].data, mesh.cells)
                if grad is not None:
                    from felupe.math import det, dot, transpose

                    F = field.extract()[0]
                    sig = dot(grad[0], transpose(F)) / det(F)
                    ref = fem.topoints(sig, region).reshape(mesh.npoints, -1)
                    c.same(sub + "/Cauchy Stress", "saved Cauchy stress at the points (nine components)", np.asarray(m.point_data["Cauchy Stress"]).reshape(mesh.npoints, -1), ref, 1e-14)
                if not np.array_equal(field[0].values, u):
                    c.bad(sub + "/mutated", "save changed the field", "changed", "unchanged")
                os.remove(fn)
                # memory layouts of the field values (column-major table, strided view) x shapes of the force vector
                for vlay, vals in (("F", np.asfortranarray(u)), ("strided", np.repeat(u, 2, axis=1)[:, ::2]), ("T-view", np.ascontiguousarray(u.T).T)):
                    f2 = fem.FieldContainer([fem.Field(region, dim=mesh.dim)])
                    f2[0].values = vals
                    for flay, fo in (("1d", forces), ("column", forces.reshape(-1, 1)), ("table", forces.reshape(-1, mesh.dim)), ("table-F", np.asfortranarray(forces.reshape(-1, mesh.dim)))):
                        sub2 = f"{sub}/values={vlay}/forces={flay}"
                        c.trans += 1
                        try:
                            fem.tools.save(region, f2, forces=fo, filename=fn)
                            m2 = meshio.read(fn)
                        except Exception as ex:  # noqa
                            if flay in ("1d", "column"):
                                c.bad(sub2 + "/exception", "save / read raised", repr(ex)[:160], "a readable file")
                            else:
                                c.outcomes.add("save-force-table-rejected")
                            continue
                        finally:
                            if os.path.exists(fn):
                                os.remove(fn)
                        c.nontrivial.append(sub2)
                        c.same(sub2 + "/Displacements", "saved displacements (layout of the field values must not matter)", m2.point_data["Displacements"][:, : mesh.dim], u)
                        c.same(sub2 + "/Reaction Force", "saved reaction forces: row p = components of point p of the force vector", m2.point_data["Reaction Force"][:, : mesh.dim], forces.reshape(-1, mesh.dim))
        # fields whose number of components differs from the mesh dimension, alone and followed by a scalar field: the leading
        # entries of the force vector belong to the FIRST FIELD (field size, not mesh size)
        for fam, fdim in (("quad", 3), ("quad", 1), ("hexahedron", 1), ("hexahedron", 2)):
            mesh = zoo.make(fam, "renum", seed)
            region = zoo.region(fam, mesh)
            for extra in (False, True):
                u = 0.05 * zoo.offarr(seed, 1310 + fdim, (mesh.npoints, fdim))
                fields = [fem.Field(region, dim=fdim, values=u.copy())] + ([fem.Field(region, dim=1, values=0.3 * zoo.offarr(seed, 1320, (mesh.npoints, 1)))] if extra else [])
                fcx = fem.FieldContainer(fields)
                forces = zoo.offarr(seed, 1330 + fdim, (int(sum(fcx.fieldsizes)),))
                fn = f"save_dim_{fam}_{fdim}.vtu"
                sub = f"{fam}/field-dim={fdim}/extra-field={extra}"
                c.trans += 1
                try:
                    fem.tools.save(region, fcx, forces=forces, filename=fn)
                    m = meshio.read(fn)
                except Exception as ex:  # noqa
                    c.bad(sub + "/exception", "save / read raised for a field whose component count differs from the mesh dimension", repr(ex)[:160], "a readable file")
                    continue
                finally:
                    if os.path.exists(fn):
                        os.remove(fn)
                c.states += 1
                c.nontrivial.append(sub)
                got_u = np.asarray(m.point_data["Displacements"]).reshape(mesh.npoints, -1)
                got_f = np.asarray(m.point_data["Reaction Force"]).reshape(mesh.npoints, -1)
                if got_f.shape[1] < fdim or got_u.shape[1] < fdim:
                    c.bad(sub + "/shape", "components per point of the saved arrays", [got_u.shape[1], got_f.shape[1]], fdim)
                    continue
                c.same(sub + "/Displacements", "saved displacements", got_u[:, :fdim], u)
                c.same(sub + "/Reaction Force", "saved reaction forces = leading field-size entries of the force vector, one row per point", got_f[:, :fdim], forces[: mesh.npoints * fdim].reshape(-1, fdim))
                if got_f.shape[1] > fdim and np.abs(got_f[:, fdim:]).max() > 0:
                    c.bad(sub + "/padding", "padding columns of the saved reaction forces", float(np.abs(got_f[:, fdim:]).max()), 0)
        # call histories: every sequence (depth 2, quick; 3, thorough) over {forces, forces+gradient, own point data, nothing} x
        # two meshes of different size: every file must hold exactly the arrays THAT call was given
        setups = {}
        for tag, fam in (("A", "hexahedron"), ("B", "tetra")):
            mesh = zoo.make(fam, "renum", seed)
            region = zoo.region(fam, mesh)
            u = 0.05 * zoo.offarr(seed, 1300, mesh.points.shape)
            field = fem.FieldContainer([fem.Field(region, dim=3, values=u.copy())])
            body = fem.SolidBody(fem.NeoHooke(mu=1.0, bulk=2.0), field)
            forces = body.assemble.vector(field).toarray()[:, 0]
            setups[tag] = (mesh, region, field, u, forces, body.results.stress)
        variants = ["none", "forces", "forces+gradient", "point_data"]
        alphabet = [(t, v) for t in setups for v in variants]
        depth = 3 if case.get("tier") == "thorough" else 2
        for seq in itertools.product(range(len(alphabet)), repeat=depth):
            for step, k in enumerate(seq):
                tag, var = alphabet[k]
                mesh, region, field, u, forces, stress = setups[tag]
                fn = "save_hist.vtu"
                kw = {}
                expect = {"Displacements"}
                if var.startswith("forces"):
                    kw["forces"] = forces
                    expect.add("Reaction Force")
                if var.endswith("gradient"):
                    kw["gradient"] = stress
                    expect |= {"Cauchy Stress", "Cauchy Stress (Max. Principal)", "Cauchy Stress (Int. Principal)", "Cauchy Stress (Min. Principal)", "Cauchy Stress (Max. Principal Shear)"}
                if var == "point_data":
                    kw["point_data"] = {"Mine": np.arange(mesh.npoints, dtype=float)}
                    expect.add("Mine")
                lab = "save-history=" + " > ".join(f"{alphabet[i][0]}:{alphabet[i][1]}" for i in seq[: step + 1])
                try:
                    fem.tools.save(region, field, filename=fn, **kw)
                    m = meshio.read(fn)
                except Exception as ex:  # noqa
                    c.bad(lab + "/exception", "save / read raised after this call history", repr(ex)[:160], "a readable file")
                    break
                c.trans += 1
                names = set(m.point_data.keys())
                if step == len(seq) - 1:
                    c.traces += 1
                    if names != expect:
                        c.bad(lab + "/arrays", "point data arrays of the file vs the arrays this call was given", sorted(names), sorted(expect))
                    c.same(lab + "/Displacements", "saved displacements", m.point_data["Displacements"], u)
                    if "forces" in kw:
                        c.same(lab + "/Reaction Force", "saved reaction forces", m.point_data["Reaction Force"], forces.reshape(-1, 3))
                    if "point_data" in kw and "Mine" in m.point_data and not np.array_equal(kw["point_data"]["Mine"], np.arange(mesh.npoints, dtype=float)):
                        c.bad(lab + "/own-dict", "the caller's point_data dict content was modified", "modified", "unchanged")
                    c.nontrivial.append(lab)
                if os.path.exists(fn):
                    os.remove(fn)
        return c.result(dict(case=case["key"], save_histories=len(alphabet) ** depth))
    raise ValueError(kind)
