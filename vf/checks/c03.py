"""C03 Every material's stress and elasticity are true derivatives.

Bounded-exhaustive lattice walk: model x parameter set x F-lattice x stored state x out-buffer
history; at every lattice state the derivative is decided along ALL 9 unit directions E_kl
(and the scalar directions p, J for the mixed wrappers) by a Richardson-extrapolated central
finite difference of the model's own stress (resp. energy) at FIXED stored state.
All lattice points are evaluated in one batched call and one by one (cross-talk between batch
items), inputs are compared bit-wise before/after every call.
"""

import inspect
import itertools
import warnings

import numpy as np

from .. import models, zoo

ID = "C03"
RULE = (
    "case = one model variant (hand-coded, tensortrax, jax, composite, mixed wrapper, kinematics, small-strain "
    "framework); inside a case: F-lattice (identity, 26 diagonal stretch states, generic non-symmetric, 12 simple "
    "shears, each also pre-rotated) x stored states (virgin / produced by a previous call / softened) x all 9 unit "
    "directions: hessian vs Richardson central FD of gradient, gradient vs FD of the energy where exposed, batched "
    "vs item-by-item evaluation, inputs unchanged, out=None/fresh/reused buffer. Non-trivial = (state, direction) "
    "pairs with a non-zero reference derivative."
)
ASSUMPTIONS = [
    "FD: central differences with steps h and h/2 (h=2e-5) and Richardson extrapolation; measured floor 1e-10..4e-9 relative, threshold 2e-6 relative to max|A| at the lattice point.",
    "Excluded by construction of the lattice: coincident principal stretches for models evaluated through eigenvalues by an AD backend (lattice='distinct'), pure volumetric / zero-increment states for MORPH (lattice='generic'), |W - W_max| < margin for pseudo-elasticity (stored W_max = 0 or 3.0), the yield surface (sy = 1e3 or 1e-3), van der Waals states with I1-3 < 1e-2.",
    "History models: the derivative is that of the stress update at fixed stored state (algorithmic tangent).",
    "jax runs in x64.",
]
H = 2e-5
TOL = 2e-6

MIXED_BASES = ["NeoHooke(mu,bulk)", "NeoHooke(mu)", "NeoHookeCompressible(mu,lmbda)", "tt.mooney_rivlin#0", "OgdenRoxburgh(NeoHooke)", "tt.ogden#0"]
PJ = [(0.0, 1.0), (0.3, 1.1), (-0.3, 0.9)]


def BOUNDS(tier):
    n = len(zoo.f_lattice(0, tier))
    return {"F_lattice_points": n, "directions": 9, "pJ_lattice": PJ, "fd_step": H, "call_variants": ["out= fresh / previous / garbage", "Fortran-ordered inputs", "second call with the same arrays", "single item vs batch"]}


def plan(tier, seed):
    cases = []
    for e in models.catalogue(tier):
        cases.append(dict(key="model/" + e["name"], kind="model", name=e["name"], seed=seed, tier=tier, cost=e["cost"]))
    for b in list(MIXED_BASES) + ["user-nonconservative"]:
        for w in ("ThreeFieldVariation", "NearlyIncompressible"):
            cases.append(dict(key=f"mixed/{w}/{b}", kind="mixed", wrapper=w, base=b, seed=seed, tier=tier, cost=6))
    # user-supplied volumetric energies with a non-constant second derivative (documented dUdJ= / d2UdJdJ= arguments)
    for b in list(MIXED_BASES)[:2]:
        for w in ("NearlyIncompressible/U=log2", "NearlyIncompressible/U=poly-log"):
            cases.append(dict(key=f"mixed/{w}/{b}", kind="mixed", wrapper=w, base=b, seed=seed, tier=tier, cost=6))
    for k in ("VolumeChange", "AreaChange", "LineChange"):
        cases.append(dict(key="kinematics/" + k, kind="kin", name=k, seed=seed, tier=tier))
    for k in ("LinearElasticPlaneStress", "LinearElasticPlaneStrain"):
        cases.append(dict(key="plane/" + k, kind="plane", name=k, seed=seed, tier=tier))
    for regime in ("elastic", "plastic", "plastic-hardened"):
        cases.append(dict(key="plasticity/" + regime, kind="plastic", regime=regime, seed=seed, tier=tier, cost=3))
    return cases


class Ctx:
    def __init__(self, key):
        self.key = key
        self.viol, self.nontrivial, self.outcomes, self.notes = [], [], set(), []
        self.trans = self.traces = self.states = 0
        self.floor = 1e-4

    def bad(self, sub, what, obs, exp, tol=TOL):
        if len(self.viol) < 60:
            self.viol.append(dict(key=f"{self.key}/{sub}", what=what, observed=obs, expected=exp, tol=tol))

    def result(self, sample):
        return dict(viol=self.viol, states=self.states, transitions=self.trans, traces=self.traces, nontrivial=self.nontrivial, outcomes=sorted(self.outcomes),
                    sample=sample, notes=self.notes, digest=f"{self.states}/{self.traces}/{len(self.viol)}")


def lattice(entry_lattice, seed, tier, name=""):
    lat = zoo.f_lattice(seed, tier)
    out = []
    for lab, F in lat:
        C = F.T @ F
        w = np.linalg.eigvalsh(C)
        if entry_lattice == "distinct" and min(abs(w[1] - w[0]), abs(w[2] - w[1])) < 0.05:
            continue
        if entry_lattice == "generic" and not ("G" in lab or "shear" in lab):
            continue
        if "van_der_waals" in name and abs(np.trace(C) * np.linalg.det(C) ** (-1 / 3) - 3) < 1e-2:
            continue
        out.append((lab, F))
    return out


def stack(lat):
    return np.ascontiguousarray(np.stack([F for _, F in lat], -1)[:, :, :, None])


def fd_dirs(f, F, nout_shape=None):
    """Richardson central FD of f(F) along all 9 unit directions; returns array out_shape + (3,3) + batch"""
    res = None
    for k, l in itertools.product(range(3), repeat=2):
        E = np.zeros((3, 3, 1, 1))
        E[k, l] = 1.0
        d1 = (f(F + H * E) - f(F - H * E)) / (2 * H)
        d2 = (f(F + H / 2 * E) - f(F - H / 2 * E)) / H
        d = (4 * d2 - d1) / 3
        if res is None:
            tshape = d.shape[:-2]
            res = np.zeros(tshape + (3, 3) + d.shape[-2:])
        res[(slice(None),) * len(tshape) + (k, l)] = d
    return res


def compare_tangent(c, sub, A, Afd, labels, what, floor_abs=None, skip_nan_fd=False):
    floor_abs = c.floor if floor_abs is None else floor_abs
    A = np.broadcast_to(A, Afd.shape)
    n = A.shape[-2]
    c.traces += 1
    with np.errstate(invalid="ignore"):
        glob = np.nanmax(np.abs(np.where(np.isfinite(A), A, 0.0))) if A.size else 0.0
    floor = max(1e-3 * glob, floor_abs)  # values far below the magnitude over the lattice / the model's moduli are FD noise
    for j in range(n):
        a, b = A[..., j, 0], Afd[..., j, 0]
        scale = max(np.abs(a).max(), np.abs(b).max(), floor)
        with np.errstate(invalid="ignore"):
            err = np.abs(a - b).max() / scale
        c.states += 1
        if not np.isfinite(err) and skip_nan_fd and np.isfinite(a).all():
            c.notes.append(f"{c.key}/{sub}: reference (energy) not finite at {labels[j]}, point skipped")
            continue
        if not np.isfinite(err):
            c.bad(f"{sub}/F={labels[j]}/nan", what + ": non-finite value at an admissible state", "nan/inf", "finite")
            continue
        if err > TOL:
            idx = np.unravel_index(np.argmax(np.abs(a - b)), a.shape)
            c.bad(f"{sub}/F={labels[j]}", what, dict(rel_err=float(err), at=[int(i) for i in idx], analytic=float(a[idx]), fd=float(b[idx])), "equal", TOL)
        # non-trivial directions
        if a.ndim >= 2:
            for k, l in itertools.product(range(3), repeat=2):
                if np.abs(b[..., k, l]).max() > 1e-9:
                    c.nontrivial.append(f"{sub}/{labels[j]}/{k}{l}")


def accepts_out(fn):
    try:
        return "out" in inspect.signature(fn).parameters
    except (TypeError, ValueError):
        return False


def find(name, tier):
    for e in models.catalogue("thorough"):
        if e["name"] == name:
            return e
    raise KeyError(name)


def state_for(e, um, lab, maker, n, seed):
    if maker is not None:
        return maker(n)
    # "after-call": the state the model itself stores after one call at a generic state not on the lattice
    Fprev = np.eye(3) + 0.35 * zoo.offarr(seed, 950, (3, 3)) + np.diag([0.25, -0.1, 0.05])
    Fp = np.ascontiguousarray(np.broadcast_to(Fprev[:, :, None, None], (3, 3, n, 1)))
    virgin = e["states"][0][1](n)
    if lab == "after-call-het":
        # a state that differs from point to point: every second point keeps its virgin state, the others carry the state
        # after a call at a deformation that varies along the batch
        w = 0.5 + zoo.offarr(seed, 951, (n,))
        Fp = np.eye(3)[:, :, None, None] + (Fp - np.eye(3)[:, :, None, None]) * w[None, None, :, None]
        sv = np.array(um.gradient([np.ascontiguousarray(Fp), virgin])[-1], dtype=float)
        sv[:, ::2] = virgin[:, ::2]
        return sv
    return np.array(um.gradient([Fp, virgin])[-1], dtype=float)


def run_model(case):
    e = find(case["name"], case["tier"])
    c = Ctx(case["key"])
    warnings.simplefilter("ignore")
    um = e["make"]()
    c.floor = 1e-4 * (max(1.0, e["scale"]) if e["scale"] >= 1e-3 else e["scale"])  # (entries in a small stress unit: floor in that unit)
    lat = lattice(e["lattice"], case["seed"], case["tier"], e["name"])
    labels = [l for l, _ in lat]
    F = stack(lat)
    n = F.shape[2]
    for slab, maker in e["states"]:
        sv = state_for(e, um, slab, maker, n, case["seed"])
        sv0 = None if sv is None else sv.copy()
        F0 = F.copy()

        def P_of(FF, sv=sv):
            return np.asarray(um.gradient([FF, sv])[0], dtype=float)

        P = P_of(F)
        A = np.asarray(um.hessian([F, sv])[0], dtype=float)
        c.trans += 2 + 36
        if not np.array_equal(F, F0) or (sv is not None and sv.size and not np.array_equal(sv, sv0)):
            c.bad(f"{slab}/inputs", "inputs modified by gradient/hessian", "modified", "unchanged")
        if not np.isfinite(P).all():
            bad = sorted({labels[j] for j in np.argwhere(~np.isfinite(P))[:, 2]})
            c.bad(f"{slab}/stress-nan", "non-finite stress at admissible lattice states", bad[:6], "finite")
        # the same states handed over in another memory layout (Fortran order; state variables too) and evaluated a second
        # time with the same arrays: same stress and tangent
        if e["backend"] == "hand" or case["tier"] == "thorough":
            Ff = np.asfortranarray(F)
            svf = None if sv is None else np.asfortranarray(sv)
            for rep in ("layout=F", "second-call"):
                args = [Ff, svf] if rep == "layout=F" else [F, sv]
                P2 = np.asarray(um.gradient(args)[0], dtype=float)
                A2 = np.asarray(um.hessian(args)[0], dtype=float)
                c.trans += 2
                c.traces += 1
                e1 = np.abs(P2 - P).max() / max(np.abs(P[np.isfinite(P)]).max() if np.isfinite(P).any() else 1.0, c.floor)
                e2 = np.abs(np.broadcast_to(A2, np.broadcast_shapes(A2.shape, A.shape)) - A).max() / max(np.abs(A[np.isfinite(A)]).max() if np.isfinite(A).any() else 1.0, c.floor)
                if not (e1 < 1e-12 and e2 < 1e-12):
                    c.bad(f"{slab}/{rep}", "stress / elasticity differ when the same states are given in another memory layout, or on a second evaluation with the same arrays", dict(stress=float(e1), tangent=float(e2)), 0, 1e-12)
        # in-place histories on ONE input array (a SolidBody extracts the kinematics into one re-used array): evaluate at the
        # states, overwrite the same array with the reversed batch, evaluate the other quantity -- nothing may be remembered
        if e["backend"] == "hand" or case["tier"] == "thorough" or n <= 60:
            for first, second in (("gradient", "hessian"), ("hessian", "gradient"), ("gradient", "gradient")):
                um2 = e["make"]()
                Fw = np.ascontiguousarray(F.copy())
                svw = None if sv is None else np.ascontiguousarray(sv.copy())
                getattr(um2, first)([Fw, svw])
                Fw[...] = F[:, :, ::-1]
                if svw is not None and svw.size:
                    svw[...] = sv[:, ::-1]
                r2 = np.asarray(getattr(um2, second)([Fw, svw])[0], dtype=float)
                want = (np.broadcast_to(A, np.broadcast_shapes(A.shape, r2.shape)) if second == "hessian" else P)
                want = want[..., ::-1, :] if want.shape[-2] == n else want
                c.trans += 2
                c.traces += 1
                err = np.abs(r2 - want).max() / max(np.abs(want[np.isfinite(want)]).max() if np.isfinite(want).any() else 1.0, c.floor)
                if not err < 1e-12:
                    c.bad(f"{slab}/inplace-history/{first}>{second}", f"{second}() after {first}() and an in-place update of the same input array differs from the evaluation at the new states", float(err), 0, 1e-12)
        Afd = fd_dirs(P_of, F)
        compare_tangent(c, f"{slab}/dPdF", A, Afd, labels, "elasticity tensor vs FD of the stress (all 9 directions)")
        if e["energy"] is not None and slab == "virgin":
            def W_of(FF):
                return np.asarray(e["energy"](FF), dtype=float)

            Pfd = fd_dirs(W_of, F)
            c.trans += 36
            compare_tangent(c, f"{slab}/dWdF", P, Pfd, labels, "stress vs FD of the strain-energy function", skip_nan_fd=(e["backend"] != "hand"))
        # batched vs item by item
        ids = range(n) if (e["backend"] == "hand" or case["tier"] == "thorough") else range(0, n, max(1, n // 12))
        for j in ids:
            Fj = np.ascontiguousarray(F[:, :, j:j + 1])
            svj = None if sv is None else np.ascontiguousarray(sv[:, j:j + 1])
            Pj = np.asarray(um.gradient([Fj, svj])[0])
            Aj = np.broadcast_to(np.asarray(um.hessian([Fj, svj])[0]), (3, 3, 3, 3, 1, 1))
            c.trans += 2
            # scale: magnitude over the whole lattice (a state with analytically zero stress carries only round-off)
            e1 = np.abs(Pj[..., 0, 0] - P[..., j, 0]).max() / max(np.abs(P).max(), c.floor)
            e2 = np.abs(Aj[..., 0, 0] - np.broadcast_to(A, Afd.shape)[..., j, 0]).max() / max(np.abs(A).max(), c.floor)
            if not (e1 < 1e-9 and e2 < 1e-9):
                c.bad(f"{slab}/batch/F={labels[j]}", "batched evaluation differs from the single-item evaluation (cross-talk)", dict(stress=float(e1), tangent=float(e2)), 0, 1e-9)
        # out-buffer histories
        for fname, base in (("gradient", P), ("hessian", np.broadcast_to(A, Afd.shape))):
            fn = getattr(um, fname)
            if not accepts_out(fn):
                continue
            for hist in ("fresh", "previous", "garbage"):
                buf = np.zeros(base.shape) if hist == "fresh" else (np.array(base, dtype=float) if hist == "previous" else np.full(base.shape, 7.25))
                r = np.asarray(fn([F, sv], out=buf)[0])
                c.trans += 1
                c.traces += 1
                err = np.abs(r - base).max() / max(np.abs(base).max(), 1e-8)
                if not err < 1e-12:
                    c.bad(f"{slab}/{fname}/out={hist}", f"{fname}(out=buffer) differs from {fname}(out=None)", float(err), 0, 1e-12)
                c.nontrivial.append(f"{slab}/{fname}/out={hist}")
    # parameters re-assigned through the public `kwargs` container of a long-lived object (what optimize() and the views do):
    # whatever the object then uses, its tangent must stay the derivative of ITS stress and the stress of ITS energy
    um3 = e["make"]()
    kw3 = getattr(um3, "kwargs", None)
    if isinstance(kw3, dict) and kw3 and (e["backend"] == "hand" or case["tier"] == "thorough" or e["name"] in ("tt.neo_hooke#0", "tt.mooney_rivlin#0", "tt.yeoh#0")):
        changed = []
        for k_, v_ in list(kw3.items()):
            if isinstance(v_, (int, float)) and not isinstance(v_, bool) and v_ != 0:
                kw3[k_] = v_ * 1.5
                changed.append(k_)
        if changed:
            slab, maker = e["states"][0]
            sv3 = state_for(e, um3, slab, maker, n, case["seed"])
            P3 = np.asarray(um3.gradient([F, sv3])[0], dtype=float)
            A3 = np.asarray(um3.hessian([F, sv3])[0], dtype=float)
            Afd3 = fd_dirs(lambda FF: np.asarray(um3.gradient([FF, sv3])[0], dtype=float), F)
            c.trans += 38
            compare_tangent(c, "kwargs-reassigned/dPdF", A3, Afd3, labels, f"elasticity vs FD of the stress after the parameters {changed} were re-assigned through .kwargs")
            if hasattr(um3, "function") and e["energy"] is not None and e["backend"] == "hand":
                Pfd3 = fd_dirs(lambda FF: np.asarray(um3.function([FF, sv3])[0], dtype=float), F)
                c.trans += 36
                compare_tangent(c, "kwargs-reassigned/dWdF", P3, Pfd3, labels, "stress vs FD of the object's own energy after parameters were re-assigned through .kwargs")
            c.outcomes.add("kwargs-reassigned")
    return c.result(dict(case=case["key"], lattice_points=n, states=[s for s, _ in e["states"]], backend=e["backend"], first=labels[:3]))


def run_mixed(case):
    import felupe as fem

    c = Ctx(case["key"])
    warnings.simplefilter("ignore")
    nonsym = case["base"] == "user-nonconservative"
    if nonsym:
        # inner material WITHOUT a potential (user functions, tangent without major symmetry): nothing in the wrappers may
        # rely on A : F = F : A
        from .c01 import material as c01_material

        e = dict(name="user-nonconservative", make=lambda: c01_material("user-nonconservative", None)[0], scale=1.0, lattice="all", states=[("virgin", lambda n: None)], nstate=0)
    else:
        e = find(case["base"], case["tier"])
    base = e["make"]()
    c.floor = 1e-4 * max(7.0, e["scale"])
    if case["wrapper"] == "ThreeFieldVariation":
        um = fem.ThreeFieldVariation(base)
    elif case["wrapper"].endswith("U=log2"):  # U = K/2 ln(J)^2
        um = fem.NearlyIncompressible(base, bulk=7.0, dUdJ=lambda J, K: K * np.log(J) / J, d2UdJdJ=lambda J, K: K * (1 - np.log(J)) / J**2)
    elif case["wrapper"].endswith("U=poly-log"):  # U = K/4 (J^2 - 1 - 2 ln J)
        um = fem.NearlyIncompressible(base, bulk=7.0, dUdJ=lambda J, K: K / 2 * (J - 1 / J), d2UdJdJ=lambda J, K: K / 2 * (1 + 1 / J**2))
    else:
        um = fem.NearlyIncompressible(base, bulk=7.0)
    lat = lattice(e["lattice"], case["seed"], "quick", e["name"])
    labels = [l for l, _ in lat]
    F = stack(lat)
    n = F.shape[2]
    for slab, maker in e["states"]:
        sv = None if nonsym else state_for(e, base, slab, maker, n, case["seed"])
        for p0, J0 in PJ:
            p = np.full((n, 1), p0)
            J = np.full((n, 1), J0)
            x0 = [F.copy(), p.copy(), J.copy()]

            def g(FF, pp, JJ):
                r = um.gradient([FF, pp, JJ, sv])
                return [np.asarray(r[0], float), np.asarray(r[1], float) * np.ones((n, 1)), np.asarray(r[2], float) * np.ones((n, 1))]

            Hs = um.hessian([F, p, J, sv])
            c.trans += 1 + 40
            if not (np.array_equal(F, x0[0]) and np.array_equal(p, x0[1]) and np.array_equal(J, x0[2])):
                c.bad(f"{slab}/pJ={p0},{J0}/inputs", "inputs modified", "modified", "unchanged")
            uu, up, uJ, pp_, pJ_, JJ_ = [None if h is None else np.asarray(h, float) for h in Hs]
            sub = f"{slab}/pJ={p0},{J0}"
            # derivatives wrt F of all three residuals
            dF = [fd_dirs(lambda FF, i=i: g(FF, p, J)[i], F) for i in range(3)]
            compare_tangent(c, sub + "/uu", uu, dF[0], labels, "block uu vs FD")
            z33 = np.zeros((3, 3, n, 1))
            compare_tangent(c, sub + "/pu", up if up is not None else z33, dF[1], labels, "block up (= d r_p / dF) vs FD")
            compare_tangent(c, sub + "/Ju", uJ if uJ is not None else z33, dF[2], labels, "block uJ (= d r_J / dF) vs FD")
            # derivatives wrt p and J
            def dscal(which):
                out = []
                for i in range(3):
                    def f(s):
                        return g(F, p + s if which == "p" else p, J + s if which == "J" else J)[i]
                    d1 = (f(H) - f(-H)) / (2 * H)
                    d2 = (f(H / 2) - f(-H / 2)) / H
                    out.append((4 * d2 - d1) / 3)
                return out

            dp, dJ = dscal("p"), dscal("J")
            one = np.ones((n, 1))
            compare_tangent(c, sub + "/up", up if up is not None else z33, dp[0], labels, "block up (= d r_u / dp) vs FD")
            compare_tangent(c, sub + "/pp", (pp_ if pp_ is not None else 0.0) * one, dp[1], labels, "block pp vs FD")
            compare_tangent(c, sub + "/Jp", (pJ_ if pJ_ is not None else 0.0) * one, dp[2], labels, "block pJ (= d r_J / dp) vs FD")
            if not nonsym:  # (for an inner tangent without major symmetry d r_u / dJ and d r_J / dF differ; the returned block is the latter)
                compare_tangent(c, sub + "/uJ", uJ if uJ is not None else z33, dJ[0], labels, "block uJ (= d r_u / dJ) vs FD")
            compare_tangent(c, sub + "/pJ", (pJ_ if pJ_ is not None else 0.0) * one, dJ[1], labels, "block pJ (= d r_p / dJ) vs FD")
            compare_tangent(c, sub + "/JJ", (JJ_ if JJ_ is not None else 0.0) * one, dJ[2], labels, "block JJ vs FD")
    return c.result(dict(case=case["key"], lattice_points=n, pJ=PJ))


def run_kin(case):
    import felupe.constitution as C

    c = Ctx(case["key"])
    lat = zoo.f_lattice(case["seed"], "quick")
    labels = [l for l, _ in lat]
    F = stack(lat)
    k = getattr(C, case["name"])()
    if case["name"] == "VolumeChange":
        dJ = fd_dirs(lambda FF: np.asarray(k.function([FF])[0], float), F)
        compare_tangent(c, "gradient", np.asarray(k.gradient([F])[0]), dJ, labels, "dJ/dF vs FD of det F")
        d2 = fd_dirs(lambda FF: np.asarray(k.gradient([FF])[0], float), F)
        compare_tangent(c, "hessian", np.asarray(k.hessian([F])[0]), d2, labels, "d2J/dFdF vs FD")
    elif case["name"] == "AreaChange":
        d = fd_dirs(lambda FF: np.asarray(k.function([FF])[0], float), F)
        compare_tangent(c, "gradient", np.asarray(k.gradient([F])[0]), d, labels, "d(J F^-T)/dF vs FD")
        N = zoo.offvec(case["seed"], 960, 3) + np.array([0.2, 0.5, 1.0])
        Nb = np.ascontiguousarray(np.broadcast_to(N[:, None, None], (3,) + F.shape[2:]))
        dN = fd_dirs(lambda FF: np.asarray(k.function([FF], N=Nb)[0], float), F)
        compare_tangent(c, "gradient/N", np.asarray(k.gradient([F], N=Nb)[0]), dN, labels, "d(J F^-T N)/dF vs FD")
        # definition: J F^-T
        Fm = np.moveaxis(F[..., 0], -1, 0)
        ref = np.moveaxis(np.linalg.det(Fm)[:, None, None] * np.linalg.inv(Fm).transpose(0, 2, 1), 0, -1)[..., None]
        e = np.abs(np.asarray(k.function([F])[0]) - ref).max()
        if e > 1e-12:
            c.bad("function", "AreaChange.function = J F^-T", float(e), 0)
    else:
        d = fd_dirs(lambda FF: np.asarray(k.function([FF])[0], float), F)
        compare_tangent(c, "gradient", np.asarray(k.gradient([F])[0]), d, labels, "dF/dF vs FD")
    c.trans += 80
    return c.result(dict(case=case["key"], lattice_points=F.shape[2]))


def run_plane(case):
    import felupe as fem

    c = Ctx(case["key"])
    um = getattr(fem.constitution, case["name"])(E=2.0, nu=0.3)
    lat = [(l, Fm[:2, :2]) for l, Fm in zoo.f_lattice(case["seed"], "quick") if abs(np.linalg.det(Fm[:2, :2])) > 0.2]
    labels = [l for l, _ in lat]
    F = np.ascontiguousarray(np.stack([f for _, f in lat], -1)[:, :, :, None])
    P = np.asarray(um.gradient([F, None])[0], float)
    A = np.asarray(um.hessian([F, None])[0], float)
    res = np.zeros((2, 2, 2, 2) + F.shape[2:])
    for k, l in itertools.product(range(2), repeat=2):
        E = np.zeros((2, 2, 1, 1))
        E[k, l] = 1.0
        res[:, :, k, l] = (np.asarray(um.gradient([F + H * E, None])[0]) - np.asarray(um.gradient([F - H * E, None])[0])) / (2 * H)
    A = np.broadcast_to(A, res.shape)
    c.trans += 10
    for j in range(F.shape[2]):
        err = np.abs(A[..., j, 0] - res[..., j, 0]).max() / np.abs(A).max()
        c.states += 1
        c.traces += 1
        c.nontrivial.append(labels[j])
        if not err < TOL:
            c.bad(f"F={labels[j]}", "2D elasticity vs FD of the 2D stress", float(err), 0)
    return c.result(dict(case=case["key"], lattice_points=F.shape[2]))


def run_plastic(case):
    import felupe as fem

    c = Ctx(case["key"])
    warnings.simplefilter("ignore")
    sy = 1e3 if case["regime"] == "elastic" else 1e-3
    um = fem.LinearElasticPlasticIsotropicHardening(E=2.0, nu=0.3, sy=sy, K=0.4)
    lat = [(l, Fm) for l, Fm in zoo.f_lattice(case["seed"], "quick") if not l.startswith("Q") and l != "I"]
    labels = [l for l, _ in lat]
    F = stack(lat)
    n = F.shape[2]
    nsv = 1 + 9 + 18
    sv = np.zeros((nsv, n, 1))
    if case["regime"] == "plastic-hardened":
        Fprev = np.eye(3) + 0.2 * zoo.offarr(case["seed"], 970, (3, 3))
        Fp = np.ascontiguousarray(np.broadcast_to(Fprev[:, :, None, None], (3, 3, n, 1)))
        sv = np.array(um.gradient([Fp, sv])[-1], float)
    sv0 = sv.copy()
    P = np.asarray(um.gradient([F, sv])[0], float)
    A = np.asarray(um.hessian([F, sv])[0], float)
    Afd = fd_dirs(lambda FF: np.asarray(um.gradient([FF, sv])[0], float), F)
    c.trans += 38
    compare_tangent(c, "dsde", A, Afd, labels, "algorithmically consistent tangent vs FD of the stress update")
    if not np.array_equal(sv, sv0):
        c.bad("inputs", "stored state modified by gradient/hessian", "modified", "unchanged")
    # regime actually reached (vacuity guard)
    svn = np.asarray(um.gradient([F, sv])[-1], float)
    alpha_new, alpha_old = svn[0], sv[0]
    grew = int((alpha_new > alpha_old + 1e-12).sum())
    c.outcomes.add(f"{case['regime']}:plastic-points={grew}/{n}")
    # evaluation histories on the material (and on a second instance with the same constants): the tangent is evaluated at one
    # set of states and then at another one of the same shape (yielding -> elastic, elastic -> yielding, mixed); the second
    # tangent must be the derivative of the second stress (nothing may be remembered per shape / per constants)
    if case["regime"] == "plastic-hardened":
        um_h = fem.LinearElasticPlasticIsotropicHardening(E=2.0, nu=0.3, sy=0.05, K=0.4)
        I4 = np.eye(3)[:, :, None, None]
        sets = {"large": F, "small": I4 + 0.02 * (F - I4), "mixed": np.where((np.arange(n) % 2 == 0)[None, None, :, None], F, I4 + 0.02 * (F - I4))}
        svh = np.zeros((nsv, n, 1))
        fds = {k_: fd_dirs(lambda FF: np.asarray(um_h.gradient([FF, svh])[0], float), np.ascontiguousarray(v_)) for k_, v_ in sets.items()}
        for s1, s2 in itertools.permutations(sets, 2):
            for second in ("same-object", "new-instance"):
                um_h.hessian([np.ascontiguousarray(sets[s1]), svh])
                um2 = um_h if second == "same-object" else fem.LinearElasticPlasticIsotropicHardening(E=2.0, nu=0.3, sy=0.05, K=0.4)
                A2 = np.asarray(um2.hessian([np.ascontiguousarray(sets[s2]), svh])[0], float)
                c.trans += 2
                compare_tangent(c, f"history/{s1}>{s2}/{second}", A2, fds[s2], labels, "tangent evaluated after another evaluation of the same shape vs FD of the stress update")
    # a batch that contains exactly undeformed points (zero strain, zero deviator: the flow direction is undefined there) next
    # to yielding ones: every point's stress / tangent / state must be what the point gives when evaluated alone
    if case["regime"] != "elastic":
        I4_ = np.eye(3)[:, :, None, None]
        Fz = np.ascontiguousarray(np.where((np.arange(n) % 3 == 0)[None, None, :, None], I4_, F))
        rz = um.gradient([Fz, sv])
        Pz, svz = np.asarray(rz[0], float), np.asarray(rz[-1], float)
        Az = np.broadcast_to(np.asarray(um.hessian([Fz, sv])[0], float), (3, 3, 3, 3, n, 1))
        c.trans += 2
        if not (np.isfinite(Pz).all() and np.isfinite(svz).all() and np.isfinite(Az).all()):
            badp = sorted({int(j) for j in np.argwhere(~np.isfinite(Pz))[:, 2]})
            c.bad("undeformed-in-batch/finite", "non-finite stress / state / tangent in a batch that mixes undeformed and yielding points", badp[:6], "finite")
        else:
            for j in range(n):
                rj = um.gradient([np.ascontiguousarray(Fz[:, :, j:j + 1]), np.ascontiguousarray(sv[:, j:j + 1])])
                Aj = np.broadcast_to(np.asarray(um.hessian([np.ascontiguousarray(Fz[:, :, j:j + 1]), np.ascontiguousarray(sv[:, j:j + 1])])[0], float), (3, 3, 3, 3, 1, 1))
                c.trans += 2
                e1 = np.abs(np.asarray(rj[0], float)[..., 0, 0] - Pz[..., j, 0]).max() / max(np.abs(Pz).max(), 1e-6)
                e2 = np.abs(np.asarray(rj[-1], float)[:, 0, 0] - svz[:, j, 0]).max() / max(np.abs(svz).max(), 1e-6)
                e3 = np.abs(Aj[..., 0, 0] - Az[..., j, 0]).max() / max(np.abs(Az).max(), 1e-6)
                if not (e1 < 1e-10 and e2 < 1e-10 and e3 < 1e-10):
                    c.bad(f"undeformed-in-batch/point{j}", "point of a batch that mixes undeformed and yielding points vs the same point evaluated alone", dict(stress=float(e1), state=float(e2), tangent=float(e3)), 0, 1e-10)
                    break
            c.traces += 1
    if case["regime"] == "elastic" and grew:
        c.bad("regime", "elastic regime expected", grew, 0)
    if case["regime"] != "elastic" and grew < n:
        c.notes.append(f"{case['key']}: {n - grew} lattice points stayed elastic")
    return c.result(dict(case=case["key"], lattice_points=n, plastic_points=grew))


def run(case):
    return {"model": run_model, "mixed": run_mixed, "kin": run_kin, "plane": run_plane, "plastic": run_plastic}[case["kind"]](case)
