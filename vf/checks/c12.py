"""C12 Independent implementations of the same model agree.

Differential exploration over every pair the library offers twice (jax / tensortrax
namesakes, hand-coded vs AD, component vs tensor notation vs small-strain framework, plane
laws vs the constrained 3D law, orthotropic vs orthotropic Saint-Venant-Kirchhoff) on the
F-lattice x parameter lattice, plus the table of documented initial moduli (transcribed from
the docstrings) against the full 81-component tangent at the undeformed state.
"""

import itertools
import warnings

import numpy as np

from .. import models, zoo
from .c03 import lattice, stack

ID = "C12"
RULE = (
    "case = one implementation pair or one row of the documented initial-moduli table; pairs are evaluated on the "
    "whole F-lattice (stress and elasticity, virgin and softened states where both store one); elastic laws on an (E, nu) "
    "lattice; the moduli table compares all 81 tangent components at F = I with lambda0 1x1 + mu0 (sym. identity)."
)
ASSUMPTIONS = [
    "Pairs agree to 1e-8 relative; the jax models that shift the eigenvalue problem by a documented 1e-4 (extended_tube, storakers) to 1e-2, van_der_waals (1e-4 in both backends) to 1e-8 between backends.",
    "Initial moduli: isochoric models have K0 = 0; tolerance 1e-6 relative, van der Waals 5e-3 (its 1e-4 regularisation), eigenvalue-based AD models 1e-5.",
    "Plane laws: the 3D reference is the component-wise LinearElastic with eps33 = 0 (plane strain) resp. eps33 = -nu/(1-nu) (eps11+eps22) (plane stress).",
]

JAX_SHIFT = {"extended_tube": 1e-2, "storakers": 1e-2}


def BOUNDS(tier):
    return {"F_lattice_points": len(zoo.f_lattice(0, tier)), "E_nu_lattice": [[1.0, 0.0], [2.0, 0.3], [210.0, 0.25], [0.5, 0.45]], "moduli_rows": len(MODULI)}


def _ab_mu(C1, limit):
    return C1 * (1 + 3 / (5 * limit**2) + 99 / (175 * limit**4) + 513 / (875 * limit**6) + 42039 / (67375 * limit**8))


# name -> (parameters, mu0, K0 (None = isochoric: 0), tolerance)
MODULI = {
    "neo_hooke": (dict(mu=1.2), 1.2, None, 1e-6),
    "mooney_rivlin": (dict(C10=0.4, C01=0.2), 2 * 0.6, None, 1e-6),
    "yeoh": (dict(C10=0.5, C20=-0.1, C30=0.02), 1.0, None, 1e-6),
    "third_order_deformation": (dict(C10=0.5, C01=0.1, C11=0.02, C20=-0.05, C30=0.01), 1.2, None, 1e-6),
    "ogden": (dict(mu=[1.0, 0.2], alpha=[1.7, -1.5]), 1.2, None, 1e-5),
    "lopez_pamies": (dict(mu=[1.0, 0.1], alpha=[1.0, -2.0]), 1.1, None, 1e-5),
    "storakers": (dict(mu=[1.0, 0.3], alpha=[2.0, -1.5], beta=[0.9, 0.4]), 1.3, 2 * 1.0 * (1 / 3 + 0.9) + 2 * 0.3 * (1 / 3 + 0.4), 1e-5),
    "arruda_boyce": (dict(C1=1.0, limit=3.2), _ab_mu(1.0, 3.2), None, 1e-6),
    "extended_tube": (dict(Gc=0.1867, Ge=0.2169, beta=0.2, delta=0.0), 0.1867 + 0.2169, None, 1e-5),
    "van_der_waals": (dict(mu=1.0, beta=0.1, a=0.5, limit=5.0), 1.0, None, 5e-3),
    "alexander": (dict(C1=17.0, C2=19.85, C3=1.0, gamma=0.735, k=0.00015), 2 * (17.0 + 19.85 / 0.735 + 1.0), None, 1e-6),
    "anssari_benam_bucchi": (dict(mu=1.0, N=10.0), 1.0 * (1 - 30.0) / (3 - 30.0), None, 1e-6),
    "blatz_ko": (dict(mu=1.0), 1.0, 5.0 / 3.0, 1e-6),
    "saint_venant_kirchhoff": (dict(mu=1.0, lmbda=2.0), 1.0, 2.0 + 2.0 / 3.0, 1e-6),
}


def plan(tier, seed):
    cases = []
    for n in ["blatz_ko", "extended_tube", "miehe_goektepe_lulei", "mooney_rivlin", "neo_hooke", "storakers", "third_order_deformation", "van_der_waals", "yeoh"]:
        cases.append(dict(key=f"pair/jax-tt/{n}", kind="jaxtt", name=n, seed=seed, tier=tier, cost=8))
    cases.append(dict(key="pair/jax-tt/morph", kind="morph", seed=seed, tier=tier, cost=10))
    cases.append(dict(key="pair-history/jax-tt/morph_representative_directions", kind="morph-rd-history", seed=seed, tier=tier, cost=25))
    cases.append(dict(key="pair/hand-tt/NeoHooke", kind="handnh", seed=seed, tier=tier, cost=2))
    cases.append(dict(key="pair/hand-tt/OgdenRoxburgh", kind="handor", seed=seed, tier=tier, cost=3))
    cases.append(dict(key="pair/linear-elastic", kind="linear", seed=seed, tier=tier))
    cases.append(dict(key="pair/plane", kind="plane", seed=seed, tier=tier))
    cases.append(dict(key="pair/orthotropic", kind="ortho", seed=seed, tier=tier))
    for n in MODULI:
        for backend in ("tt", "jax"):
            cases.append(dict(key=f"moduli/{backend}.{n}", kind="moduli", name=n, backend=backend, seed=seed, tier=tier, cost=5 if backend == "jax" else 1))
    for n in ("NeoHooke", "NeoHookeCompressible", "LinearElasticLargeStrain"):
        cases.append(dict(key=f"moduli/hand.{n}", kind="moduli-hand", name=n, seed=seed, tier=tier))
    return cases


class Ctx:
    def __init__(self, key):
        self.key = key
        self.viol, self.nontrivial, self.outcomes, self.notes = [], [], set(), []
        self.trans = self.traces = self.states = 0

    def bad(self, sub, what, obs, exp, tol):
        if len(self.viol) < 60:
            self.viol.append(dict(key=f"{self.key}/{sub}", what=what, observed=obs, expected=exp, tol=tol))

    def cmp(self, sub, what, a, b, tol, labels=None):
        a, b = np.asarray(a, float), np.asarray(b, float)
        b = np.broadcast_to(b, a.shape) if b.shape != a.shape and b.ndim == a.ndim else b
        a = np.broadcast_to(a, b.shape) if a.shape != b.shape and a.ndim == b.ndim else a
        self.traces += 1
        if a.shape != b.shape:
            self.bad(sub, what + " (shape)", list(a.shape), list(b.shape), tol)
            return
        scale = max(np.abs(a).max(), np.abs(b).max(), 1e-8)
        with np.errstate(invalid="ignore"):
            err = np.abs(a - b).max() / scale
        self.states += int(a.shape[-2]) if a.ndim >= 2 else 1
        if scale > 1e-8:
            self.nontrivial.append(sub)
        if not (err <= tol):
            idx = np.unravel_index(np.nanargmax(np.abs(a - b)) if np.isfinite(a - b).any() else 0, a.shape)
            where = labels[idx[-2]] if labels is not None and a.ndim >= 2 else None
            self.bad(sub, what, dict(rel_err=float(err), at=[int(i) for i in idx], F=where, first=float(a[idx]), second=float(b[idx])), "equal", tol)

    def result(self, sample):
        return dict(viol=self.viol, states=self.states, transitions=self.trans, traces=self.traces, nontrivial=self.nontrivial, outcomes=sorted(self.outcomes),
                    sample=sample, notes=self.notes, digest=f"{self.states}/{self.traces}/{len(self.viol)}")


def iso_tangent(mu0, K0):
    I = np.eye(3)
    lam = (K0 if K0 is not None else 0.0) - 2 * mu0 / 3
    return lam * np.einsum("ij,kl->ijkl", I, I) + mu0 * (np.einsum("ik,jl->ijkl", I, I) + np.einsum("il,jk->ijkl", I, I))


def tangent_at_I(um, nstate=0):
    F = np.ascontiguousarray(np.eye(3)[:, :, None, None] * np.ones((1, 1, 2, 1)))
    sv = np.zeros((nstate, 2, 1))
    A = np.asarray(um.hessian([F, sv])[0], float)
    P = np.asarray(um.gradient([F, sv])[0], float)
    return np.broadcast_to(A, (3, 3, 3, 3, 2, 1))[..., 0, 0], P[..., 0, 0]


# default parameters documented for the model functions (docstrings / .kwargs of felupe.constitution.<model>)
DEFAULTS = dict(
    blatz_ko=dict(mu=0), extended_tube=dict(Gc=0, Ge=0, beta=1, delta=0), miehe_goektepe_lulei=dict(mu=0, N=100, U=0, p=2, q=2),
    mooney_rivlin=dict(C10=0, C01=0), neo_hooke=dict(mu=0), storakers=dict(mu=[0], alpha=[2], beta=[1]),
    third_order_deformation=dict(C10=0, C01=0, C11=0, C20=0, C30=0), van_der_waals=dict(mu=0, beta=0, a=0, limit=100), yeoh=dict(C10=0, C20=0, C30=0),
)


def run(case):
    import felupe as fem
    import felupe.constitution as C

    warnings.simplefilter("ignore")
    c = Ctx(case["key"])
    kind = case["kind"]
    seed, tier = case["seed"], case["tier"]
    if kind in ("jaxtt", "morph", "moduli", "morph-rd-history") and (kind != "moduli" or case["backend"] == "jax"):
        import jax

        jax.config.update("jax_enable_x64", True)
        import felupe.constitution.jax as CJ

    if kind == "jaxtt":
        n = case["name"]
        for k, kw in enumerate(models.TT_PARAMS[n]):
            a = fem.Hyperelastic(getattr(C, n), **kw)
            b = CJ.Hyperelastic(getattr(CJ.models.hyperelastic, n), **kw)
            lat = lattice("distinct" if n in models.EIGEN else "all", seed, tier, n)
            labels = [l for l, _ in lat]
            F = stack(lat)
            sv = np.zeros((0, F.shape[2], 1))
            tol = JAX_SHIFT.get(n, 1e-8)
            c.cmp(f"params{k}/stress", "stress of the tensortrax and the jax model", a.gradient([F, sv])[0], b.gradient([F, sv])[0], tol, labels)
            c.cmp(f"params{k}/elasticity", "elasticity of the tensortrax and the jax model", a.hessian([F, sv])[0], b.hessian([F, sv])[0], tol * 10 if tol > 1e-6 else tol, labels)
            c.trans += 4
            # parameter containers: the same constants handed over as float64 arrays / tuples (optimisers store arrays), each
            # material evaluated several times: nothing may be written into the caller's parameter objects and the results stay
            P_ref, A_ref = np.asarray(a.gradient([F, sv])[0], float), np.asarray(a.hessian([F, sv])[0], float)
            for clab, conv in (("float-arrays", lambda v: np.array(v, dtype=float) if isinstance(v, (list, tuple)) else float(v)), ("tuples-ints", lambda v: tuple(v) if isinstance(v, (list, tuple)) else (int(v) if float(v).is_integer() else v))):
                kw2 = {kk: conv(v) for kk, v in kw.items()}
                keep = {kk: np.array(v, dtype=float, copy=True) for kk, v in kw2.items() if not callable(v)}
                for backend, mk in (("tt", lambda: fem.Hyperelastic(getattr(C, n), **kw2)), ("jax", lambda: CJ.Hyperelastic(getattr(CJ.models.hyperelastic, n), **kw2))):
                    try:
                        m2 = mk()
                        outs = [np.asarray(m2.gradient([F, sv])[0], float), np.asarray(m2.hessian([F, sv])[0], float), np.asarray(m2.gradient([F, sv])[0], float), np.asarray(m2.hessian([F, sv])[0], float)]
                    except Exception as ex:  # noqa
                        c.notes.append(f"{n}/{backend}/{clab}: {ex!r}"[:140])
                        continue
                    c.trans += 4
                    tl = max(tol, 1e-10) * (10 if backend == "jax" else 1)
                    c.cmp(f"params{k}/{clab}/{backend}/stress-call1", "stress with parameters given in another container", outs[0], P_ref, tl, labels)
                    c.cmp(f"params{k}/{clab}/{backend}/elasticity-call2", "elasticity after an earlier stress evaluation (parameters in another container)", outs[1], A_ref, tl * 10)
                    c.cmp(f"params{k}/{clab}/{backend}/stress-call3", "stress of the third evaluation of the same material object", outs[2], P_ref, tl, labels)
                    c.cmp(f"params{k}/{clab}/{backend}/elasticity-call4", "elasticity of the fourth evaluation", outs[3], A_ref, tl * 10)
                    for kk, v0 in keep.items():
                        if not np.array_equal(np.asarray(kw2[kk], dtype=float), v0):
                            c.bad(f"params{k}/{clab}/{backend}/parameter-mutated/{kk}", "the caller's parameter object was modified by evaluating the material", np.asarray(kw2[kk], dtype=float).tolist(), v0.tolist(), 0)
        # construction histories: after the materials above were built with complete parameter sets, build both back ends with
        # only the FIRST parameter given -- the others take the defaults the model function documents (table below, copied
        # from the documentation); nothing of an earlier construction may leak into a later one, in either back end
        if n in DEFAULTS and not any(isinstance(v_, list) for v_ in DEFAULTS[n].values()):  # (list-valued parameter sets must be given completely: equal lengths)
            kw_last = models.TT_PARAMS[n][-1]
            first = next(iter(kw_last))
            part = {first: kw_last[first]}
            full = {**DEFAULTS[n], **part}
            try:
                ref_m = fem.Hyperelastic(getattr(C, n), **full)
                P_ref, A_ref = np.asarray(ref_m.gradient([F, sv])[0], float), np.asarray(ref_m.hessian([F, sv])[0], float)
                for backend, mk in (("tt", lambda: fem.Hyperelastic(getattr(C, n), **part)), ("jax", lambda: CJ.Hyperelastic(getattr(CJ.models.hyperelastic, n), **part))):
                    for rep in ("first", "second"):  # (two constructions one after another)
                        m3 = mk()
                        c.trans += 2
                        tl = max(tol, 1e-10) * (10 if backend == "jax" else 1)
                        c.cmp(f"defaults/{backend}/{rep}/stress", f"material built with only {first} given (other parameters at their documented defaults) after materials with complete parameter sets", m3.gradient([F, sv])[0], P_ref, tl, labels)
                        c.cmp(f"defaults/{backend}/{rep}/elasticity", f"elasticity of the material built with only {first} given", m3.hessian([F, sv])[0], A_ref, tl * 10)
            except Exception as ex:  # noqa
                c.notes.append(f"{n}: defaults clause not evaluated: {ex!r}"[:160])
            for backend, fn_ in (("tt", getattr(C, n)), ("jax", getattr(CJ.models.hyperelastic, n))):
                cur = getattr(fn_, "kwargs", None)
                if cur is not None and {k_: np.asarray(v_).tolist() for k_, v_ in cur.items()} != {k_: np.asarray(v_).tolist() for k_, v_ in DEFAULTS[n].items()}:
                    c.bad(f"defaults/{backend}/model-kwargs", "the documented default parameters attached to the model function were modified by constructing materials", {k_: np.asarray(v_).tolist() for k_, v_ in cur.items()}, {k_: np.asarray(v_).tolist() for k_, v_ in DEFAULTS[n].items()}, 0)
        return c.result(dict(case=case["key"], lattice_points=int(F.shape[2]), parameter_sets=len(models.TT_PARAMS[n])))
    if kind == "morph":
        a = C.tensortrax.Material(C.tensortrax.models.lagrange.morph, p=models.MORPH_P, nstatevars=13)
        b = CJ.Material(CJ.models.lagrange.morph, p=models.MORPH_P, nstatevars=13)
        lat = lattice("generic", seed, tier)
        labels = [l for l, _ in lat]
        F = stack(lat)
        n = F.shape[2]
        sv0 = np.zeros((13, n, 1))
        ra, rb = a.gradient([F, sv0]), b.gradient([F, sv0])
        c.cmp("virgin/stress", "MORPH stress, tensortrax vs jax (jax shifts the eigenvalue problem by 1e-4)", ra[0], rb[0], 1e-2, labels)
        c.cmp("virgin/statevars", "MORPH updated state variables", ra[1], rb[1], 1e-2)
        Fprev = np.eye(3) + 0.35 * zoo.offarr(seed, 950, (3, 3)) + np.diag([0.25, -0.1, 0.05])
        Fp = np.ascontiguousarray(np.broadcast_to(Fprev[:, :, None, None], (3, 3, n, 1)))
        sva = np.asarray(a.gradient([Fp, sv0])[1], float)
        c.cmp("after-call/stress", "MORPH stress from a common non-virgin state, tensortrax vs jax", a.gradient([F, sva])[0], b.gradient([F, sva])[0], 1e-2, labels)
        c.trans += 7
        # load histories with FIXED principal axes (for these L_G is symmetric and the two back ends agree closely -- the known
        # finding concerns histories whose principal axes turn): each back end carries its own state through three steps of
        # triaxial stretch, in the coordinate frame and in frames rotated about an axis and about the space diagonal
        from scipy.spatial.transform import Rotation as _Rot

        frames = {"axes": np.eye(3), "about-z": _Rot.from_rotvec([0, 0, 0.6]).as_matrix(), "about-y": _Rot.from_rotvec([0, 0.7, 0]).as_matrix(),
                  "about-diagonal": _Rot.from_rotvec(0.8 * np.ones(3) / np.sqrt(3)).as_matrix(), "generic": zoo.generic_rotations(seed, 1)[0]}
        steps = [np.array([1.3, 0.9, 0.85]), np.array([1.6, 0.8, 0.78]), np.array([1.15, 0.95, 0.92])]
        for flab, R_ in frames.items():
            sva_, svb_ = np.zeros((13, 1, 1)), np.zeros((13, 1, 1))
            for k_, lam_ in enumerate(steps):
                Fk = (R_ @ np.diag(lam_) @ R_.T).reshape(3, 3, 1, 1)
                (Pa_, sva2_), (Pb_, svb2_) = a.gradient([Fk, sva_]), b.gradient([Fk, svb_])
                c.trans += 2
                c.cmp(f"coaxial-history/{flab}/step{k_}/stress", "MORPH stress along a history with fixed principal axes, each back end with its own state", Pa_, Pb_, 2e-3)
                sva_, svb_ = np.asarray(sva2_, float), np.asarray(svb2_, float)
        return c.result(dict(case=case["key"], lattice_points=n))
    if kind == "morph-rd-history":
        # stateful twins driven through every load history without repeated amplitude ({0.4, 1.0, 0.7}, length <= 3) with their own state
        # variables: stress, elasticity and state must agree after every increment, and the first 21 state variables are
        # the running maxima of the Tresca invariant per direction (checker-side, numpy)
        pm = [0.011, 0.408, 0.421, 6.85, 0.0056, 5.54, 5.84, 0.117]
        nsv = 84
        a = C.tensortrax.Material(C.tensortrax.models.lagrange.morph_representative_directions, p=pm, nstatevars=nsv)
        b = CJ.Material(CJ.models.lagrange.morph_representative_directions, p=pm, nstatevars=nsv)
        H = np.zeros((3, 3, 3, 1))
        H[..., 0, 0] = [[1.0, 0.0, 0.0], [0.0, -0.3, 0.0], [0.0, 0.0, -0.3]]
        H[..., 1, 0] = [[0.0, 1.0, 0.0], [0.0, 0.0, 0.0], [0.0, 0.0, 0.0]]
        H[..., 2, 0] = 0.6 * zoo.offarr(seed, 960, (3, 3)) * 2 + np.diag([0.3, -0.1, 0.0])
        eye = np.eye(3).reshape(3, 3, 1, 1)
        rdir = fem.quadrature.BazantOh(n=21).points

        def tresca(F):
            Cg = np.einsum("ki...,kj...->ij...", F, F)
            J = np.linalg.det(np.moveaxis(F, (0, 1), (-2, -1)))
            st = J ** (-1 / 3) * np.sqrt(np.einsum("ai,ij...,aj->a...", rdir, Cg, rdir))
            return np.abs(st**2 - 1 / st)

        amps = (0.4, 1.0, 0.7)
        nh = 0
        for depth in (1, 2, 3):
            # (no amplitude is visited twice: a direction that returns EXACTLY to its stored maximum sits on the kink of
            #  max(CT, CTS), where the two backends legitimately return different one-sided tangents)
            for hist in itertools.permutations(amps, depth):
                sva, svb = np.zeros((nsv, 3, 1)), np.zeros((nsv, 3, 1))
                cts = np.zeros((21, 3, 1))
                for step, amp in enumerate(hist):
                    F = eye + amp * H
                    Aa, Ab = a.hessian([F, sva])[0], b.hessian([F, svb])[0]
                    (Pa, sva2), (Pb, svb2) = a.gradient([F, sva]), b.gradient([F, svb])
                    c.trans += 4
                    if step == len(hist) - 1:
                        lab = "history=" + ">".join(map(str, hist))
                        c.cmp(lab + "/stress", "stress of the tensortrax and the jax model after this load history", Pa, Pb, 1e-6)
                        c.cmp(lab + "/elasticity", "elasticity of the tensortrax and the jax model after this load history", Aa, Ab, 1e-6)
                        cts = np.maximum(cts, tresca(F))
                        c.cmp(lab + "/state/tt", "stored maxima of the Tresca invariant per direction (tensortrax) vs the running maximum over the history", np.asarray(sva2)[:21], cts, 1e-9)
                        c.cmp(lab + "/state/jax", "stored maxima of the Tresca invariant per direction (jax) vs the running maximum over the history", np.asarray(svb2)[:21], cts, 1e-9)
                    else:
                        cts = np.maximum(cts, tresca(F))
                    sva, svb = np.asarray(sva2, float), np.asarray(svb2, float)
                nh += 1
        # the optional regularisation argument of the model (default 1e-6) given explicitly, in both back ends: twins agree
        # and the argument reaches the uniaxial law (the result differs from the default's)
        for eps_ in (1e-2, 1e-4):
            a2 = C.tensortrax.Material(C.tensortrax.models.lagrange.morph_representative_directions, p=pm, nstatevars=nsv, **{"ε": eps_})
            b2 = CJ.Material(CJ.models.lagrange.morph_representative_directions, p=pm, nstatevars=nsv, **{"ε": eps_})
            for hist in itertools.permutations(amps, 2):
                sva, svb, svd = np.zeros((nsv, 3, 1)), np.zeros((nsv, 3, 1)), np.zeros((nsv, 3, 1))
                for step, amp in enumerate(hist):
                    F = eye + amp * H
                    (Pa, sva2), (Pb, svb2) = a2.gradient([F, sva]), b2.gradient([F, svb])
                    Pd, svd2 = b.gradient([F, svd])
                    c.trans += 3
                    if step == 1:
                        lab = f"eps={eps_}/history=" + ">".join(map(str, hist))
                        c.cmp(lab + "/stress", "stress of the tensortrax and the jax model with the optional regularisation argument given", Pa, Pb, 1e-6)
                        c.cmp(lab + "/elasticity", "elasticity of the twins with the optional regularisation argument given", a2.hessian([F, sva])[0], b2.hessian([F, svb])[0], 1e-6)
                        if eps_ == 1e-2 and np.abs(np.asarray(Pb, float) - np.asarray(Pd, float)).max() < 1e-6 * np.abs(np.asarray(Pd, float)).max():
                            c.bad(lab + "/argument-ignored/jax", "the optional regularisation argument has no effect on the jax model", float(np.abs(np.asarray(Pb, float) - np.asarray(Pd, float)).max()), "> 0")
                    sva, svb, svd = np.asarray(sva2, float), np.asarray(svb2, float), np.asarray(svd2, float)
                nh += 1
        c.outcomes.add(f"histories={nh}")
        return c.result(dict(case=case["key"], histories=nh, points=3))
    if kind == "handnh":
        lat = lattice("all", seed, tier)
        labels = [l for l, _ in lat]
        F = stack(lat)
        sv = np.zeros((0, F.shape[2], 1))
        for mu in (1.3, 0.25):
            a = fem.NeoHooke(mu=mu)
            b = fem.Hyperelastic(C.neo_hooke, mu=mu)
            c.cmp(f"mu={mu}/stress", "hand-coded NeoHooke(mu) vs AD neo_hooke", a.gradient([F, sv])[0], b.gradient([F, sv])[0], 1e-10, labels)
            c.cmp(f"mu={mu}/elasticity", "hand-coded NeoHooke(mu) vs AD neo_hooke", a.hessian([F, sv])[0], b.hessian([F, sv])[0], 1e-10, labels)
            # with bulk: composite of the AD model and the hand-coded volumetric part
            a2 = fem.NeoHooke(mu=mu, bulk=3.7)
            b2 = fem.Hyperelastic(C.neo_hooke, mu=mu) & C.Volumetric(bulk=3.7)
            c.cmp(f"mu={mu},bulk/stress", "NeoHooke(mu,bulk) vs neo_hooke & Volumetric", a2.gradient([F, sv])[0], b2.gradient([F, sv])[0], 1e-10, labels)
            c.cmp(f"mu={mu},bulk/elasticity", "NeoHooke(mu,bulk) vs neo_hooke & Volumetric", a2.hessian([F, sv])[0], b2.hessian([F, sv])[0], 1e-10, labels)
            c.trans += 8
        # every parameter combination of the hand-coded class x evaluation history of its out= argument (none / fresh
        # zeros / a buffer holding the result at other deformation gradients, as a solid body passes from its second
        # evaluation on): all histories must agree with the AD / composite namesake evaluated plainly
        F2 = np.ascontiguousarray(F[:, :, ::-1]) * 1.0
        for plab, a, b in (("mu", fem.NeoHooke(mu=0.8), fem.Hyperelastic(C.neo_hooke, mu=0.8)),
                           ("mu,bulk", fem.NeoHooke(mu=0.8, bulk=2.9), fem.Hyperelastic(C.neo_hooke, mu=0.8) & C.Volumetric(bulk=2.9)),
                           ("bulk", fem.NeoHooke(mu=None, bulk=2.9), C.Volumetric(bulk=2.9)),
                           ("bulk-positional-default", fem.NeoHooke(bulk=2.9), C.Volumetric(bulk=2.9))):
            for fn in ("gradient", "hessian"):
                ref = getattr(b, fn)([F, sv])[0]
                got = getattr(a, fn)([F, sv])[0]
                c.cmp(f"out-history/{plab}/{fn}/none", "hand-coded NeoHooke vs namesake", got, ref, 1e-10, labels)
                buf = np.zeros(np.broadcast_shapes(np.shape(got), np.shape(ref)))
                for hlab, prep in (("zeros", []), ("other", [F2]), ("other,same", [F2, F]), ("same,other,other", [F, F2, F2])):
                    buf[...] = 0.0
                    for Fp in prep:
                        getattr(a, fn)([Fp, sv], out=buf)
                    got = getattr(a, fn)([F, sv], out=buf)[0]
                    c.cmp(f"out-history/{plab}/{fn}/{hlab}", "hand-coded NeoHooke evaluated into a re-used out= buffer vs namesake", got, ref, 1e-10, labels)
                    c.trans += 1 + len(prep)
        return c.result(dict(case=case["key"], lattice_points=int(F.shape[2])))
    if kind == "handor":
        lat = lattice("all", seed, tier)
        labels = [l for l, _ in lat]
        F = stack(lat)
        n = F.shape[2]
        for (r, m, beta) in ((3.0, 1.0, 0.1), (1.5, 0.4, 0.0)):
            a = fem.OgdenRoxburgh(fem.NeoHooke(mu=1.0), r=r, m=m, beta=beta)
            b = fem.Hyperelastic(C.ogden_roxburgh, material=C.neo_hooke, r=r, m=m, beta=beta, mu=1.0, nstatevars=1)
            for slab, w in (("virgin", 0.0), ("softened", 3.0)):
                sv = np.full((1, n, 1), w)
                ra, rb = a.gradient([F, sv]), b.gradient([F, sv])
                c.cmp(f"r={r}/{slab}/stress", "hand-coded OgdenRoxburgh vs AD ogden_roxburgh", ra[0], rb[0], 1e-9, labels)
                c.cmp(f"r={r}/{slab}/state", "stored maximum energy", ra[1], rb[1], 1e-9)
                c.cmp(f"r={r}/{slab}/elasticity", "hand-coded OgdenRoxburgh vs AD ogden_roxburgh", a.hessian([F, sv])[0], b.hessian([F, sv])[0], 1e-8, labels)
                c.trans += 4
        return c.result(dict(case=case["key"], lattice_points=n))
    if kind == "linear":
        lat = [(l, np.eye(3) + 0.01 * (Fm - np.eye(3))) for l, Fm in lattice("all", seed, tier) if not l.startswith("Q")]
        labels = [l for l, _ in lat]
        F = stack(lat)
        n = F.shape[2]
        sv = np.zeros((0, n, 1))
        for E, nu in ((1.0, 0.0), (2.0, 0.3), (210.0, 0.25), (0.5, 0.45)):
            lam, mu = C.lame_converter(E, nu)
            a = fem.LinearElastic(E=E, nu=nu)
            b = C.LinearElasticTensorNotation(E=E, nu=nu)
            ms = fem.MaterialStrain(material=C.linear_elastic, λ=lam, μ=mu, statevars=(0,))
            ls = fem.LinearElasticLargeStrain(E=E, nu=nu)
            eps = 0.5 * (F + F.transpose(1, 0, 2, 3)) - np.eye(3)[:, :, None, None]
            ref = 2 * mu * eps + lam * (eps[0, 0] + eps[1, 1] + eps[2, 2]) * np.eye(3)[:, :, None, None]
            sub = f"E={E},nu={nu}"
            Pa = a.gradient([F, sv])[0]
            c.cmp(sub + "/component-vs-definition", "component-wise linear elasticity vs 2 mu eps + lambda tr(eps) 1", Pa, ref, 1e-12, labels)
            c.cmp(sub + "/tensor-vs-component/stress", "tensor notation vs component-wise", b.gradient([F, sv])[0], Pa, 1e-12, labels)
            c.cmp(sub + "/tensor-vs-component/elasticity", "tensor notation vs component-wise", b.hessian([F, sv])[0], a.hessian([F, sv])[0], 1e-12)
            c.cmp(sub + "/framework-vs-component/stress", "small-strain framework linear_elastic vs component-wise", ms.gradient([F, np.zeros((18, n, 1))])[0], Pa, 1e-12, labels)
            Ams = ms.hessian([F, np.zeros((18, n, 1))])[0]
            c.cmp(sub + "/framework-vs-component/elasticity", "small-strain framework tangent vs component-wise", Ams, a.hessian([F, sv])[0], 1e-12)
            # load histories through the small-strain framework: the state variables returned by one evaluation are the old
            # state of the next (every ordered pair / triple of three scaled states): a linear-elastic law is path independent,
            # the stress must be the component-wise law's at the LAST state, the stored strain sym(F) - 1 of the last state
            scales = (1.0, -0.6, 2.3)
            for hist in list(itertools.permutations(range(3), 2)) + list(itertools.permutations(range(3), 3)):
                svh = np.zeros((18, n, 1))
                for k_ in hist:
                    Fh = np.eye(3)[:, :, None, None] + scales[k_] * (F - np.eye(3)[:, :, None, None])
                    out_ = ms.gradient([Fh, svh])
                    c.trans += 1
                    svh = np.array(out_[-1], dtype=float, copy=True)
                lab = sub + "/framework-history=" + ">".join(str(scales[k_]) for k_ in hist)
                Fl = np.eye(3)[:, :, None, None] + scales[hist[-1]] * (F - np.eye(3)[:, :, None, None])
                c.cmp(lab + "/stress", "small-strain framework linear_elastic after a load history vs the component-wise law at the last state", out_[0], a.gradient([Fl, sv])[0], 1e-11, labels)
            AI, PI = tangent_at_I(ls)
            c.cmp(sub + "/large-strain-at-I/elasticity", "LinearElasticLargeStrain tangent at F = I vs linear elasticity", AI, a.hessian()[0][..., 0, 0], 1e-10)
            c.cmp(sub + "/large-strain-at-I/stress", "LinearElasticLargeStrain stress at F = I", PI, np.zeros((3, 3)), 1e-12)
            c.trans += 9
        return c.result(dict(case=case["key"], lattice_points=n))
    if kind == "plane":
        lat = [(l, (np.eye(3) + 0.05 * (Fm - np.eye(3)))[:2, :2]) for l, Fm in lattice("all", seed, "quick") if not l.startswith("Q")]
        labels = [l for l, _ in lat]
        F2 = np.ascontiguousarray(np.stack([f for _, f in lat], -1)[:, :, :, None])
        n = F2.shape[2]
        for E, nu in ((1.0, 0.0), (2.0, 0.3), (210.0, 0.25), (0.5, 0.45)):
            le = fem.LinearElastic(E=E, nu=nu)
            e2 = 0.5 * (F2 + F2.transpose(1, 0, 2, 3)) - np.eye(2)[:, :, None, None]
            for name, e33 in (("LinearElasticPlaneStrain", 0 * e2[0, 0]), ("LinearElasticPlaneStress", -nu / (1 - nu) * (e2[0, 0] + e2[1, 1]))):
                um = getattr(C, name)(E=E, nu=nu)
                F3 = np.zeros((3, 3, n, 1))
                F3[:2, :2] = e2
                F3[2, 2] = e33
                F3 = F3 + np.eye(3)[:, :, None, None]
                S3 = le.gradient([F3, None])[0]
                sub = f"{name}/E={E},nu={nu}"
                c.cmp(sub + "/in-plane", "2D law vs in-plane stress of the constrained 3D law", um.gradient([F2, None])[0], S3[:2, :2], 1e-11, labels)
                if name.endswith("Stress"):
                    c.cmp(sub + "/s33", "3D law under the plane-stress strain has s33 = 0", 1 + S3[2, 2] / max(np.abs(S3).max(), 1e-12), 1 + 0 * S3[2, 2], 1e-11)
                # tangent: condensed 3D tangent
                C3 = le.hessian()[0][..., 0, 0]
                if name.endswith("Strain"):
                    Cref = C3[:2, :2, :2, :2]
                else:
                    Cref = C3[:2, :2, :2, :2] - np.einsum("ij,kl->ijkl", C3[:2, :2, 2, 2], C3[2, 2, :2, :2]) / C3[2, 2, 2, 2]
                c.cmp(sub + "/tangent", "2D tangent vs (condensed) 3D tangent", um.hessian([F2, None])[0][..., 0, 0], Cref, 1e-11)
                # the 3D recovery methods
                c.cmp(sub + "/stress3d", "stress(x): 3D stress tensor", um.stress([F2, None])[0], S3, 1e-11, labels)
                c.cmp(sub + "/strain3d", "strain(x): 3D strain tensor", um.strain([F2, None])[0], F3 - np.eye(3)[:, :, None, None], 1e-11, labels)
                c.trans += 5
        return c.result(dict(case=case["key"], lattice_points=n))
    if kind == "ortho":
        for E, nu, G in (([2.0, 3.0, 4.0], [0.3, 0.2, 0.1], [1.0, 1.5, 2.0]), ([6.0, 6.0, 6.0], [0.25, 0.25, 0.25], [2.4, 2.4, 2.4]), ([10.0, 2.0, 5.0], [0.1, 0.3, 0.05], [0.8, 3.0, 1.1])):
            lo = fem.LinearElasticOrthotropic(E=E, nu=nu, G=G)
            lmbda, mu = C.lame_converter_orthotropic(E=E, nu=nu, G=G)
            svk = fem.Hyperelastic(C.saint_venant_kirchhoff_orthotropic, mu=mu, lmbda=lmbda, r1=[1.0, 0.0, 0.0], r2=[0.0, 1.0, 0.0])
            AI, PI = tangent_at_I(svk)
            c.cmp(f"E={E}/tangent", "orthotropic linear elasticity vs orthotropic SVK tangent at F = I (via lame_converter_orthotropic)", AI, lo.hessian()[0][..., 0, 0], 1e-9)
            c.cmp(f"E={E}/stress-free", "orthotropic SVK stress at F = I", PI, np.zeros((3, 3)), 1e-12)
            c.trans += 3
            # the documented strain exponent k (family of Seth-Hill strains): every member has the same linearisation, so the
            # tangent at F = I is the orthotropic linear-elastic one for every k (eigenvalue regularisation of the AD back end
            # at the triple eigenvalue of C = I: 1e-7 relative measured, allowance 1e-6); r3 given or derived
            for k_ in (1, 0, -2, 3, 0.5):
                for r3_ in (None, [0.0, 0.0, 1.0]):
                    svk_k = fem.Hyperelastic(C.saint_venant_kirchhoff_orthotropic, mu=mu, lmbda=lmbda, r1=[1.0, 0.0, 0.0], r2=[0.0, 1.0, 0.0], r3=r3_, k=k_)
                    AIk, PIk = tangent_at_I(svk_k)
                    c.cmp(f"E={E}/k={k_}/r3={'given' if r3_ else 'derived'}/tangent", "orthotropic linear elasticity vs orthotropic SVK (Seth-Hill exponent k) tangent at F = I", AIk, lo.hessian()[0][..., 0, 0], 1e-6)
                    c.cmp(f"E={E}/k={k_}/r3={'given' if r3_ else 'derived'}/stress-free", "orthotropic SVK (Seth-Hill exponent k) stress at F = I", 1 + PIk / np.abs(AIk).max(), np.ones((3, 3)), 1e-6)
                    c.trans += 2
            # the same constants in every container a caller may keep them in (lists, tuples, float64 / float32 / integer-free
            # arrays), shared between the linear law and the converter, in both orders of use and with the converter called
            # twice: the caller's containers keep their values and both laws keep agreeing with the reference tangent
            ref_t = np.array(lo.hessian()[0][..., 0, 0], dtype=float, copy=True)
            for clab, conv in (("float64-arrays", lambda v: np.array(v, dtype=float)), ("tuples", tuple), ("float32-arrays", lambda v: np.array(v, dtype=np.float32))):
                for order_ in ("law-first", "converter-first"):
                    E_, nu_, G_ = conv(E), conv(nu), conv(G)
                    keep = [np.array(x_, dtype=float, copy=True) for x_ in (E_, nu_, G_)]
                    if order_ == "law-first":
                        lo2 = fem.LinearElasticOrthotropic(E=E_, nu=nu_, G=G_)
                    lm1 = C.lame_converter_orthotropic(E=E_, nu=nu_, G=G_)
                    lm2 = C.lame_converter_orthotropic(E=E_, nu=nu_, G=G_)
                    if order_ == "converter-first":
                        lo2 = fem.LinearElasticOrthotropic(E=E_, nu=nu_, G=G_)
                    c.trans += 3
                    tl = 1e-9 if clab != "float32-arrays" else 1e-5
                    for nm_, x_, k_ in zip("E nu G".split(), (E_, nu_, G_), keep):
                        if not np.array_equal(np.asarray(x_, dtype=float), k_):
                            c.bad(f"E={E}/{clab}/{order_}/argument-modified/{nm_}", "the caller's container of elastic constants was modified", np.asarray(x_, dtype=float).tolist(), k_.tolist(), 0)
                    c.cmp(f"E={E}/{clab}/{order_}/law", "orthotropic linear elasticity built from shared containers, evaluated after the conversion", lo2.hessian()[0][..., 0, 0], ref_t, tl)
                    c.cmp(f"E={E}/{clab}/{order_}/converter-twice/lmbda", "second conversion of the same containers", np.asarray(lm2[0], float), np.asarray(lm1[0], float), 1e-12)
                    c.cmp(f"E={E}/{clab}/{order_}/converter-twice/mu", "second conversion of the same containers", np.asarray(lm2[1], float), np.asarray(lm1[1], float), 1e-12)
                    c.cmp(f"E={E}/{clab}/{order_}/converter/lmbda", "Lame parameters from another container type", np.asarray(lm1[0], float), np.asarray(lmbda, float), tl)
        # isotropic constants in the orthotropic SVK energy = the isotropic SVK energy (same model offered twice), for every
        # strain exponent, any orthonormal triad and general deformations of the lattice
        rng_ = np.random.default_rng(1200 + seed)
        Gs = np.eye(3)[:, :, None, None] + 0.25 * (rng_.random((3, 3, 6, 1)) - 0.5)
        for k_ in (2, 1, 0, -2, 3, 0.5):
            for tlab, R_ in (("axes", np.eye(3)), ("rotated", fem.math.rotation_matrix(33, axis=2) @ fem.math.rotation_matrix(20, axis=0))):
                iso = fem.Hyperelastic(C.saint_venant_kirchhoff, mu=1.3, lmbda=2.1, k=k_)
                ort = fem.Hyperelastic(C.saint_venant_kirchhoff_orthotropic, mu=[1.3] * 3, lmbda=[2.1] * 6, r1=R_[:, 0], r2=R_[:, 1], r3=R_[:, 2], k=k_)
                c.cmp(f"iso-parameters/k={k_}/{tlab}/stress", "orthotropic SVK with isotropic constants vs isotropic SVK: stress", ort.gradient([Gs, None])[0], iso.gradient([Gs, None])[0], 1e-9)
                c.cmp(f"iso-parameters/k={k_}/{tlab}/tangent", "orthotropic SVK with isotropic constants vs isotropic SVK: elasticity", ort.hessian([Gs, None])[0], iso.hessian([Gs, None])[0], 1e-8)
                c.trans += 2
        # isotropic limit equals LinearElastic
        Eiso, nuiso = 6.0, 0.25
        c.cmp("isotropic-limit", "orthotropic law with isotropic constants vs LinearElastic", fem.LinearElasticOrthotropic(E=[Eiso] * 3, nu=[nuiso] * 3, G=[Eiso / 2 / (1 + nuiso)] * 3).hessian()[0], fem.LinearElastic(E=Eiso, nu=nuiso).hessian()[0], 1e-12)
        return c.result(dict(case=case["key"]))
    if kind == "moduli":
        n = case["name"]
        kw, mu0, K0, tol = MODULI[n]
        if case["backend"] == "tt":
            um = fem.Hyperelastic(getattr(C, n), **kw)
        else:
            if n not in CJ.models.hyperelastic.__all__:
                c.notes.append(f"{n}: no jax twin")
                c.nontrivial += ["n/a", "n/a2"]
                return c.result(dict(case=case["key"], skipped="no jax implementation of this model"))
            um = CJ.Hyperelastic(getattr(CJ.models.hyperelastic, n), **kw)
            tol = max(tol, JAX_SHIFT.get(n, 0) * 0.5)
        # instance history: another instance of the same model with other constants is evaluated first, at the same shapes
        # (nothing may be remembered across instances)
        try:
            kw2 = {k: (list(1.7 * np.asarray(v)) if isinstance(v, (list, tuple)) else 1.7 * v) if k[0] in "mCG" else v for k, v in kw.items()}
            decoy = fem.Hyperelastic(getattr(C, n), **kw2) if case["backend"] == "tt" else CJ.Hyperelastic(getattr(CJ.models.hyperelastic, n), **kw2)
            tangent_at_I(decoy)
            c.trans += 2
            c.outcomes.add("decoy-instance-evaluated-first")
        except Exception as ex:  # noqa
            c.notes.append(f"decoy instance not evaluated: {ex!r}"[:120])
        AI, PI = tangent_at_I(um)
        c.trans += 2
        c.cmp("tangent", f"tangent at F = I vs lambda0 1x1 + mu0 I_sym with the documented mu0 = {mu0:.6g}, K0 = {K0}", AI, iso_tangent(mu0, K0), tol)
        return c.result(dict(case=case["key"], mu0=mu0, K0=K0, measured_mu=float(AI[0, 1, 0, 1]), measured_K=float((AI[0, 0, 0, 0] + 2 * AI[0, 0, 1, 1]) / 3)))
    if kind == "moduli-hand":
        n = case["name"]
        if n == "NeoHooke":
            vs = [(fem.NeoHooke(mu=1.3, bulk=4.1), 1.3, 4.1), (fem.NeoHooke(mu=0.7), 0.7, None)]
        elif n == "NeoHookeCompressible":
            vs = [(fem.NeoHookeCompressible(mu=1.3, lmbda=2.2), 1.3, 2.2 + 2 * 1.3 / 3), (fem.NeoHookeCompressible(mu=0.4, lmbda=5.0), 0.4, 5.0 + 2 * 0.4 / 3)]
        else:
            lam, mu = C.lame_converter(2.0, 0.3)
            lam2, mu2 = C.lame_converter(7.0, 0.1)
            vs = [(fem.LinearElasticLargeStrain(E=2.0, nu=0.3), mu, lam + 2 * mu / 3), (fem.LinearElasticLargeStrain(E=7.0, nu=0.1), mu2, lam2 + 2 * mu2 / 3)]
        for k, (um, mu0, K0) in enumerate(vs):
            AI, PI = tangent_at_I(um)
            c.trans += 2
            c.cmp(f"v{k}/tangent", f"tangent at F = I vs isotropic linear-elastic tangent (mu0={mu0}, K0={K0})", AI, iso_tangent(mu0, K0), 1e-10)
            c.cmp(f"v{k}/stress-free", "stress at F = I", PI, np.zeros((3, 3)), 1e-12)
        return c.result(dict(case=case["key"]))
    raise ValueError(kind)
