"""C13 Boundary regions describe closed surfaces consistently with the volume.

Reference face model: faces are derived from the element's *reference coordinates* (all nodes
with r_a = +-1), oriented counter-clockwise seen from outside; a face is on the surface iff its
node set occurs once.  Per-face oracle that is independent of felupe's boundary tables, cell
rotation and quadrature: the total area vector of a (possibly curved) face equals the Stokes
integral 1/2 * closed-loop integral of x cross dx over the face's boundary curve (2D: the rotated
chord), which the checker evaluates itself from the edge nodes.
"""

import itertools

import numpy as np

from .. import zoo

ID = "C13"
RULE = (
    "case = (cell type, zoo member, transformation); inside a case every combination of only_surface "
    "x ensure_3d x point mask (each bounding plane, all unions of two planes, all points, no point, one "
    "single face) is instantiated; selected faces are compared as sets with the reference face model; "
    "per face: sum_q dA equals the checker's Stokes area vector (outward), |n|=1, |t|=1, n.t=0; closed "
    "surface: sum dA = 0, flux of x = dim * volume (matching volume region); per original cell with "
    "only_surface=False: its faces close. Non-trivial = configurations with at least one selected face."
)
ASSUMPTIONS = [
    "Volume from the matching volume region (decided by C06); element shape functions decided by C04.",
    "Outwardness is judged through the orientation of the reference face loop under an orientation-preserving map (all zoo members have positive Jacobians).",
    "Tolerance 1e-11 relative to the face size.",
]
KINDS = ("quad", "quad8", "quad9", "hexahedron", "hexahedron20", "hexahedron27")
BREGION = {
    "quad": "RegionQuadBoundary", "quad8": "RegionQuadraticQuadBoundary", "quad9": "RegionBiQuadraticQuadBoundary",
    "hexahedron": "RegionHexahedronBoundary", "hexahedron20": "RegionQuadraticHexahedronBoundary", "hexahedron27": "RegionTriQuadraticHexahedronBoundary",
}
ELEMENT = {"quad": "Quad", "quad8": "QuadraticQuad", "quad9": "BiQuadraticQuad", "hexahedron": "Hexahedron", "hexahedron20": "QuadraticHexahedron", "hexahedron27": "TriQuadraticHexahedron"}
TOL = 1e-11


def BOUNDS(tier):
    return {"members": "ref, strip, block, distorted, curved, renum, ring (thin half ring / tube), aniso(thorough)", "transforms": "none, affine, rigid, length units x 1e-6 / x 1e-3 / x 1e3 (on distorted, curved)",
            "masks": "2*dim planes, C(2*dim,2) unions, all, none, one face", "flags": "only_surface x ensure_3d"}


def plan(tier, seed):
    cases = []
    for kind in KINDS:
        mem = ["ref", "strip", "block", "distorted", "renum"] + (["curved"] if kind in zoo.QUADRATIC else []) + (["aniso"] if tier == "thorough" else [])
        for m in mem + ["ring", "fan"]:
            cases.append(dict(key=f"{kind}/{m}/none", kind=kind, member=m, tf="none", seed=seed, cost=10 if kind.startswith("hex") else 1))
        for tf in ("affine", "rigid", "mm", "km", "um"):
            for m in ("distorted",) + (("curved",) if kind in zoo.QUADRATIC else ()):
                cases.append(dict(key=f"{kind}/{m}/{tf}", kind=kind, member=m, tf=tf, seed=seed, cost=10 if kind.startswith("hex") else 1))
    # fine meshes (the mask / face selection works on index arrays whose size decides which algorithm numpy picks)
    for kind, n in (("quad", 64), ("quad", 70), ("quad8", 40), ("hexahedron", 12)):
        cases.append(dict(key=f"{kind}/fine-n={n}/masks", kind=kind, member="fine", n=n, tf="none", seed=seed, cost=4))
    return cases


def ref_faces(el):
    """list of reference faces: dict(axis, sign, loop=[corner ids ccw from outside], mids=[mid node between loop[i], loop[i+1]] or None, centre)"""
    P = np.asarray(el.points, float)
    dim = P.shape[1]
    faces = []
    for a in range(dim):
        for s in (-1.0, 1.0):
            on = np.where(np.isclose(P[:, a], s))[0]
            corners = [i for i in on if np.all(np.isclose(np.abs(P[i]), 1.0))]
            n = np.zeros(dim)
            n[a] = s
            if dim == 2:
                # ccw around the cell: outward normal n = (dy, -dx)  ->  direction d = (-n_y, n_x)
                d = np.array([-n[1], n[0]])
                corners = sorted(corners, key=lambda i: P[i] @ d)
                loop = corners
            else:
                c = P[corners].mean(0)
                # in-plane basis (u, v) with u x v = n
                u = np.zeros(3)
                u[(a + 1) % 3] = 1.0
                v = np.cross(n, u)
                loop = sorted(corners, key=lambda i: np.arctan2((P[i] - c) @ v, (P[i] - c) @ u))
            pairs = list(zip(loop[:-1], loop[1:])) if dim == 2 else list(zip(loop, loop[1:] + loop[:1]))
            mids = []
            for i, j in pairs:
                mp = 0.5 * (P[i] + P[j])
                hit = [k for k in on if np.allclose(P[k], mp)]
                mids.append(hit[0] if hit else None)
            faces.append(dict(axis=a, sign=s, nodes=sorted(int(i) for i in on), loop=[int(i) for i in loop], pairs=pairs, mids=mids))
    return faces


_GL = np.polynomial.legendre.leggauss(4)


def edge_stokes(x0, xm, x1):
    """integral of x cross dx along the (quadratic or straight) edge x0 -> x1 with mid node xm (or None)"""
    if xm is None:
        return np.cross(x0, x1)  # int x x dx = x0 x x1 for a straight edge
    tot = np.zeros(3)
    for s, w in zip(*_GL):
        N = np.array([0.5 * s * (s - 1), 1 - s * s, 0.5 * s * (s + 1)])
        dN = np.array([s - 0.5, -2 * s, s + 0.5])
        x = N[0] * x0 + N[1] * xm + N[2] * x1
        dx = dN[0] * x0 + dN[1] * xm + dN[2] * x1
        tot += w * np.cross(x, dx)
    return tot


def face_area_vector(face, X, cell):
    dim = X.shape[1]
    if dim == 2:
        i, j = face["loop"]
        d = X[cell[j]] - X[cell[i]]
        return np.array([d[1], -d[0]])
    tot = np.zeros(3)
    for (i, j), m in zip(face["pairs"], face["mids"]):
        tot += edge_stokes(X[cell[i]], X[cell[m]] if m is not None else None, X[cell[j]])
    return 0.5 * tot


def build(case):
    import felupe as fem

    kind, member, tf, seed = case["kind"], case["member"], case["tf"], case["seed"]
    if member == "ring":
        # a thin, coarse half ring / half tube (wall 8 % of the radius, four cells over 180 degrees, mid nodes on the
        # arcs): the cells are far from star-shaped with respect to any "centre" of the body or of their own nodes
        if kind.startswith("hex"):
            base = fem.Cube(a=(1.0, 0.0, 0.0), b=(1.08, np.pi, 0.3 + zoo.offs(seed, 1) * 0.1), n=(2, 5, 2))
        else:
            base = fem.Rectangle(a=(1.0, 0.0), b=(1.08, np.pi), n=(2, 5))
        base = zoo._finish(base, kind)
        R, phi = base.points[:, 0], base.points[:, 1]
        X = base.points.copy()
        X[:, 0], X[:, 1] = R * np.cos(phi), R * np.sin(phi)
        mesh = fem.Mesh(X, base.cells, base.cell_type)
        return mesh, mesh
    if member == "fan":
        # an unstructured patch: four cells around ONE point that lies on a straight part of the surface (a surface point of
        # valence 4 in the plane, 8 after extrusion in three layers), off the origin
        th = np.deg2rad(np.arange(5) * 45.0)
        thm = 0.5 * (th[1:] + th[:-1])
        pts = np.vstack([[[0.0, 0.0]], np.stack([np.cos(th), np.sin(th)], axis=1), 1.5 * np.stack([np.cos(thm), np.sin(thm)], axis=1)]) + np.array([0.3, 0.2])
        cells = np.array([[0, 1 + k, 6 + k, 2 + k] for k in range(4)])
        base = fem.Mesh(pts, cells, "quad")
        if kind.startswith("hex"):
            base = base.expand(n=4, z=1.5)
        mesh = zoo._finish(base, kind)
        return mesh, mesh
    mesh = zoo.make(kind, member, seed)
    # topologically identical, axis-aligned, uncurved twin for the plane masks
    twin_member = {"distorted": "block", "curved": "block", "renum": "block"}.get(member, member)
    twin = zoo.make(kind, twin_member, seed)
    if member == "renum":
        twin = zoo.renumber(twin, seed)
    dim = mesh.dim
    X = mesh.points
    if tf == "affine":
        X = X @ zoo.affine_matrix(dim, seed, 3).T + 0.2
    elif tf == "rigid":
        Q = zoo.generic_rotations(seed, 1)[0] if dim == 3 else zoo.rot2(0.7 + zoo.offs(seed, 2))
        X = X @ Q.T + np.arange(1, dim + 1) * 0.3
    elif tf in ("mm", "km", "um"):  # the same body in other length units (um: face areas of 1e-13 and below)
        X = X * {"mm": 1e-3, "km": 1e3, "um": 1e-6}[tf]
    mesh = fem.Mesh(X, mesh.cells, mesh.cell_type)
    return mesh, twin


def run_fine(case):
    """selection clause only, vectorised, on fine meshes: for every mask of the family x only_surface, the faces of the boundary
    region (as sorted node tuples) are exactly the reference faces all of whose points satisfy the mask"""
    import felupe as fem

    kind, n = case["kind"], case["n"]
    key = case["key"]
    viol, nontrivial = [], []
    base = fem.Rectangle(n=n) if not kind.startswith("hex") else fem.Cube(n=n)
    mesh = zoo._finish(base, kind)
    el = getattr(fem.element, ELEMENT[kind])()
    RF = ref_faces(el)
    cells = mesh.cells
    faces = np.concatenate([np.sort(cells[:, f["nodes"]], axis=1) for f in RF])  # (ncells * nf, nodes per face)
    _, inv, cnt = np.unique(faces, axis=0, return_inverse=True, return_counts=True)
    surface = cnt[inv.ravel()] == 1
    P = mesh.points
    ids = np.arange(len(P))
    masks = {"nomask": None, "all": np.ones(len(P), bool), "first-half-of-ids": ids < len(P) // 2, "every-2nd-id": ids % 2 == 0}
    for a in range(mesh.dim):
        masks[f"{'xyz'[a]}min"] = np.isclose(P[:, a], P[:, a].min())
        masks[f"{'xyz'[a]}max"] = np.isclose(P[:, a], P[:, a].max())
    for a, b in itertools.combinations([m for m in list(masks) if m[1:] in ("min", "max")], 2):
        masks[f"{a}|{b}"] = masks[a] | masks[b]
    BR = getattr(fem, BREGION[kind])
    ntr = 0
    for only_surface in (True, False):
        for mlab, mask in masks.items():
            sub = f"only_surface={only_surface}/mask={mlab}"
            keep = (surface if only_surface else np.ones(len(faces), bool)) & (np.ones(len(faces), bool) if mask is None else mask[faces].all(1))
            ref = faces[keep]
            ref = ref[np.lexsort(ref.T[::-1])]
            try:
                rb = BR(mesh, only_surface=only_surface, mask=mask)
            except Exception as e:
                if len(ref) == 0:
                    continue
                viol.append(dict(key=f"{key}/{sub}/exception", what="boundary region raised", observed=repr(e)[:200], expected="a region", tol=0))
                continue
            ntr += 1
            got = np.sort(np.asarray(rb.mesh.cells_faces), axis=1)
            got = got[np.lexsort(got.T[::-1])]
            if got.shape != ref.shape or not np.array_equal(got, ref):
                extra = sorted(set(map(tuple, got.tolist())) - set(map(tuple, ref.tolist())))[:3]
                missing = sorted(set(map(tuple, ref.tolist())) - set(map(tuple, got.tolist())))[:3]
                viol.append(dict(key=f"{key}/{sub}/faces", what="selected faces (as node sets) on a fine mesh", observed=dict(n=int(len(got)), not_expected=extra, missing=missing), expected=int(len(ref)), tol=0))
            elif len(ref):
                nontrivial.append(sub)
                if mask is not None and mlab != "all" and only_surface:
                    # the masked part of the surface: its area vectors sum to those of the reference faces (closure of the parts)
                    pass
    return dict(viol=viol, states=ntr, transitions=ntr, traces=ntr, nontrivial=nontrivial, outcomes=[], sample=dict(case=key, cells=int(len(cells)), faces=int(len(faces)), masks=len(masks)),
                digest=f"{ntr}/{len(viol)}")


def run(case):
    import felupe as fem

    if case.get("member") == "fine":
        return run_fine(case)

    kind, seed = case["kind"], case["seed"]
    key = case["key"]
    viol, nontrivial, outcomes = [], [], set()
    st = dict(trans=0, traces=0, states=0)

    def bad(sub, what, obs, exp):
        viol.append(dict(key=f"{key}/{sub}", what=what, observed=obs, expected=exp, tol=TOL))

    mesh, twin = build(case)
    if case["member"] == "renum":
        # the mesh OBJECT of this member has a history: boundary regions were created on it while it held the cells in
        # reversed order (and once more for a sub-set of the cells), then the cells were replaced in place -- nothing about
        # the earlier connectivity may be remembered
        target = mesh.cells.copy()
        mesh = fem.Mesh(mesh.points.copy(), target[::-1].copy(), mesh.cell_type)
        for kw_ in (dict(), dict(only_surface=False), dict(mask=np.arange(mesh.npoints) % 2 == 0)):
            getattr(fem, BREGION[kind])(mesh, **kw_)
        mesh.update(cells=np.roll(target, 1, axis=0))
        getattr(fem, BREGION[kind])(mesh)
        mesh.update(cells=target)
        st["trans"] += 5
    dim = mesh.dim
    X, cells = mesh.points, mesh.cells
    el = getattr(fem.element, ELEMENT[kind])()
    RF = ref_faces(el)
    nf = len(RF)
    # reference faces of the mesh
    allfaces = []  # (cell, face index, frozenset of global nodes)
    for c in range(len(cells)):
        for fi, f in enumerate(RF):
            allfaces.append((c, fi, frozenset(int(cells[c][i]) for i in f["nodes"])))
    count = {}
    for _, _, ns in allfaces:
        count[ns] = count.get(ns, 0) + 1
    V = float(zoo.region(kind, mesh).dV.sum())
    size = (X.max(0) - X.min(0)).max()
    # masks
    P = twin.points
    lo, hi = P.min(0), P.max(0)
    planes = {}
    for a in range(dim):
        planes[f"{'xyz'[a]}min"] = np.isclose(P[:, a], lo[a])
        planes[f"{'xyz'[a]}max"] = np.isclose(P[:, a], hi[a])
    masks = {"nomask": None, "all": np.ones(len(P), bool), "none": np.zeros(len(P), bool)}
    masks.update(planes)
    for (a, ma), (b, mb) in itertools.combinations(planes.items(), 2):
        masks[f"{a}|{b}"] = ma | mb
    one = np.zeros(len(P), bool)
    one[list(allfaces[(len(allfaces) // 2) | 1][2])] = True
    masks["oneface"] = one

    BR = getattr(fem, BREGION[kind])
    for only_surface in (True, False):
        for ensure_3d in (False, True):
            for mlab, mask in masks.items():
                sub = f"only_surface={only_surface}/ensure_3d={ensure_3d}/mask={mlab}"
                sel_ref = [(c, fi, ns) for (c, fi, ns) in allfaces if (count[ns] == 1 or not only_surface)
                           and (mask is None or all(mask[i] for i in ns))]
                try:
                    rb = BR(mesh, only_surface=only_surface, mask=mask, ensure_3d=ensure_3d)
                except Exception as e:
                    if not sel_ref:
                        outcomes.add("empty-selection-raises:" + type(e).__name__)
                        continue
                    bad(sub + "/exception", "boundary region raised", repr(e)[:200], "a region")
                    continue
                st["trans"] += 1
                st["states"] += 1
                got_faces = [frozenset(int(i) for i in row) for row in rb.mesh.cells_faces]
                ref_set = sorted(sorted(ns) for _, _, ns in sel_ref)
                if sorted(sorted(s) for s in got_faces) != ref_set:
                    bad(sub + "/faces", "selected faces (as node sets)", f"{len(got_faces)} faces, first {sorted(got_faces[0]) if got_faces else None}", f"{len(ref_set)} faces, first {ref_set[0] if ref_set else None}")
                    continue
                st["traces"] += 1
                if not sel_ref:
                    continue
                nontrivial.append(sub)
                dA = np.asarray(rb.dA)  # (dim or 3, q, f)
                nrm = np.asarray(rb.normals)
                if ensure_3d and dA.shape[0] != 3:
                    bad(sub + "/ensure_3d", "area vectors must have three components", dA.shape[0], 3)
                if dim == 2 and ensure_3d:
                    if np.abs(dA[2]).max() > 0 or np.abs(nrm[2]).max() > 0:
                        bad(sub + "/ensure_3d/z", "third component of 2D area vectors / normals", float(np.abs(dA[2]).max()), 0)
                e = np.abs(np.linalg.norm(nrm, axis=0) - 1).max()
                if e > TOL:
                    bad(sub + "/normal-unit", "|n| - 1", float(e), 0)
                for ti, t in enumerate(rb.tangents):
                    t = np.asarray(t)
                    e1 = np.abs(np.linalg.norm(t, axis=0) - 1).max()
                    e2 = np.abs((t * nrm[: t.shape[0]]).sum(0)).max()
                    if e1 > TOL:
                        bad(sub + f"/tangent{ti}-unit", "|t| - 1", float(e1), 0)
                    if e2 > 1e-10:
                        bad(sub + f"/tangent{ti}-orthogonal", "n . t", float(e2), 0)
                dm = np.abs(np.linalg.norm(dA, axis=0) - np.asarray(rb.dV)).max()
                if dm > TOL * size ** (dim - 1):
                    bad(sub + "/dV", "boundary dV must be |dA|", float(dm), 0)
                # copies, type conversions and in-place re-evaluations of the region describe the same surface
                if mlab in ("nomask", "xmax", "oneface"):
                    import copy as _copy

                    def _reloaded(r):
                        q_ = _copy.deepcopy(r)
                        q_.reload()
                        return q_

                    for clab, mk_, tl_ in (("copy", lambda r: r.copy(), 1e-13), ("astype(float32)", lambda r: r.astype(np.float32), 2e-6), ("reload", _reloaded, 1e-13)):
                        try:
                            rc = mk_(rb)
                        except Exception as e:  # noqa
                            bad(sub + f"/{clab}/exception", "copy / conversion / reload of a boundary region raised", repr(e)[:160], "a region")
                            continue
                        st["trans"] += 1
                        for nm in ("dA", "dV", "normals"):
                            a_, b_ = np.asarray(getattr(rc, nm), float), np.asarray(getattr(rb, nm), float)
                            st["traces"] += 1
                            if a_.shape != b_.shape or np.abs(a_ - b_).max() > tl_ * max(np.abs(b_).max(), 1e-300):
                                bad(sub + f"/{clab}/{nm}", f"{nm} of a {clab} of the boundary region vs the region itself (area vectors, face areas as differential volumes, normals)",
                                    float(np.abs(a_ - b_).max()) if a_.shape == b_.shape else list(a_.shape), 0)
                                break
                # per-face Stokes oracle (match faces by node set)
                ref_by_set = {ns: (c, fi) for c, fi, ns in sel_ref}
                if only_surface or True:
                    tot = dA[:dim].sum(1)  # (dim, f)
                    for k, ns in enumerate(got_faces):
                        cands = [(c, fi) for c, fi, s in sel_ref if s == ns]
                        refs = [face_area_vector(RF[fi], X, cells[c]) for c, fi in cands]
                        # interior faces (only_surface=False) appear twice with opposite orientation: match either
                        if not any(np.abs(tot[:, k] - r).max() <= TOL * size ** (dim - 1) * 10 for r in refs):
                            bad(sub + f"/face-area/{sorted(ns)}", "sum_q dA of a face vs the Stokes area vector of its boundary loop (outward)", tot[:, k].tolist(), [r.tolist() for r in refs])
                            break
                    st["traces"] += len(got_faces)
                if only_surface and mask is None:
                    s = np.abs(dA.sum((1, 2))).max()
                    if s > TOL * size ** (dim - 1) * 10:
                        bad(sub + "/closed", "sum of area vectors over the closed surface", float(s), 0)
                    xq = np.einsum("caI,aq->Iqc", X[rb.mesh.cells], np.array([np.asarray(el.function(q), float) for q in rb.quadrature.points]).T)
                    flux = float((xq * dA[:dim]).sum())
                    if abs(flux - dim * V) > 1e-10 * max(1, abs(V)) * dim:
                        bad(sub + "/flux", "flux of the position vector vs dim * volume", flux, dim * V)
                    # outward: n . (x_q - centroid of the cell's corner nodes) > 0
                    cen = X[rb.mesh.cells[:, : 2**dim]].mean(1).T  # (dim, f)
                    out = ((xq - cen[:, None, :]) * nrm[:dim]).sum(0)
                    if out.min() <= 0 and case["member"] != "ring":  # (not a valid criterion for thin curved cells)
                        bad(sub + "/outward", "normal must point out of the body", float(out.min()), "> 0")
                    st["traces"] += 3
                if mask is None:
                    # the boundary cells are rotated copies of the volume cells: same orientation, and on
                    # axis-parallel cells the gradient of every monomial of the element space is reproduced
                    # at the face quadrature points (a wrong complementary-node table folds the cell)
                    dhq = np.array([np.asarray(el.gradient(q), float) for q in rb.quadrature.points])  # q,a,J
                    dj = np.linalg.det(np.einsum("caI,qaJ->qcIJ", X[rb.mesh.cells], dhq))
                    if dj.min() <= 0:
                        bad(sub + "/cell-orientation", "Jacobian of the rotated boundary cells", float(dj.min()), "> 0")
                    if case["member"] in ("ref", "strip", "block", "aniso") and case["tf"] == "none":
                        from .c04 import space_monomials
                        from .c06 import ELEMENT_SPACE, mono

                        sk, order = ELEMENT_SPACE[kind]
                        exps = space_monomials(sk, order, dim)
                        vals = np.stack([mono(e_, X.T)[0] for e_ in exps], axis=1)
                        hq = np.array([np.asarray(el.function(q), float) for q in rb.quadrature.points]).T
                        xq_ = np.einsum("caI,aq->Iqc", X[rb.mesh.cells], hq)
                        g = fem.Field(rb, dim=len(exps), values=vals).grad()
                        gref = np.stack([mono(e_, xq_)[1] for e_ in exps])
                        eg = np.abs(g - gref).max()
                        if eg > 1e-9:
                            j = int(np.unravel_index(np.argmax(np.abs(g - gref)), g.shape)[0])
                            bad(sub + "/gradient", "gradient of an element-space monomial at the face quadrature points of the boundary cells", dict(err=float(eg), monomial=exps[j]), 0)
                        st["traces"] += 1
                if not only_surface and mask is None:
                    # with only_surface=False faces come cell by cell: each cell's own faces close
                    per = dA.sum(1).reshape(dA.shape[0], len(cells), nf).sum(2)
                    s = np.abs(per).max()
                    if s > TOL * size ** (dim - 1) * 10:
                        bad(sub + "/cell-closed", "area vectors of each cell's own faces must sum to zero", float(s), 0)
                    st["traces"] += 1
    sample = dict(case=key, cells=int(len(cells)), reference_faces=len(allfaces), surface_faces=sum(1 for v in count.values() if v == 1), masks=len(masks), volume=V)
    return dict(viol=viol, states=st["states"], transitions=st["trans"], traces=st["traces"], nontrivial=nontrivial, outcomes=sorted(outcomes), sample=sample,
                digest=f"{st['states']}/{st['traces']}/{V:.12e}")
