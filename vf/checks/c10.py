"""C10 Reduced, condensed and fast-path formulations equal their full counterparts.

Differential exploration on lattices of meshes / states / materials:
 (a) plane strain body  ==  unit-thickness 3D slab with u_z = 0 (f2D = T^T f3D, K2D = T^T K3D T, exact),
 (b) axisymmetric body: nodal forces = derivative of the checker's revolved energy, and converge
     (second order in the segment angle) to the ring resultants of the revolved 3D model,
 (c) condensed nearly-incompressible body == explicit (u, p, J) formulation with cell-wise constant
     p, J: every Newton iterate, the iteration count and the converged u, p, J,
 (d) Region(uniform=True) == general region (vectors and matrices).
"""

import itertools
import warnings

import numpy as np

from .. import zoo
from .c01 import material, values_of

ID = "C10"
RULE = (
    "case = (comparison kind, element family, mesh member, material, state amplitude / bulk modulus / load level / "
    "substeps / grid size); each case assembles or solves the reduced formulation and its full counterpart on the same "
    "data and compares vectors, matrices, Newton iterates or convergence orders."
)
ASSUMPTIONS = [
    "(a), (d): exact algebraic identities, tolerance 1e-11 relative; (c): both formulations solved to tol 1e-11, iterates compared at 1e-8 relative.",
    "(b): the revolved 3D model with n segments is a polygonal approximation: its ring resultants converge with order 2; the check demands an error ratio in [3, 5] per doubling and an error below 3e-3 at 64 segments; the energy-derivative comparison uses h = 1e-6 central differences (threshold 1e-6).",
    "Materials decided by C03, region arrays by C06.",
]


def BOUNDS(tier):
    return {"plane_strain_families": ["quad/hexahedron", "quad8/hexahedron20", "quad9/hexahedron27"], "revolve_segments": [16, 32, 64], "bulk": [5.0, 50.0, 5000.0], "substeps": [1, 2, 3], "grid_sizes": "1..4 per axis", "restart_histories": "bodies re-created on the deformed fields after every substep (2, 3 substeps)"}


def plan(tier, seed):
    cases = []
    for fam in ("quad", "quad8", "quad9"):
        for member in ("ref", "block", "distorted"):
            for mat in ("NeoHooke", "NeoHookeCompressible", "tt-mooney", "OgdenRoxburgh-softened"):
                for amp in (0.0, 0.12):
                    cases.append(dict(key=f"planestrain/{fam}/{member}/{mat}/amp={amp}", kind="ps", fam=fam, member=member, mat=mat, amp=amp, seed=seed, cost=6 if fam != "quad" else 2))
    for fam in ("quad", "quad8", "triangle-mini"):
        for mat in ("NeoHooke", "NeoHookeCompressible", "tt-mooney"):
            for amp in (0.0, 0.08):
                cases.append(dict(key=f"axi-energy/{fam}/{mat}/amp={amp}", kind="axi-energy", fam=fam, mat=mat, amp=amp, seed=seed, cost=3))
    for mat in ("NeoHooke", "NeoHookeCompressible"):
        for amp in (0.0, 0.05):
            cases.append(dict(key=f"axi-revolve/{mat}/amp={amp}", kind="axi-revolve", mat=mat, amp=amp, seed=seed, cost=20))
    for fk in ("3d", "ps", "axi"):
        for bulk in (5.0, 50.0, 5000.0):
            for nsub in (1, 2, 3):
                cases.append(dict(key=f"condensed/{fk}/bulk={bulk}/substeps={nsub}", kind="ni", fk=fk, bulk=bulk, nsub=nsub, seed=seed, cost=10))
            # restart histories: both bodies are created anew on the deformed fields after every substep
            for nsub in (2, 3):
                cases.append(dict(key=f"condensed-restart/{fk}/bulk={bulk}/substeps={nsub}", kind="ni", fk=fk, bulk=bulk, nsub=nsub, restart=True, seed=seed, cost=10))
    # a hand-written Newton loop that updates the field IN PLACE (field += dx), three load levels
    for fk in ("3d", "ps", "axi"):
        cases.append(dict(key=f"condensed-inplace/{fk}/bulk=50.0", kind="ni-inplace", fk=fk, bulk=50.0, seed=seed, cost=10))
        cases.append(dict(key=f"condensed-bulk-history/{fk}", kind="ni-bulk", fk=fk, seed=seed, cost=10))
        cases.append(dict(key=f"condensed-tangent/{fk}", kind="ni-tangent", fk=fk, seed=seed, cost=5))
        cases.append(dict(key=f"condensed-history-material/{fk}", kind="ni-statevars", fk=fk, seed=seed, cost=8))
    # (c) on the serendipity families, whose mixed containers pair the quadratic displacements with cell-wise constant duals
    for fk in ("ps", "axi", "3d"):
        cases.append(dict(key=f"condensed-quadratic/{fk}", kind="ni-quadratic", fk=fk, seed=seed, cost=12 if fk == "3d" else 5))
    # the explicit formulation built AFTER an unrelated dual field was created with other options (disconnect=False) on another
    # region of the same class, on a mesh whose neighbouring cells start at a common corner: defaults are defaults in every order
    for fk in ("ps", "3d"):
        cases.append(dict(key=f"condensed-after-other-dual/{fk}", kind="ni-dual-history", fk=fk, seed=seed, cost=5))
    # a condensed body CREATED on a field that already carries a (volume-changing) deformation: its state is that of the field
    for fk in ("3d", "ps", "axi"):
        cases.append(dict(key=f"condensed-created-deformed/{fk}", kind="ni-created", fk=fk, seed=seed, cost=3))
    for fam in ("quad", "hexahedron", "quad9"):
        for n in (2, 3, 4, 5) if fam != "hexahedron" else (2, 3, 4):
            cases.append(dict(key=f"uniform/{fam}/n={n}", kind="uniform", fam=fam, n=n, seed=seed, cost=4))
        for tf in ("rotated", "sheared", "affine"):
            cases.append(dict(key=f"uniform/{fam}/n=3/{tf}", kind="uniform", fam=fam, n=3, tf=tf, seed=seed, cost=4))
    # regions that carry second derivatives (hess=True) on uniform grids of quadratic cells: straight cells and grids whose
    # cells are all the SAME curved cell (every horizontal edge bent the same way / the same off-centre mid-side node)
    for shape in ("straight", "rotated", "wavy", "offcentre"):
        cases.append(dict(key=f"uniform-hessian/quad8/{shape}", kind="uniform-hess", shape=shape, seed=seed, cost=3))
    return cases


class Ctx:
    def __init__(self, key):
        self.key = key
        self.viol, self.nontrivial, self.outcomes, self.notes = [], [], set(), []
        self.trans = self.traces = self.states = 0

    def bad(self, sub, what, obs, exp, tol):
        self.viol.append(dict(key=f"{self.key}/{sub}", what=what, observed=obs, expected=exp, tol=tol))

    def cmp(self, sub, what, a, b, tol):
        a, b = np.asarray(a, float), np.asarray(b, float)
        self.traces += 1
        self.states += 1
        if a.shape != b.shape:
            self.bad(sub, what + " (shape)", list(a.shape), list(b.shape), tol)
            return
        scale = max(np.abs(a).max(), np.abs(b).max(), 1e-12)
        err = np.abs(a - b).max() / scale
        if scale > 1e-12:
            self.nontrivial.append(sub)
        if not err <= tol:
            self.bad(sub, what, dict(rel_err=float(err), scale=float(scale)), "equal", tol)

    def result(self, sample):
        return dict(viol=self.viol, states=self.states, transitions=self.trans, traces=self.traces, nontrivial=self.nontrivial, outcomes=sorted(self.outcomes),
                    sample=sample, notes=self.notes, digest=f"{self.states}/{self.traces}/{len(self.viol)}")


def mesh_pair(fam, member, seed):
    """2D mesh and its one-layer 3D slab, with the node map (3D node -> 2D node)"""
    import felupe as fem

    n = 2 if member == "ref" else 3
    m2 = fem.Rectangle(n=n)
    m3 = fem.Cube(n=(n, n, 2))
    if member == "distorted":
        p2 = m2.points.copy()
        p3 = m3.points.copy()
        interior = np.all((p2 > 1e-9) & (p2 < 1 - 1e-9), axis=1)
        for j, i in enumerate(np.where(interior)[0]):
            d = 0.15 * zoo.offvec(seed, 3 + j, 2)
            sel = np.all(np.isclose(p3[:, :2], p2[i]), axis=1)
            p3[sel, :2] += d
            p2[i] += d
        m2 = fem.Mesh(p2, m2.cells, m2.cell_type)
        m3 = fem.Mesh(p3, m3.cells, m3.cell_type)
    if fam == "quad8":
        m2, m3 = m2.add_midpoints_edges(), m3.add_midpoints_edges()
    elif fam == "quad9":
        m2 = m2.add_midpoints_edges().add_midpoints_faces()
        m3 = m3.add_midpoints_edges().add_midpoints_faces().add_midpoints_volumes()
    nodemap = np.zeros(len(m3.points), dtype=int)
    for k, p in enumerate(m3.points):
        hit = np.where(np.all(np.isclose(m2.points, p[:2]), axis=1))[0]
        assert len(hit) == 1
        nodemap[k] = hit[0]
    return m2, m3, nodemap


def run(case):
    import felupe as fem

    warnings.simplefilter("ignore")
    c = Ctx(case["key"])
    kind, seed = case["kind"], case["seed"]
    if kind == "ps":
        fam = case["fam"]
        m2, m3, nodemap = mesh_pair(fam, case["member"], seed)
        R2 = {"quad": fem.RegionQuad, "quad8": fem.RegionQuadraticQuad, "quad9": fem.RegionBiQuadraticQuad}[fam](m2)
        R3 = {"quad": fem.RegionHexahedron, "quad8": fem.RegionQuadraticHexahedron, "quad9": fem.RegionTriQuadraticHexahedron}[fam](m3)
        u2 = case["amp"] * 0.5 * zoo.offarr(seed, 1100, m2.points.shape)
        f2 = fem.FieldContainer([fem.FieldPlaneStrain(R2, dim=2, values=u2.copy())])
        u3 = np.zeros(m3.points.shape)
        u3[:, :2] = u2[nodemap]
        f3 = fem.FieldContainer([fem.Field(R3, dim=3, values=u3)])
        um2, sv2 = material(case["mat"], R2)
        um3, sv3 = material(case["mat"], R3)
        b2 = fem.SolidBody(um2, f2, statevars=sv2)
        b3 = fem.SolidBody(um3, f3, statevars=sv3)
        r2 = b2.assemble.vector(f2).toarray()[:, 0]
        r3 = b3.assemble.vector(f3).toarray()[:, 0]
        K2 = b2.assemble.matrix().toarray()
        K3 = b3.assemble.matrix().toarray()
        c.trans += 4
        T = np.zeros((r3.size, r2.size))
        for k3, k2 in enumerate(nodemap):
            for i in range(2):
                T[3 * k3 + i, 2 * k2 + i] = 1.0
        c.cmp("vector", "plane-strain nodal forces vs in-plane resultants of the unit-thickness slab", r2, T.T @ r3, 1e-11)
        c.cmp("matrix", "plane-strain stiffness vs T^T K3D T", K2, T.T @ K3 @ T, 1e-11)
        return c.result(dict(case=case["key"], dofs2d=int(r2.size), dofs3d=int(r3.size)))
    if kind == "axi-energy":
        fam = case["fam"]
        mesh = zoo.make(fam, "distorted", seed)
        mesh = fem.Mesh(mesh.points + np.array([0.0, 0.6]), mesh.cells, mesh.cell_type)
        region = zoo.region(fam, mesh)
        u0 = case["amp"] * 0.5 * zoo.offarr(seed, 1110, mesh.points.shape)
        field = fem.FieldContainer([fem.FieldAxisymmetric(region, dim=2, values=u0.copy())])
        um, sv = material(case["mat"], region)
        body = fem.SolidBody(um, field, statevars=sv)
        r = body.assemble.vector(field).toarray()[:, 0]
        c.trans += 1
        # the same body in other length units: nodal forces scale with s^2 (stress x revolved area / radius), the stiffness with s
        K1 = body.assemble.matrix(field).toarray()
        for sc in (1e-3, 1e-5, 1e3):
            ms_ = fem.Mesh(mesh.points * sc, mesh.cells, mesh.cell_type)
            fs_ = fem.FieldContainer([fem.FieldAxisymmetric(zoo.region(fam, ms_), dim=2, values=u0 * sc)])
            bs_ = fem.SolidBody(um, fs_, statevars=sv)
            rs_ = bs_.assemble.vector(fs_).toarray()[:, 0]
            Ks_ = bs_.assemble.matrix(fs_).toarray()
            c.trans += 2
            c.cmp(f"length-units/s={sc}/vector", "axisymmetric nodal forces of the body scaled by s = s^2 x forces", rs_ / sc**2, r, 1e-9)
            c.cmp(f"length-units/s={sc}/matrix", "axisymmetric stiffness of the body scaled by s = s x stiffness", Ks_ / sc, K1, 1e-9)
        # the checker's own revolved energy: sum_q W(F_q) 2 pi R_q dA_q, F = [[grad u, 0], [0, 1 + u_r / R]]
        h = np.asarray(region.h)[:, :, 0]  # a, q
        dhdX = np.asarray(region.dhdX)  # a, J, q, c
        X = mesh.points
        cells = mesh.cells
        if fam == "triangle-mini":
            # (the bubble point carries no geometry: the radius is interpolated from the three corner points)
            hl = np.array([np.asarray(fem.element.Triangle().function(q_), float) for q_ in region.quadrature.points]).T  # a, q
            Rq = np.einsum("ca,aq->qc", X[cells][:, :3, 1], hl)
        else:
            Rq = np.einsum("ca,aq->qc", X[cells][:, :, 1], h)
        dA = np.asarray(region.dV)
        # the radius the field itself reports at the quadrature points, for every way the field may be created (default
        # value type, explicit double / single precision)
        for dlab, dkw, tl in (("default", {}, 1e-13), ("float64", dict(dtype=np.float64), 1e-13), ("float32", dict(dtype=np.float32), 1e-6)):
            fa_ = fem.FieldAxisymmetric(region, dim=2, **dkw)
            c.trans += 1
            c.cmp(f"radius/dtype={dlab}", "radius of the axisymmetric field at the quadrature points = interpolated radial coordinate of the cell's geometry points", np.asarray(fa_.radius, dtype=float).reshape(Rq.shape), Rq, tl)

        def energy(uvals):
            uc = uvals[cells]  # c, a, i
            g = np.einsum("cai,aJqc->iJqc", uc, dhdX)
            ur = np.einsum("ca,aq->qc", uc[:, :, 1], h)
            F = np.zeros((3, 3) + g.shape[2:])
            F[:2, :2] = g
            F[2, 2] = ur / Rq
            F += np.eye(3)[:, :, None, None]
            W = um.function([F, sv])[0] if hasattr(um, "function") else None
            return float((W * 2 * np.pi * Rq * dA).sum())

        if hasattr(um, "function"):
            hh = 1e-6
            fd = np.zeros(r.size)
            for k in range(r.size):
                e = np.zeros(r.size)
                e[k] = hh
                fd[k] = (energy(u0 + e.reshape(u0.shape)) - energy(u0 - e.reshape(u0.shape))) / (2 * hh)
                c.trans += 2
            c.cmp("vector-vs-energy", "axisymmetric nodal forces vs derivative of the revolved strain energy (2 pi R weighted)", 1 + r, 1 + fd, 1e-6)
        else:
            # no energy exposed: compare with the checker's own assembly of P : dF with the hoop term and 2 pi R
            g = field.extract()[0]
            P = um.gradient([g, sv])[0]
            ref = np.zeros(r.size)
            w = 2 * np.pi * Rq * dA
            for cc in range(len(cells)):
                for a in range(cells.shape[1]):
                    for i in range(2):
                        val = (P[i, 0, :, cc] * dhdX[a, 0, :, cc] + P[i, 1, :, cc] * dhdX[a, 1, :, cc]) * w[:, cc]
                        if i == 1:
                            val = val + P[2, 2, :, cc] * h[a] / Rq[:, cc] * w[:, cc]
                        ref[2 * cells[cc, a] + i] += val.sum()
            c.cmp("vector-vs-definition", "axisymmetric nodal forces vs explicit sum of P : dF (hoop term, 2 pi R)", r, ref, 1e-11)
        return c.result(dict(case=case["key"], dofs=int(r.size)))
    if kind == "axi-revolve":
        m2 = fem.Rectangle(a=(0.0, 0.5), b=(1.0, 1.5), n=(3, 3))
        p = m2.points.copy()
        p[4] += 0.1 * zoo.offvec(seed, 7, 2)
        m2 = fem.Mesh(p, m2.cells, m2.cell_type)
        region = fem.RegionQuad(m2)
        u2 = case["amp"] * zoo.offarr(seed, 1120, m2.points.shape) * 2
        fa = fem.FieldContainer([fem.FieldAxisymmetric(region, dim=2, values=u2.copy())])
        um, _ = material(case["mat"], region)
        r2 = fem.SolidBody(um, fa).assemble.vector(fa).toarray()[:, 0].reshape(-1, 2)
        errs = []
        for nseg in (16, 32, 64):
            m3 = m2.revolve(n=nseg + 1, phi=360)
            R3 = fem.RegionHexahedron(m3)
            N = len(m2.points)
            phis = np.deg2rad(np.linspace(0, 360, nseg + 1)[:-1])
            u3 = np.zeros(m3.points.shape)
            for a, ph in enumerate(phis):
                u3[a * N:(a + 1) * N, 0] = u2[:, 0]
                u3[a * N:(a + 1) * N, 1] = u2[:, 1] * np.cos(ph)
                u3[a * N:(a + 1) * N, 2] = u2[:, 1] * np.sin(ph)
            # the revolved mesh must be the rotated 2D mesh
            for a, ph in enumerate(phis):
                ref = np.column_stack([m2.points[:, 0], m2.points[:, 1] * np.cos(ph), m2.points[:, 1] * np.sin(ph)])
                if np.abs(m3.points[a * N:(a + 1) * N] - ref).max() > 1e-12:
                    c.bad(f"n={nseg}/mesh", "revolved mesh layer is not the rotated 2D mesh", float(np.abs(m3.points[a * N:(a + 1) * N] - ref).max()), 0, 1e-12)
                    break
            f3 = fem.FieldContainer([fem.Field(R3, dim=3, values=u3)])
            um3, _ = material(case["mat"], R3)
            r3 = fem.SolidBody(um3, f3).assemble.vector(f3).toarray()[:, 0].reshape(-1, 3)
            c.trans += 1
            ring = np.zeros((N, 2))
            for a, ph in enumerate(phis):
                blk = r3[a * N:(a + 1) * N]
                ring[:, 0] += blk[:, 0]
                ring[:, 1] += blk[:, 1] * np.cos(ph) + blk[:, 2] * np.sin(ph)
            errs.append(np.abs(ring - r2).max() / max(np.abs(r2).max(), 1e-12) if np.abs(r2).max() > 1e-9 else np.abs(ring - r2).max())
        c.outcomes.add("errors=" + ",".join("%.2e" % e for e in errs))
        c.traces += 3
        c.states += 3
        c.nontrivial += ["n=16", "n=32", "n=64"]
        if np.abs(r2).max() > 1e-9:
            ratios = [errs[0] / errs[1], errs[1] / errs[2]]
            if not all(3.0 <= q <= 5.0 for q in ratios):
                c.bad("order", "ring resultants of the revolved 3D model must converge with order 2 to the axisymmetric nodal forces", dict(errors=errs, ratios=ratios), "ratios in [3, 5]", 0)
            if not errs[2] < 3e-3:
                c.bad("level", "error of the 64-segment model", errs[2], "< 3e-3", 3e-3)
        else:
            if not max(errs) < 1e-10:
                c.bad("undeformed", "undeformed body: all forces vanish in both models", errs, 0, 1e-10)
        return c.result(dict(case=case["key"], errors=[float(e) for e in errs]))
    if kind == "ni":
        fk = case["fk"]
        if fk == "3d":
            mesh = fem.Cube(n=3)
            region = fem.RegionHexahedron(mesh)
            F = fem.Field
        else:
            mesh = fem.Rectangle(a=(0.0, 0.4 if fk == "axi" else 0.0), b=(1.0, 1.4 if fk == "axi" else 1.0), n=3)
            region = fem.RegionQuad(mesh)
            F = fem.FieldAxisymmetric if fk == "axi" else fem.FieldPlaneStrain
        pts = mesh.points.copy()
        interior = np.all((pts > pts.min(0) + 1e-9) & (pts < pts.max(0) - 1e-9), axis=1)
        pts[interior] += 0.08 * zoo.offarr(seed, 1130, pts[interior].shape)
        mesh = fem.Mesh(pts, mesh.cells, mesh.cell_type)
        region = type(region)(mesh)
        fc = fem.FieldContainer([F(region, dim=mesh.dim)])
        kw = dict(axisymmetric=True) if fk == "axi" else (dict(planestrain=True) if fk == "ps" else {})
        fm = fem.FieldsMixed(region, n=3, **kw)
        um = fem.NeoHooke(mu=1.0)
        bc = fem.SolidBodyNearlyIncompressible(um, fc, bulk=case["bulk"])
        bm = fem.SolidBody(fem.NearlyIncompressible(fem.NeoHooke(mu=1.0), bulk=case["bulk"]), fm)
        # (t: the other explicit formulation of the same functional -- ThreeFieldVariation of the Neo-Hookean energy incl. its
        #  volumetric part, evaluated at the modified deformation gradient)
        ft = fem.FieldsMixed(region, n=3, **kw)
        bt = fem.SolidBody(fem.ThreeFieldVariation(fem.NeoHooke(mu=1.0, bulk=case["bulk"])), ft)
        iters = {"c": [], "m": [], "t": []}
        for tag, field, body in (("c", fc, bc), ("m", fm, bm), ("t", ft, bt)):
            bounds, lc = fem.dof.uniaxial(field, clamped=True, move=0.0, axis=0, sym=(False, True, False)[: mesh.dim] + (False,) * (3 - mesh.dim))
            moves = np.linspace(0, -0.25, case["nsub"] + 1)[1:]
            x = field
            for imv, mv in enumerate(moves):
                if case.get("restart") and imv > 0:
                    if tag == "c":
                        body = fem.SolidBodyNearlyIncompressible(um, field, bulk=case["bulk"])
                    elif tag == "m":
                        body = fem.SolidBody(fem.NearlyIncompressible(fem.NeoHooke(mu=1.0), bulk=case["bulk"]), field)
                    else:
                        body = fem.SolidBody(fem.ThreeFieldVariation(fem.NeoHooke(mu=1.0, bulk=case["bulk"])), field)
                    x = field
                bounds["move"].update(mv)
                ext0 = fem.dof.apply(field, bounds, lc["dof0"])

                def check(dx, x, f, xtol, ftol, dof1=None, dof0=None, items=None, eps=1e-3, tag=tag, body=body):
                    out = fem.tools._newton.check(dx, x, f, xtol, ftol, dof1=dof1, dof0=dof0, items=items, eps=eps)
                    if tag == "c":
                        iters[tag].append((x[0].values.copy(), body.results.state.p.copy(), body.results.state.J.copy()))
                    else:
                        iters[tag].append((x[0].values.copy(), x[1].values.ravel().copy(), x[2].values.ravel().copy()))
                    return out

                res = fem.newtonrhapson(items=[body], x0=x, dof0=lc["dof0"], dof1=lc["dof1"], ext0=ext0, tol=1e-11, check=check, verbose=False)
                c.trans += res.iterations
                x = res.x
                iters[tag].append(("converged", res.iterations))
                for f_, v_ in zip(field.fields, res.x.fields):
                    f_.values = v_.values
        def split(lst):
            out, cur = [], []
            for it in lst:
                if isinstance(it[0], str):
                    out.append(cur)
                    cur = []
                else:
                    cur.append(it)
            return out

        st_ = split(iters["t"])
        for s_, (la, lt) in enumerate(zip(split(iters["c"]), st_)):
            c.cmp(f"substep{s_}/converged/u/three-field-variation", "converged displacements: condensed body vs ThreeFieldVariation", la[-1][0], lt[-1][0], 1e-7)
            c.cmp(f"substep{s_}/converged/J/three-field-variation", "converged volume ratios: condensed body vs ThreeFieldVariation", la[-1][2], lt[-1][2], 1e-7)
            c.cmp(f"substep{s_}/converged/p/three-field-variation", "converged pressures: condensed body vs ThreeFieldVariation", 1 + la[-1][1] / max(case["bulk"], 1), 1 + lt[-1][1] / max(case["bulk"], 1), 1e-7)
        sc_, sm_ = split(iters["c"]), split(iters["m"])
        cnt_c, cnt_m = [len(x) for x in sc_], [len(x) for x in sm_]
        c.outcomes.add(f"iterations={cnt_c}/{cnt_m}")
        # the convergence measure of the explicit formulation also sees the p- and J-residuals: counts may differ by one
        if any(abs(a - b) > 1 for a, b in zip(cnt_c, cnt_m)) and not case.get("restart"):
            c.bad("iteration-count", "Newton iteration counts per substep, condensed vs explicit (may differ by one)", cnt_c, cnt_m, 1)
        for s_, (la, lb) in enumerate(zip(sc_, sm_)):
            # a re-created condensed body starts from p = 0, J = 1 while the explicit fields keep their p and J: after a
            # restart only the converged states are comparable
            for k, (a, b) in enumerate(zip(la, lb) if not (case.get("restart") and s_ > 0) else ()):
                c.cmp(f"substep{s_}/iterate{k}/u", "displacement iterate", a[0], b[0], 1e-8)
                c.cmp(f"substep{s_}/iterate{k}/J", "cell volume ratios of the iterate", a[2], b[2], 1e-7)
                c.cmp(f"substep{s_}/iterate{k}/p", "cell pressures of the iterate", 1 + a[1] / max(case["bulk"], 1), 1 + b[1] / max(case["bulk"], 1), 1e-7)
            c.cmp(f"substep{s_}/converged/u", "converged displacements", la[-1][0], lb[-1][0], 1e-8)
            c.cmp(f"substep{s_}/converged/J", "converged volume ratios", la[-1][2], lb[-1][2], 1e-7)
            c.cmp(f"substep{s_}/converged/p", "converged pressures", 1 + la[-1][1] / max(case["bulk"], 1), 1 + lb[-1][1] / max(case["bulk"], 1), 1e-7)
        return c.result(dict(case=case["key"], iterations=cnt_c, cells=int(mesh.ncells)))
    if kind == "ni-dual-history":
        fk = case["fk"]
        if fk == "3d":
            mesh = fem.Cube(n=(4, 3, 2))
            cells = mesh.cells.copy()
            cells[1::2] = cells[1::2][:, [1, 2, 3, 0, 5, 6, 7, 4]]  # (every second cell starts at its second corner: same cell)
            mesh = fem.Mesh(mesh.points, cells, mesh.cell_type)
            R_, F_ = fem.RegionHexahedron, fem.Field
            other = fem.RegionHexahedron(fem.Cube(n=2))
        else:
            mesh = fem.Rectangle(n=(5, 4))
            cells = mesh.cells.copy()
            cells[1::2] = np.roll(cells[1::2], -1, axis=1)
            mesh = fem.Mesh(mesh.points, cells, mesh.cell_type)
            R_, F_ = fem.RegionQuad, fem.FieldPlaneStrain
            other = fem.RegionQuad(fem.Rectangle(n=2))
        region = R_(mesh)
        kw = dict(planestrain=True) if fk == "ps" else {}
        bulk = 50.0
        results = {}
        for rnd in ("first", "after-other-dual"):
            if rnd == "after-other-dual":
                fem.FieldDual(other, disconnect=False)
                fem.FieldsMixed(other, n=3, disconnect=False, **kw)
                c.trans += 2
            fm = fem.FieldsMixed(region, n=3, **kw)
            for i_ in (1, 2):
                dm = fm[i_].region.mesh
                if fm[i_].values.shape[0] != mesh.ncells or not np.array_equal(np.asarray(dm.cells).ravel(), np.arange(mesh.ncells)):
                    c.bad(f"{rnd}/dual-mesh/field{i_}", "dual mesh of a default mixed container: one own point per cell", dict(points=int(fm[i_].values.shape[0]), first_cells=np.asarray(dm.cells).ravel()[:4].tolist()), dict(points=int(mesh.ncells), first_cells=[0, 1, 2, 3]), 0)
            fc = fem.FieldContainer([F_(region, dim=mesh.dim)])
            bc = fem.SolidBodyNearlyIncompressible(fem.NeoHooke(mu=1.0), fc, bulk=bulk)
            bm = fem.SolidBody(fem.NearlyIncompressible(fem.NeoHooke(mu=1.0), bulk=bulk), fm)
            out = {}
            for tag, field, body in (("c", fc, bc), ("m", fm, bm)):
                bounds, lc = fem.dof.uniaxial(field, clamped=True, move=-0.15, axis=0, sym=False)
                res = fem.newtonrhapson(items=[body], x0=field, dof0=lc["dof0"], dof1=lc["dof1"], ext0=lc["ext0"], tol=1e-11, verbose=False)
                c.trans += res.iterations
                out[tag] = res.x[0].values.copy()
            c.cmp(f"{rnd}/converged/u", "converged displacements: condensed body vs explicit (u, p, J) formulation with default dual fields", out["c"], out["m"], 1e-8)
        c.outcomes.add("dual-defaults-after-other-options")
        return c.result(dict(case=case["key"], cells=int(mesh.ncells)))
    if kind == "ni-created":
        fk = case["fk"]
        if fk == "3d":
            mesh = fem.Cube(n=3)
            region = fem.RegionHexahedron(mesh)
            F_ = fem.Field
        else:
            mesh = fem.Rectangle(a=(0.0, 0.4 if fk == "axi" else 0.0), b=(1.0, 1.4 if fk == "axi" else 1.0), n=3)
            region = fem.RegionQuad(mesh)
            F_ = fem.FieldAxisymmetric if fk == "axi" else fem.FieldPlaneStrain
        bulk = 25.0
        u0 = 0.06 * zoo.offarr(seed, 1150, mesh.points.shape) + 0.12 * (mesh.points - mesh.points.mean(0))  # (volume change ~ 25 .. 40 %)
        for how in ("state=None", "state=given"):
            fc = fem.FieldContainer([F_(region, dim=mesh.dim, values=u0.copy())])
            kw_ = {} if how == "state=None" else dict(state=fem.StateNearlyIncompressible(fc))
            body = fem.SolidBodyNearlyIncompressible(fem.NeoHooke(mu=1.0), fc, bulk=bulk, **kw_)
            c.trans += 1
            Fq = fc.extract()[0]
            dV_ = np.asarray(region.dV, float)
            if fk == "axi":
                dV_ = 2 * np.pi * np.asarray(fc[0].radius, float).reshape(dV_.shape) * dV_
            Jc = (np.linalg.det(np.moveaxis(Fq, (0, 1), (-2, -1))) * dV_).sum(0) / dV_.sum(0)
            c.cmp(f"{how}/state.J", "volume ratio of the cells stored by a condensed body created on a deformed field = v / V of that field", np.asarray(body.results.state.J, float).ravel(), Jc, 1e-12)
            c.cmp(f"{how}/state.p", "pressure stored by a condensed body created on a deformed field = bulk (v / V - 1)", 1 + np.asarray(body.results.state.p, float).ravel() / bulk, 1 + (Jc - 1), 1e-12)
            # asked before it has seen a field argument: same matrix / vector / stress as a body that was handed the field
            K0 = body.assemble.matrix().toarray()
            r0 = body.assemble.vector().toarray()[:, 0]
            ref = fem.SolidBodyNearlyIncompressible(fem.NeoHooke(mu=1.0), fem.FieldContainer([F_(region, dim=mesh.dim, values=u0.copy())]), bulk=bulk)
            f2 = fem.FieldContainer([F_(region, dim=mesh.dim, values=u0.copy())])
            r1 = ref.assemble.vector(f2).toarray()[:, 0]
            K1 = ref.assemble.matrix(f2).toarray()
            c.trans += 4
            c.cmp(f"{how}/vector-before-field", "vector of a condensed body created on a deformed field, asked without a field argument", 1 + r0, 1 + r1, 1e-10)
            c.cmp(f"{how}/matrix-before-field", "matrix of a condensed body created on a deformed field, asked without a field argument", K0, K1, 1e-10)
        c.outcomes.add("created-on-deformed-field")
        return c.result(dict(case=case["key"], cells=int(mesh.ncells)))
    if kind == "ni-quadratic":
        fk = case["fk"]
        if fk == "3d":
            mesh = fem.Cube(n=(3, 2, 2)).add_midpoints_edges()
            region = fem.RegionQuadraticHexahedron(mesh)
            F = fem.Field
        else:
            mesh = fem.Rectangle(a=(0.0, 0.4 if fk == "axi" else 0.0), b=(1.0, 1.4 if fk == "axi" else 1.0), n=(4, 3)).add_midpoints_edges()
            region = fem.RegionQuadraticQuad(mesh)
            F = fem.FieldAxisymmetric if fk == "axi" else fem.FieldPlaneStrain
        kw = dict(axisymmetric=True) if fk == "axi" else (dict(planestrain=True) if fk == "ps" else {})
        bulk = 50.0
        fc = fem.FieldContainer([F(region, dim=mesh.dim)])
        fm = fem.FieldsMixed(region, n=3, **kw)
        for i_ in (1, 2):
            c.trans += 1
            if fm[i_].values.shape[0] != mesh.ncells:
                c.bad(f"dual-unknowns/field{i_}", "number of unknowns of the dual field of the explicit formulation (one per cell: cell-wise constant p, J)", int(fm[i_].values.shape[0]), int(mesh.ncells), 0)
        bc = fem.SolidBodyNearlyIncompressible(fem.NeoHooke(mu=1.0), fc, bulk=bulk)
        bm = fem.SolidBody(fem.NearlyIncompressible(fem.NeoHooke(mu=1.0), bulk=bulk), fm)
        out = {}
        for tag, field, body in (("c", fc, bc), ("m", fm, bm)):
            bounds, lc = fem.dof.uniaxial(field, clamped=True, move=-0.15, axis=0, sym=(False, True, False)[: mesh.dim] + (False,) * (3 - mesh.dim))
            res = fem.newtonrhapson(items=[body], x0=field, dof0=lc["dof0"], dof1=lc["dof1"], ext0=lc["ext0"], tol=1e-11, verbose=False)
            c.trans += res.iterations
            if tag == "c":
                out[tag] = (res.x[0].values.copy(), body.results.state.p.copy().ravel(), body.results.state.J.copy().ravel())
            else:
                out[tag] = (res.x[0].values.copy(), res.x[1].values.ravel().copy(), res.x[2].values.ravel().copy())
        if out["m"][1].size == out["c"][1].size:
            c.cmp("converged/u", "converged displacements: condensed body vs explicit (u, p, J) formulation on serendipity cells", out["c"][0], out["m"][0], 1e-8)
            c.cmp("converged/J", "converged volume ratios", out["c"][2], out["m"][2], 1e-7)
            c.cmp("converged/p", "converged pressures", 1 + out["c"][1] / bulk, 1 + out["m"][1] / bulk, 1e-7)
        c.outcomes.add("serendipity-constant-duals")
        return c.result(dict(case=case["key"], cells=int(mesh.ncells)))
    if kind == "ni-inplace":
        fk = case["fk"]
        if fk == "3d":
            mesh = fem.Cube(n=3)
            Rg = fem.RegionHexahedron
            F = fem.Field
        else:
            mesh = fem.Rectangle(a=(0.0, 0.4 if fk == "axi" else 0.0), b=(1.0, 1.4 if fk == "axi" else 1.0), n=3)
            Rg = fem.RegionQuad
            F = fem.FieldAxisymmetric if fk == "axi" else fem.FieldPlaneStrain
        region = Rg(mesh)
        kw = dict(axisymmetric=True) if fk == "axi" else (dict(planestrain=True) if fk == "ps" else {})
        fc = fem.FieldContainer([F(region, dim=mesh.dim)])
        fm = fem.FieldsMixed(region, n=3, **kw)
        bc = fem.SolidBodyNearlyIncompressible(fem.NeoHooke(mu=1.0), fc, bulk=case["bulk"])
        bm = fem.SolidBody(fem.NearlyIncompressible(fem.NeoHooke(mu=1.0), bulk=case["bulk"]), fm)
        out = {}
        for tag, field, body in (("c", fc, bc), ("m", fm, bm)):
            bounds, lc = fem.dof.uniaxial(field, clamped=True, move=0.0, axis=0, sym=(False, True, False)[: mesh.dim] + (False,) * (3 - mesh.dim))
            res = []
            for mv in (-0.08, -0.16, -0.24):
                bounds["move"].update(mv)
                ext0 = fem.dof.apply(field, bounds, lc["dof0"])
                for it in range(25):
                    r = body.assemble.vector(field)
                    K = body.assemble.matrix()
                    system = fem.solve.partition(field, K, lc["dof1"], lc["dof0"], r)
                    dx = np.asarray(fem.solve.solve(*system, ext0)).ravel()
                    field += dx  # in place: the body keeps seeing the same field object
                    c.trans += 1
                    if np.abs(dx).max() < 1e-13:
                        break
                body.assemble.vector(field)  # (the condensed state follows with the next evaluation at an unchanged field)
                if tag == "c":
                    res.append((field[0].values.copy(), bc.results.state.p.copy(), bc.results.state.J.copy()))
                else:
                    res.append((field[0].values.copy(), field[1].values.ravel().copy(), field[2].values.ravel().copy()))
            out[tag] = res
        for lv, (a, b) in enumerate(zip(out["c"], out["m"])):
            c.cmp(f"level{lv}/u", "converged displacements, in-place Newton loop: condensed vs explicit", a[0], b[0], 1e-8)
            c.cmp(f"level{lv}/J", "converged volume ratios, in-place Newton loop", a[2], b[2], 1e-7)
            c.cmp(f"level{lv}/p", "converged pressures, in-place Newton loop", 1 + a[1] / case["bulk"], 1 + b[1] / case["bulk"], 1e-7)
        return c.result(dict(case=case["key"], cells=int(mesh.ncells)))
    if kind == "ni-statevars":
        # a base material WITH state variables (pseudo-elastic softening) through a load / un-load / re-load history: the
        # condensed body and the explicit three-field formulation carry the same history, substep by substep
        fk = case["fk"]
        if fk == "3d":
            mesh = fem.Cube(n=3)
            Rg, F = fem.RegionHexahedron, fem.Field
        else:
            mesh = fem.Rectangle(a=(0.0, 0.4 if fk == "axi" else 0.0), b=(1.0, 1.4 if fk == "axi" else 1.0), n=3)
            Rg, F = fem.RegionQuad, (fem.FieldAxisymmetric if fk == "axi" else fem.FieldPlaneStrain)
        region = Rg(mesh)
        kw = dict(axisymmetric=True) if fk == "axi" else (dict(planestrain=True) if fk == "ps" else {})
        sym = (False, True, False)[: mesh.dim] + (False,) * (3 - mesh.dim)
        moves = (-0.1, -0.22, -0.08, -0.22, -0.05, -0.3)
        K_ = 40.0
        mk_base = lambda: fem.OgdenRoxburgh(fem.NeoHooke(mu=1.0), r=2.5, m=0.6, beta=0.1)  # noqa
        out = {}
        for tag in ("c", "m"):
            if tag == "c":
                fld = fem.FieldContainer([F(region, dim=mesh.dim)])
                body = fem.SolidBodyNearlyIncompressible(mk_base(), fld, bulk=K_)
            else:
                fld = fem.FieldsMixed(region, n=3, **kw)
                body = fem.SolidBody(fem.NearlyIncompressible(mk_base(), bulk=K_), fld)
            bounds, lc = fem.dof.uniaxial(fld, clamped=True, move=0.0, axis=0, sym=sym)
            res_ = []
            for mv in moves:
                bounds["move"].update(mv)
                ext0 = fem.dof.apply(fld, bounds, lc["dof0"])
                r_ = fem.newtonrhapson(items=[body], x0=fld, dof0=lc["dof0"], dof1=lc["dof1"], ext0=ext0, tol=1e-11, verbose=False)
                c.trans += r_.iterations
                if tag == "c":
                    body.assemble.vector(fld)
                    res_.append((fld[0].values.copy(), np.asarray(body.results.state.p).ravel().copy(), np.asarray(body.results.state.J).ravel().copy(), np.asarray(body.results.statevars).copy()))
                else:
                    res_.append((fld[0].values.copy(), fld[1].values.ravel().copy(), fld[2].values.ravel().copy(), np.asarray(body.results.statevars).copy()))
            out[tag] = res_
        for i, (a, b) in enumerate(zip(out["c"], out["m"])):
            c.cmp(f"substep{i}/u", "displacements with a history-dependent base material: condensed vs explicit", a[0], b[0], 1e-7)
            c.cmp(f"substep{i}/J", "volume ratios with a history-dependent base material", a[2], b[2], 1e-7)
            c.cmp(f"substep{i}/p", "pressures with a history-dependent base material", 1 + a[1] / K_, 1 + b[1] / K_, 1e-7)
            c.cmp(f"substep{i}/state", "committed state variables (stored maximum energy) of the base material", a[3], b[3], 1e-7)
        if not (np.abs(out["m"][-1][3]).max() > 0 and np.abs(out["m"][1][3] - out["m"][0][3]).max() > 0):
            c.bad("history-not-carried", "the explicit formulation's committed state must follow the load history (running maximum grows with the load)", float(np.abs(out["m"][-1][3]).max()), "> 0 and growing")
        return c.result(dict(case=case["key"], cells=int(mesh.ncells), substeps=len(moves)))
    if kind == "ni-tangent":
        # the condensed tangent equals the explicit three-field tangent with p and J condensed out (Schur complement) at the same
        # (u, p, J) -- whatever the route by which the long-lived condensed body was brought to that state: every sequence (<= 3)
        # over {vector, matrix, evaluate.gradient, evaluate.hessian} x {state A, state B} (each given twice: settled) ending in a
        # matrix call with or without the field
        fk = case["fk"]
        if fk == "3d":
            mesh = fem.Cube(n=3)
            Rg, F = fem.RegionHexahedron, fem.Field
        else:
            mesh = fem.Rectangle(a=(0.0, 0.4 if fk == "axi" else 0.0), b=(1.0, 1.4 if fk == "axi" else 1.0), n=3)
            Rg, F = fem.RegionQuad, (fem.FieldAxisymmetric if fk == "axi" else fem.FieldPlaneStrain)
        region = Rg(mesh)
        kw = dict(axisymmetric=True) if fk == "axi" else (dict(planestrain=True) if fk == "ps" else {})
        K_ = 30.0
        fc = fem.FieldContainer([F(region, dim=mesh.dim)])
        U = {"A": 0.06 * zoo.offarr(seed, 1160, fc[0].values.shape), "B": -0.05 * zoo.offarr(seed, 1161, fc[0].values.shape) + 0.02}
        refK = {}
        for nm, Uv in U.items():
            fc[0].values[:] = Uv
            bs = fem.SolidBodyNearlyIncompressible(fem.NeoHooke(mu=1.0), fc, bulk=K_)
            bs.assemble.vector(fc)
            bs.assemble.vector(fc)
            fm = fem.FieldsMixed(region, n=3, **kw)
            fm[0].values[:] = Uv
            fm[1].values[:] = np.asarray(bs.results.state.p).reshape(fm[1].values.shape)
            fm[2].values[:] = np.asarray(bs.results.state.J).reshape(fm[2].values.shape)
            Kx = fem.SolidBody(fem.NearlyIncompressible(fem.NeoHooke(mu=1.0), bulk=K_), fm).assemble.matrix(fm).toarray()
            nu_ = fm.fieldsizes[0]
            Kuu, Kur, Kru, Krr = Kx[:nu_, :nu_], Kx[:nu_, nu_:], Kx[nu_:, :nu_], Kx[nu_:, nu_:]
            refK[nm] = Kuu - Kur @ np.linalg.solve(Krr, Kru)
            c.trans += 3
        ops = [(w, X) for w in ("vector", "matrix", "gradient", "hessian") for X in ("A", "B")] + [("matrix", None)]
        nh = 0
        for d_ in (1, 2, 3):
            for seq in itertools.product(range(len(ops)), repeat=d_):
                if ops[seq[-1]][0] != "matrix":
                    continue
                fc[0].values[:] = U["A"]
                body = fem.SolidBodyNearlyIncompressible(fem.NeoHooke(mu=1.0), fc, bulk=K_)
                body.assemble.vector(fc)
                body.assemble.vector(fc)
                cur = "A"
                for k in seq:
                    w, X = ops[k]
                    fn = getattr(body.assemble if w in ("vector", "matrix") else body.evaluate, w)
                    if X is not None:
                        fc[0].values[:] = U[X]
                        cur = X
                        fn(fc)
                        got = fn(fc)
                    else:
                        got = fn()
                    c.trans += 1
                lab = " > ".join(f"{ops[i][0]}({'field@' + ops[i][1] if ops[i][1] else ''})" for i in seq)
                c.cmp(f"history={lab}", "condensed tangent after this call history vs the Schur complement of the explicit three-field tangent at the same state", got.toarray(), refK[cur], 1e-8)
                nh += 1
        c.outcomes.add(f"tangent-histories={nh}")
        return c.result(dict(case=case["key"], cells=int(mesh.ncells), histories=nh))
    if kind == "ni-bulk":
        # histories of the bulk modulus on the condensed body: every sequence (<= 3 solves, increasing load) over two bulk moduli,
        # (a) one long-lived body whose `bulk` attribute is changed between the solves, (b) a new body per solve created with
        # state= the previous body's state and the new bulk modulus; after every solve u, p, J must be those of the explicit
        # three-field formulation with the bulk modulus in effect, solved from scratch
        fk = case["fk"]
        if fk == "3d":
            mesh = fem.Cube(n=3)
            Rg, F = fem.RegionHexahedron, fem.Field
        else:
            mesh = fem.Rectangle(a=(0.0, 0.4 if fk == "axi" else 0.0), b=(1.0, 1.4 if fk == "axi" else 1.0), n=3)
            Rg, F = fem.RegionQuad, (fem.FieldAxisymmetric if fk == "axi" else fem.FieldPlaneStrain)
        region = Rg(mesh)
        kw = dict(axisymmetric=True) if fk == "axi" else (dict(planestrain=True) if fk == "ps" else {})
        sym = (False, True, False)[: mesh.dim] + (False,) * (3 - mesh.dim)
        moves = (-0.08, -0.16, -0.24)
        bulks = (20.0, 80.0)
        ref = {}

        def explicit(K, mv):
            if (K, mv) not in ref:
                fm = fem.FieldsMixed(region, n=3, **kw)
                bm = fem.SolidBody(fem.NearlyIncompressible(fem.NeoHooke(mu=1.0), bulk=K), fm)
                bounds, lc = fem.dof.uniaxial(fm, clamped=True, move=mv, axis=0, sym=sym)
                ext0 = fem.dof.apply(fm, bounds, lc["dof0"])
                r_ = fem.newtonrhapson(items=[bm], x0=fm, dof0=lc["dof0"], dof1=lc["dof1"], ext0=ext0, tol=1e-11, verbose=False)
                ref[(K, mv)] = (r_.x[0].values.copy(), r_.x[1].values.ravel().copy(), r_.x[2].values.ravel().copy())
            return ref[(K, mv)]

        nh = 0
        for n_ in (1, 2, 3):
            for seq in itertools.product(bulks, repeat=n_):
                if n_ > 1 and len(set(seq)) == 1:
                    continue  # (constant bulk modulus: the plain condensed cases)
                for how in ("attribute", "state="):
                    fc = fem.FieldContainer([F(region, dim=mesh.dim)])
                    body = fem.SolidBodyNearlyIncompressible(fem.NeoHooke(mu=1.0), fc, bulk=seq[0])
                    bounds, lc = fem.dof.uniaxial(fc, clamped=True, move=0.0, axis=0, sym=sym)
                    for i, K in enumerate(seq):
                        if i > 0:
                            if how == "attribute":
                                body.bulk = K
                            else:
                                body = fem.SolidBodyNearlyIncompressible(fem.NeoHooke(mu=1.0), fc, bulk=K, state=body.results.state)
                        bounds["move"].update(moves[i])
                        ext0 = fem.dof.apply(fc, bounds, lc["dof0"])
                        res = fem.newtonrhapson(items=[body], x0=fc, dof0=lc["dof0"], dof1=lc["dof1"], ext0=ext0, tol=1e-11, verbose=False)
                        body.assemble.vector(fc)  # settled
                        c.trans += res.iterations
                        u, p_, J_ = explicit(K, moves[i])
                        lab = f"bulks={list(seq[: i + 1])}/{how}/solve{i}"
                        c.cmp(lab + "/u", "displacements after a change of the bulk modulus: condensed vs explicit at the bulk modulus in effect", fc[0].values, u, 1e-7)
                        c.cmp(lab + "/J", "volume ratios after a change of the bulk modulus", body.results.state.J, J_, 1e-7)
                        c.cmp(lab + "/p", "pressures after a change of the bulk modulus", 1 + body.results.state.p / K, 1 + p_ / K, 1e-7)
                    nh += 1
        c.outcomes.add(f"bulk-histories={nh}")
        return c.result(dict(case=case["key"], cells=int(mesh.ncells), histories=nh))
    if kind == "uniform":
        fam, n = case["fam"], case["n"]
        if fam == "hexahedron":
            mesh = fem.Cube(a=(0, 0, 0), b=(2.0, 1.0, 0.7), n=(n, n, max(2, n - 1)))
        else:
            mesh = fem.Rectangle(a=(0, 0), b=(2.0, 1.0), n=(n, max(2, n - 1)))
            if fam == "quad9":
                mesh = mesh.add_midpoints_edges().add_midpoints_faces()
        # uniform grids need not be axis aligned: every cell is the same parallelepiped after a rotation / a shear / a
        # general affine map of the grid
        tf = case.get("tf", "none")
        if tf != "none":
            d_ = mesh.dim
            A_ = {"rotated": (zoo.generic_rotations(seed, 1)[0] if d_ == 3 else zoo.rot2(0.5)), "sheared": np.eye(d_) + 0.4 * np.eye(d_, k=1), "affine": zoo.affine_matrix(d_, seed)}[tf]
            mesh = fem.Mesh(mesh.points @ A_.T + 0.3, mesh.cells, mesh.cell_type)
        Rg = zoo.region(fam, mesh)
        Ru = zoo.region(fam, mesh, uniform=True)
        u = 0.05 * zoo.offarr(seed, 1140, mesh.points.shape)
        for matname in ("NeoHooke", "tt-mooney"):
            res = []
            for R in (Rg, Ru):
                Fld = fem.Field if fam == "hexahedron" else fem.FieldPlaneStrain
                f = fem.FieldContainer([Fld(R, dim=mesh.dim, values=u.copy())])
                um, sv = material(matname, R)
                b = fem.SolidBody(um, f, statevars=sv)
                res.append((b.assemble.vector(f).toarray()[:, 0], b.assemble.matrix().toarray(), f.extract()[0]))
                c.trans += 2
            c.cmp(f"{matname}/vector", "uniform-grid region vs general region: vector", res[1][0], res[0][0], 1e-12)
            c.cmp(f"{matname}/matrix", "uniform-grid region vs general region: matrix", res[1][1], res[0][1], 1e-12)
            c.cmp(f"{matname}/F", "uniform-grid region vs general region: deformation gradient", res[1][2], res[0][2], 1e-13)
        # integrands that do not depend on the cell (constant linear-elastic tangent, mass, body force): their integrated values
        # keep a cell axis of length one on the uniform region and are expanded at assembly
        res = []
        for R in (Rg, Ru):
            f = fem.FieldContainer([fem.Field(R, dim=mesh.dim, values=u.copy())])
            le = fem.LinearElastic(E=2.0, nu=0.3) if mesh.dim == 3 else fem.constitution.LinearElasticPlaneStress(E=2.0, nu=0.3)
            b = fem.SolidBody(le, f, density=1.7)
            bf = fem.SolidBodyForce(f, values=[0.3, -0.2, 0.5][: mesh.dim], scale=2.0)
            res.append((b.assemble.matrix(f).toarray(), b.assemble.vector(f).toarray()[:, 0], b.assemble.mass().toarray(), bf.assemble.vector(f).toarray()[:, 0]))
            c.trans += 4
        for k_, lab_ in enumerate(("linear-elastic/matrix", "linear-elastic/vector", "mass", "body-force")):
            c.cmp(f"constant-integrand/{lab_}", "uniform-grid region vs general region for an integrand that is the same in every cell", res[1][k_], res[0][k_], 1e-12)
        # mixed field on the uniform region
        if fam in ("quad", "hexahedron"):
            res = []
            for R in (Rg, Ru):
                f = fem.FieldsMixed(R, n=3)
                f[0].values = u.copy()
                f[1].values = 0.1 + 0 * f[1].values
                f[2].values = 1.02 + 0 * f[2].values
                b = fem.SolidBody(fem.ThreeFieldVariation(fem.NeoHooke(mu=1.0, bulk=5.0)), f)
                res.append((b.assemble.vector(f).toarray()[:, 0], b.assemble.matrix().toarray()))
            c.cmp("mixed/vector", "uniform vs general: mixed-field vector", res[1][0], res[0][0], 1e-12)
            c.cmp("mixed/matrix", "uniform vs general: mixed-field matrix", res[1][1], res[0][1], 1e-12)
        if np.asarray(Ru.dV).shape[-1] != 1:
            c.notes.append("uniform region stores per-cell arrays")
        return c.result(dict(case=case["key"], cells=int(mesh.ncells)))
    if kind == "uniform-hess":
        base = fem.Rectangle(a=(0, 0), b=(2.0, 1.5), n=(4, 3))
        mesh = base.add_midpoints_edges()
        P = mesh.points.copy()
        hx, hy = 2.0 / 3, 1.5 / 2
        # mid-side nodes of the horizontal edges: x at half a cell width, y on a grid line
        onh = np.isclose((P[:, 0] / hx) % 1.0, 0.5) & np.isclose((P[:, 1] / hy) % 1.0 * ((P[:, 1] / hy) % 1.0 - 1.0), 0.0)
        if case["shape"] == "wavy":
            P[onh, 1] += 0.12 * hy
        elif case["shape"] == "offcentre":
            P[onh, 0] += 0.1 * hx
        elif case["shape"] == "rotated":
            P = P @ zoo.rot2(0.4).T + 0.2
        mesh = fem.Mesh(P, mesh.cells, mesh.cell_type)
        Rg = fem.RegionQuadraticQuad(mesh, hess=True)
        Ru = fem.RegionQuadraticQuad(mesh, hess=True, uniform=True)
        c.trans += 2
        # the grid really is uniform: the general region has identical cells
        spread = max(np.abs(Rg.dhdX - Rg.dhdX[..., :1]).max(), np.abs(Rg.dV - Rg.dV[:, :1]).max())
        if spread > 1e-12:
            c.bad("precondition", "harness: cells of the grid are not identical", float(spread), 0)
            return c.result(dict(case=case["key"]))
        c.cmp("dV", "uniform region dV vs general", np.broadcast_to(Ru.dV, Rg.dV.shape), Rg.dV, 1e-12)
        c.cmp("dhdX", "uniform region dhdX vs general", np.broadcast_to(Ru.dhdX, Rg.dhdX.shape), Rg.dhdX, 1e-12)
        c.cmp("d2hdXdX", "uniform region second derivatives of the shape functions vs general", np.broadcast_to(Ru.d2hdXdX, Rg.d2hdXdX.shape), Rg.d2hdXdX, 1e-10)
        # a field sampling x (the position itself): its second derivative is zero; a quadratic: constant hessian where representable
        for lab, vals in (("position", P.copy()), ("generic", zoo.offarr(seed, 1150, P.shape))):
            hg = fem.Field(Rg, dim=2, values=vals.copy()).hess()
            hu = fem.Field(Ru, dim=2, values=vals.copy()).hess()
            c.trans += 2
            if lab != "position":
                c.cmp(f"hess/{lab}", "Field.hess() on the uniform region vs the general region", np.broadcast_to(hu, np.shape(hg)), hg, 1e-10)
            if lab == "position" and np.abs(hu).max() > 1e-9:
                c.bad("hess/position/zero", "second derivative of the position field on the uniform region", float(np.abs(hu).max()), 0, 1e-9)
        return c.result(dict(case=case["key"], cells=int(mesh.ncells)))
    raise ValueError(kind)
