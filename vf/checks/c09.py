"""C09 Homogeneous deformation problems are solved exactly, independent of the mesh.

Bounded-exhaustive exploration: element family x mesh density x interior distortion x material
x (a) displacement patch tests with affine maps from the F-lattice on the whole boundary,
(b) uniaxial / biaxial load cases at several stretch levels x ramp subdivisions through the real
Step / CharacteristicCurve, (c) material-level view() curves.  The analytic reference is the
checker's own closed form: the strain-energy function written here in principal stretches, its
derivative by Richardson differences, the transverse stretch from the checker's own scalar
root solve -- independent of felupe's gradient code.
"""

import itertools
import warnings

import numpy as np

from .. import zoo

ID = "C09"
RULE = (
    "case = (problem kind, element family, density/member, material) ; inside a case: affine maps / stretch levels x "
    "ramp subdivisions; oracles: nodal displacement = (F - I) X at every point, F uniform at every quadrature point, "
    "reaction force of the characteristic curve = analytic first Piola-Kirchhoff stress x reference area, curve abscissa "
    "= prescribed displacement, identical final state for every subdivision; view() curves vs the same closed forms."
)
ASSUMPTIONS = [
    "Closed forms: strain-energy functions transcribed from the docstrings into principal stretches (vf/checks/c09.py:ENERGY), differentiated numerically (Richardson, 1e-10), transverse stretches from scipy.optimize.brentq on the checker's own stress.",
    "Tolerance 1e-6 relative (Newton tolerance 1.5e-8); stretch levels inside the stable range of each model.",
    "tet10 cells with straight edges only (the template's rule does not integrate curved tet10 geometry exactly: property statement); quad/hex families with arbitrarily displaced interior vertices.",
]
TOL = 1e-6


def BOUNDS(tier):
    return {"densities": [1, 2, 3], "stretch_levels": [0.8, 1.2, 1.5], "ramp_subdivisions": [1, 2, 3, 5], "affine_maps": 3,
            "cyclic_histories": [[0.15, 0.3, 0.15, 0.0, -0.1], [0.2, 0.0, 0.2], [-0.1, 0.0, 0.0, 0.25]], "axes": "every axis / ordered axis pair on a 1 x 1.5 x 2 box (1.5 x 0.75 in 2d), symmetric and two-sided"}


FAM3D = ["hexahedron", "hexahedron20", "hexahedron27", "tetra", "tetra10", "tetra-mini", "lagrange3o2"]
FAM2D = ["quad", "quad8", "quad9", "triangle", "triangle6", "triangle-mini", "lagrange2o3"]
MATS = ["NeoHooke", "NeoHookeCompressible", "mooney_rivlin", "yeoh", "ogden", "jax.mooney_rivlin", "jax.yeoh"]


def plan(tier, seed):
    cases = []
    quick = tier == "quick"
    for fam in FAM3D + FAM2D:
        members = ["block", "distorted", "renum"] + (["curved"] if fam in ("triangle6", "quad8", "quad9", "hexahedron20", "hexahedron27") else []) + (["aniso"] if not quick else [])
        if fam.startswith("lagrange"):
            members = ["ref", "curved"]
        for mem in members:
            for mat in (MATS[:3] if quick else MATS):
                if mat.startswith("jax") and fam not in ("hexahedron", "quad"):
                    continue
                cases.append(dict(key=f"patch/{fam}/{mem}/{mat}", kind="patch", fam=fam, member=mem, mat=mat, seed=seed, cost=8 if "27" in fam or "10" in fam or "20" in fam else 3))
    # patch tests on regions with a USER-SUPPLIED quadrature rule that is rich enough for the family (the rules `project`
    # documents for the simplex families, higher Gauss-Legendre / Gauss-Lobatto orders for the tensor-product ones)
    for fam, rule in (("triangle6", "Triangle5"), ("triangle6", "Triangle3"), ("triangle", "Triangle5"), ("tetra10", "Tetrahedron3"), ("tetra", "Tetrahedron3"), ("quad", "GaussLegendre2"), ("quad", "GaussLobatto2"),
                      ("quad8", "GaussLegendre3"), ("hexahedron", "GaussLegendre2"), ("hexahedron20", "GaussLegendre3")):
        for mem in ["distorted"] + (["curved"] if fam in ("triangle6", "quad8", "hexahedron20") else []):
            cases.append(dict(key=f"patch/{fam}/{mem}/NeoHooke/rule={rule}", kind="patch", fam=fam, member=mem, mat="NeoHooke", rule=rule, seed=seed, cost=6))
    for fam in ["hexahedron", "hexahedron20", "tetra", "tetra10", "quad", "quad8", "triangle", "triangle6"] + ([] if quick else ["hexahedron27", "quad9"]):
        for mat in (MATS if (fam in ("hexahedron", "quad") or not quick) else MATS[:2]):
            if mat.startswith("jax") and fam not in ("hexahedron", "quad"):
                continue
            for n in ((1, 2) if quick else (1, 2, 3)):
                cases.append(dict(key=f"uniaxial/{fam}/n={n}/{mat}", kind="uniaxial", fam=fam, n=n, mat=mat, seed=seed, cost=10))
    for fam in ("hexahedron", "hexahedron20"):
        for mat in MATS[:5]:
            cases.append(dict(key=f"biaxial/{fam}/{mat}", kind="biaxial", fam=fam, n=2, mat=mat, seed=seed, cost=10))
    # load cases along every axis / ordered axis pair on a box with three different extents, symmetric and
    # two-sided (sym False on the loaded axis) variants
    for fam in ["hexahedron", "quad"] + ([] if quick else ["tetra", "triangle", "hexahedron20", "quad8"]):
        for mat in (MATS[:1] if quick else MATS[:3]):
            cases.append(dict(key=f"axes/{fam}/{mat}", kind="axes", fam=fam, mat=mat, seed=seed, cost=25))
    for mat in MATS + ["NeoHooke@1e-09", "NeoHooke@1e-06", "NeoHooke@1000000.0", "neo_hooke-incompressible", "mooney_rivlin-incompressible", "yeoh-incompressible", "ogden-incompressible"]:
        cases.append(dict(key=f"view/{mat}", kind="view", mat=mat, seed=seed, cost=3))
    # strongly compressible materials up to large stretches (the root finder for the free lateral stretches may need its restart)
    for mat in ("NeoHooke:bulk=0.01", "NeoHooke:bulk=0.2", "NeoHookeCompressible:lmbda=0.1"):
        for top in (3.0, 6.0, 10.0):
            cases.append(dict(key=f"view-soft/{mat}/max-stretch={top}", kind="view-soft", mat=mat, top=top, seed=seed, cost=2))
    # history-dependent materials: every non-empty subset of the three load cases in one view, evaluated twice
    for mat in ("OgdenRoxburgh", "tt-ogden_roxburgh-incompressible", "tt-visco"):
        cases.append(dict(key=f"view-history/{mat}", kind="view-history", mat=mat, seed=seed, cost=6))
    return cases


# ----------------------------------------------------------------------------- closed forms
def ENERGY(mat):
    """W(l1, l2, l3) of the material, written by the checker"""
    mu, K = 1.0, 5.0

    def vol(J):
        return K / 2 * (J - 1) ** 2

    if mat.startswith("NeoHooke@"):
        s_ = float(mat.split("@")[1])
        return lambda a, b, c: s_ * (mu / 2 * ((a * b * c) ** (-2 / 3) * (a * a + b * b + c * c) - 3) + vol(a * b * c))
    if mat == "NeoHooke":
        return lambda a, b, c: mu / 2 * ((a * b * c) ** (-2 / 3) * (a * a + b * b + c * c) - 3) + vol(a * b * c)
    if mat == "NeoHookeCompressible":
        lm = 2.0
        return lambda a, b, c: mu / 2 * (a * a + b * b + c * c) - mu * np.log(a * b * c) + lm / 2 * np.log(a * b * c) ** 2
    if mat in ("mooney_rivlin", "jax.mooney_rivlin"):
        C10, C01 = 0.4, 0.2

        def W(a, b, c):
            J = a * b * c
            I1 = J ** (-2 / 3) * (a * a + b * b + c * c)
            I2 = J ** (-4 / 3) * (a * a * b * b + b * b * c * c + a * a * c * c)
            return C10 * (I1 - 3) + C01 * (I2 - 3) + vol(J)
        return W
    if mat in ("yeoh", "jax.yeoh"):
        C = (0.5, -0.05, 0.02)

        def W(a, b, c):
            J = a * b * c
            I1 = J ** (-2 / 3) * (a * a + b * b + c * c)
            return sum(Ci * (I1 - 3) ** (i + 1) for i, Ci in enumerate(C)) + vol(J)
        return W
    if mat == "ogden":
        mus, als = (1.0, 0.2), (1.7, -1.5)

        def W(a, b, c):
            J = a * b * c
            s = J ** (-1 / 3)
            return sum(2 * m / al**2 * ((s * a) ** al + (s * b) ** al + (s * c) ** al - 3) for m, al in zip(mus, als)) + vol(J)
        return W
    raise ValueError(mat)


def make_umat(mat):
    import felupe as fem
    import felupe.constitution as C

    K = 5.0
    if mat.startswith("NeoHooke@"):  # the same material in another stress unit (all moduli x s)
        s_ = float(mat.split("@")[1])
        return fem.NeoHooke(mu=1.0 * s_, bulk=K * s_)
    if mat == "NeoHooke":
        return fem.NeoHooke(mu=1.0, bulk=K)
    if mat == "NeoHookeCompressible":
        return fem.NeoHookeCompressible(mu=1.0, lmbda=2.0)
    if mat == "mooney_rivlin":
        return fem.Hyperelastic(C.mooney_rivlin, C10=0.4, C01=0.2) & C.Volumetric(bulk=K)
    if mat == "yeoh":
        return fem.Hyperelastic(C.yeoh, C10=0.5, C20=-0.05, C30=0.02) & C.Volumetric(bulk=K)
    if mat == "ogden":
        return fem.Hyperelastic(C.ogden, mu=[1.0, 0.2], alpha=[1.7, -1.5]) & C.Volumetric(bulk=K)
    if mat.startswith("jax."):
        import jax

        jax.config.update("jax_enable_x64", True)
        import felupe.constitution.jax as CJ

        n = mat[4:]
        kw = dict(C10=0.4, C01=0.2) if n == "mooney_rivlin" else dict(C10=0.5, C20=-0.05, C30=0.02)
        return CJ.Hyperelastic(getattr(CJ.models.hyperelastic, n), **kw) & C.Volumetric(bulk=K)
    raise ValueError(mat)


def dW(W, lam, k, h=1e-4):
    def f(t):
        x = list(lam)
        x[k] += t
        return W(*x)
    d1 = (f(h) - f(-h)) / (2 * h)
    d2 = (f(h / 2) - f(-h / 2)) / h
    return (4 * d2 - d1) / 3


def solve_free(W, fixed, free):
    """principal stretches with the components in `fixed` prescribed (dict k->value) and zero nominal stress in the `free` ones
    (all free stretches equal, by symmetry of the load cases driven here)"""
    from scipy.optimize import brentq

    def lam_of(t):
        return [fixed.get(k, t) for k in range(3)]

    g = lambda t: dW(W, lam_of(t), free[0])  # noqa
    t = brentq(g, 0.05, 5.0, xtol=1e-14, rtol=1e-14)
    return lam_of(t)


# ----------------------------------------------------------------------------- FE helpers
def build(fam, member, seed, n=None):
    import felupe as fem

    if fam.startswith("lagrange"):
        dim, order = int(fam[8]), int(fam[10:])
        mesh = zoo.lagrange_mesh(dim, order, "ref" if member == "ref" else "curved", seed)
        # curved interior only: keep the boundary straight so that the affine map on the boundary is representable
        if member != "ref":
            base = zoo.lagrange_mesh(dim, order, "ref", seed)
            onb = np.any(np.isclose(base.points, 0) | np.isclose(base.points, 1), axis=1)
            pts = mesh.points.copy()
            pts[onb] = base.points[onb]
            mesh = fem.Mesh(pts, mesh.cells, mesh.cell_type)
            twin = base
        else:
            twin = mesh
        return mesh, zoo.region(fam, mesh), twin
    if n is not None:
        d = zoo.BASE[fam][1]
        base = zoo.base_mesh(fam, n + 1)
        pts = base.points.copy()
        lo, hi = pts.min(0), pts.max(0)
        interior = np.all((pts > lo + 1e-9) & (pts < hi - 1e-9), axis=1)
        for j, i in enumerate(np.where(interior)[0]):
            pts[i] += 0.25 / n * zoo.offvec(seed, 3 + j, d)
        mesh = zoo._finish(fem.Mesh(pts, base.cells, base.cell_type), fam)
        twin = zoo._finish(base, fam)
        return mesh, zoo.region(fam, mesh), twin
    mesh = zoo.make(fam, member, seed)
    tm = {"distorted": "block", "curved": "block", "renum": "block"}.get(member, member)
    twin = zoo.make(fam, tm, seed)
    if member == "renum":
        twin = zoo.renumber(twin, seed)
    if member == "curved":
        # only interior mid-nodes may be curved for a patch test with an affine boundary map
        onb = np.any(np.isclose(twin.points, twin.points.min(0)) | np.isclose(twin.points, twin.points.max(0)), axis=1)
        pts = mesh.points.copy()
        dist = zoo.make(fam, "distorted", seed)
        pts[onb] = dist.points[onb]
        if fam == "tetra10":
            pts = dist.points
        mesh = fem.Mesh(pts, mesh.cells, mesh.cell_type)
    return mesh, zoo.region(fam, mesh), twin


class Ctx:
    def __init__(self, key):
        self.key = key
        self.viol, self.nontrivial, self.outcomes, self.notes = [], [], set(), []
        self.trans = self.traces = self.states = 0

    def bad(self, sub, what, obs, exp, tol=TOL):
        if len(self.viol) < 50:
            self.viol.append(dict(key=f"{self.key}/{sub}", what=what, observed=obs, expected=exp, tol=tol))

    def close(self, sub, what, got, ref, scale=None, tol=TOL):
        self.traces += 1
        self.states += 1
        got, ref = np.asarray(got, float), np.asarray(ref, float)
        sc = scale if scale is not None else max(np.abs(ref).max(), 1e-3)
        err = np.abs(got - ref).max() / sc
        self.nontrivial.append(sub)
        if not err <= tol:
            self.bad(sub, what, dict(rel_err=float(err), got=np.ravel(got)[:4].tolist(), ref=np.ravel(ref)[:4].tolist()), "equal", tol)
            return False
        return True

    def result(self, sample):
        return dict(viol=self.viol, states=self.states, transitions=self.trans, traces=self.traces, nontrivial=self.nontrivial, outcomes=sorted(self.outcomes),
                    sample=sample, notes=self.notes, digest=f"{self.states}/{self.traces}/{len(self.viol)}")


def run(case):
    import felupe as fem

    warnings.simplefilter("ignore")
    c = Ctx(case["key"])
    kind, seed = case["kind"], case["seed"]
    if kind == "patch":
        fam, mat = case["fam"], case["mat"]
        mesh, region, twin = build(fam, case["member"], seed)
        d = mesh.dim
        if case.get("rule"):
            rn = case["rule"]
            qd = {"Triangle": lambda o: fem.TriangleQuadrature(order=o), "Tetrahedron": lambda o: fem.TetrahedronQuadrature(order=o),
                  "GaussLegendre": lambda o: fem.GaussLegendre(order=o, dim=d), "GaussLobatto": lambda o: fem.GaussLobatto(order=o, dim=d)}[rn.rstrip("0123456789")](int(rn[-1]))
            region = type(region)(mesh, quadrature=qd)
        um = make_umat(mat)
        Fcls = fem.Field if d == 3 else fem.FieldPlaneStrain
        P = twin.points
        onb = np.any(np.isclose(P, P.min(0)) | np.isclose(P, P.max(0)), axis=1)
        if fam.endswith("mini"):
            onb[np.unique(mesh.cells[:, -1])] = False  # bubble dofs are internal unknowns
        maps = []
        G = zoo.offarr(seed, 1400, (d, d))
        maps.append(np.eye(d) + 0.25 * G)
        maps.append(np.eye(d) + np.diag([0.3, -0.15, 0.1][:d]))
        S = np.eye(d)
        S[0, 1] = 0.3
        maps.append(S)
        for k, F0 in enumerate(maps):
            field = fem.FieldContainer([Fcls(region, dim=d)])
            uex = mesh.points @ (F0 - np.eye(d)).T
            if fam.endswith("mini"):
                uex[np.unique(mesh.cells[:, -1])] = 0.0  # hierarchical bubble dof of an affine field
            # the prescribed vectors (one row per boundary point) in three memory layouts: C, Fortran, and the transposed
            # view that the natural expression (H X^T)^T produces
            vb = uex[onb]
            if k == 1:
                vb = np.asfortranarray(vb)
            elif k == 2:
                vb = np.ascontiguousarray(vb.T).T
            bounds = {"all": fem.Boundary(field[0], mask=onb, value=vb)}
            dof0, dof1 = fem.dof.partition(field, bounds)
            ext0 = fem.dof.apply(field, bounds, dof0)
            body = fem.SolidBody(um, field)
            res = fem.newtonrhapson(items=[body], dof0=dof0, dof1=dof1, ext0=ext0, verbose=False)
            c.trans += res.iterations
            u = res.x[0].values
            c.close(f"map{k}/displacement", "nodal displacement must be the affine map (F - I) X at every point", u, uex, scale=max(np.abs(uex).max(), 1e-3))
            Fq = res.x.extract()[0]
            Fref = np.eye(3)
            Fref[:d, :d] = F0
            c.close(f"map{k}/F", "deformation gradient must be uniform at every quadrature point", Fq, np.broadcast_to(Fref[:, :, None, None], Fq.shape), scale=1.0)
            # reaction force on one face of the box (boundary objects with and without skipped components, and given by a point
            # mask): all components of P N A, with P the material's stress at the prescribed homogeneous deformation gradient
            if not fam.endswith("mini") and not fam.startswith("lagrange"):
                Pm = np.asarray(um.gradient([np.ascontiguousarray(Fref[:, :, None, None]), None])[0], float)[:, :, 0, 0]
                lo_, hi_ = P.min(0), P.max(0)
                area = float(np.prod([hi_[j] - lo_[j] for j in range(d) if j != 0]))
                onface = np.isclose(P[:, 0], hi_[0])
                refF = Pm[:d, 0] * area
                for blab, bnd in (("skip-none", fem.Boundary(field[0], mask=onface)), ("skip-transversal", fem.Boundary(field[0], mask=onface, skip=(False, True, True)[:d])), ("skip-normal", fem.Boundary(field[0], mask=onface, skip=(True, False, False)[:d]))):
                    fr = np.ravel(fem.tools.force(res.x, res.fun, bnd))[:d]
                    c.trans += 1
                    c.close(f"map{k}/force/{blab}", "tools.force on a face = P N A in ALL components, whatever components the boundary object prescribes", fr, refF, scale=max(np.abs(refF).max(), 0.1))
        return c.result(dict(case=case["key"], points=int(mesh.npoints), interior=int((~onb).sum())))
    if kind in ("uniaxial", "biaxial"):
        fam, mat, n = case["fam"], case["mat"], case["n"]
        d = zoo.BASE[fam][1]
        W = ENERGY(mat)
        um = make_umat(mat)
        finals = {}
        levels = (0.8, 1.2, 1.5)
        for lam in levels:
            # analytic
            if kind == "uniaxial":
                if d == 3:
                    l = solve_free(W, {0: lam}, [1, 2])
                    area = 1.0
                else:
                    l = solve_free(W, {0: lam, 2: 1.0}, [1])
                    area = 1.0
                P11 = dW(W, l, 0)
            else:
                l = solve_free(W, {0: lam, 1: lam}, [2])
                P11 = dW(W, l, 0)
                area = 1.0
            for nsub in (1, 2, 3, 5):
                mesh, region, twin = build(fam, "distorted", seed, n=n)
                Fcls = fem.Field if d == 3 else fem.FieldPlaneStrain
                field = fem.FieldContainer([Fcls(region, dim=d)])
                body = fem.SolidBody(um, field)
                if kind == "uniaxial":
                    bounds, lc = fem.dof.uniaxial(field, clamped=False, move=0.0, axis=0, sym=True)
                    ramp = {bounds["move"]: list(np.linspace(0, lam - 1, nsub + 1)[1:])}
                    bnd = bounds["move"]
                else:
                    bounds, lc = fem.dof.biaxial(field, clampes=(False, False), moves=(0.0, 0.0), sym=True)
                    vals = list(np.linspace(0, lam - 1, nsub + 1)[1:])
                    ramp = {bounds["move-right-0"]: vals, bounds["move-right-1"]: vals}
                    bnd = bounds["move-right-0"]
                step = fem.Step([body], ramp=ramp, boundaries=bounds)
                job = fem.CharacteristicCurve(steps=[step], boundary=bnd)
                job.evaluate(verbose=False)
                c.trans += nsub
                sub = f"lam={lam}/nsub={nsub}"
                if len(job.x) != nsub or len(job.y) != nsub:
                    c.bad(sub + "/points", "one curve point per substep", [len(job.x), len(job.y)], nsub)
                    continue
                ux = np.array(job.x)[:, 0]
                c.close(sub + "/x", "curve abscissa = prescribed displacement of every substep", ux, np.linspace(0, lam - 1, nsub + 1)[1:], scale=1.0, tol=1e-14)
                Fy = np.array(job.y)[-1]
                c.close(sub + "/force", "reaction force = analytic first Piola-Kirchhoff stress x reference area", Fy[0], P11 * area, scale=max(abs(P11), 0.1))
                if d == 3 and kind == "uniaxial":
                    c.close(sub + "/force-transverse", "no transverse reaction on the loaded face", Fy[1:], np.zeros(2), scale=max(abs(P11), 0.1))
                u = job.res.x[0].values
                X = mesh.points
                Fd = np.diag(l[:d]) - np.eye(d)
                uex = X @ Fd.T
                if fam.endswith("mini"):
                    uex[np.unique(mesh.cells[:, -1])] = 0
                c.close(sub + "/displacement", "displacement field = homogeneous deformation with the analytic transverse stretch", u, uex, scale=max(np.abs(uex).max(), 1e-3))
                Fq = job.res.x.extract()[0]
                c.close(sub + "/F", "uniform deformation gradient", Fq, np.broadcast_to(np.diag(l)[:, :, None, None], Fq.shape), scale=1.0)
                finals.setdefault(lam, []).append(u.copy())
        # cyclic histories (loading, partial unloading, back to exactly zero, into compression, two steps): every recorded
        # curve point is the analytic point of ITS substep (elastic materials: no path dependence)
        if kind == "uniaxial":
            # (usex0: the job is evaluated with a separate top-level container x0 that carries the boundaries -- the composite
            #  pattern -- instead of the body's own container)
            # (the last two: small probing increments about a pre-stretch, and a history whose total amplitude is 3e-9 -- the same
            #  specimen in a unit system with a large length unit)
            for (hist, split), usex0 in itertools.product((([0.15, 0.3, 0.15, 0.0, -0.1], None), ([0.2, 0.0, 0.2], 2), ([-0.1, 0.0, 0.0, 0.25], 1),
                                                           ([0.5, 0.500001, 0.500002, 0.500001], None), ([1e-9, 2e-9, 3e-9], None)), (False, True)):
                mesh, region, twin = build(fam, "distorted", seed, n=n)
                Fcls = fem.Field if d == 3 else fem.FieldPlaneStrain
                field = fem.FieldContainer([Fcls(region, dim=d)])
                body = fem.SolidBody(um, field)
                top = fem.FieldContainer([Fcls(region, dim=d)]) if usex0 else field
                bounds, lc = fem.dof.uniaxial(top, clamped=False, move=0.0, axis=0, sym=True)
                parts = [hist] if split is None else [hist[:split], hist[split:]]
                steps = [fem.Step([body], ramp={bounds["move"]: list(pt)}, boundaries=bounds) for pt in parts]
                seen = []

                def cb(j, i, substep, seen=seen):
                    seen.append(substep.x[0].values.copy())

                job = fem.CharacteristicCurve(steps=steps, boundary=bounds["move"], callback=cb)
                job.evaluate(verbose=False, **(dict(x0=top) if usex0 else {}))
                c.trans += len(hist)
                sub = f"cyclic={hist}/split={split}" + ("/x0=separate" if usex0 else "")
                if len(job.x) != len(hist) or len(job.y) != len(hist) or len(seen) != len(hist):
                    c.bad(sub + "/points", "one curve point per substep", [len(job.x), len(job.y), len(seen)], len(hist))
                    continue
                c.close(sub + "/x", "curve abscissa = prescribed displacement of every substep", np.array(job.x)[:, 0], np.array(hist), scale=1.0, tol=1e-14)
                for i, uv in enumerate(hist):
                    lam_i = 1.0 + uv
                    l = solve_free(W, {0: lam_i}, [1, 2]) if d == 3 else solve_free(W, {0: lam_i, 2: 1.0}, [1])
                    P11 = dW(W, l, 0)
                    c.close(sub + f"/force{i}", "recorded force of substep i = analytic stress at the i-th ramp value x area", np.array(job.y)[i][0], P11, scale=max(abs(P11), 0.1))
                    uex = mesh.points @ (np.diag(l[:d]) - np.eye(d)).T
                    if fam.endswith("mini"):
                        uex[np.unique(mesh.cells[:, -1])] = 0
                    c.close(sub + f"/displacement{i}", "displacement field of substep i = homogeneous deformation of the i-th ramp value", seen[i], uex, scale=max(np.abs(uex).max(), 0.1))  # 0.1: amplitude of the history (the zero state carries the Newton tolerance only)
        # a body made of two phases on ONE field (the same material scaled by the item multipliers 0.3 and 0.7): the curve records
        # the force of the items it is given -- all of them by default, the listed ones with items=[...] (each with its factor)
        if kind == "uniaxial" and n == 1:
            lam_p = 1.25
            l = solve_free(W, {0: lam_p}, [1, 2]) if d == 3 else solve_free(W, {0: lam_p, 2: 1.0}, [1])
            P11 = dW(W, l, 0)
            for ilab, sel, fac in (("default", None, 1.0), ("a,b", (0, 1), 1.0), ("b,a", (1, 0), 1.0), ("a", (0,), 0.3), ("b", (1,), 0.7)):
                mesh, region, twin = build(fam, "distorted", seed, n=n)
                Fcls = fem.Field if d == 3 else fem.FieldPlaneStrain
                field = fem.FieldContainer([Fcls(region, dim=d)])
                phases = [fem.SolidBody(um, field, multiplier=0.3), fem.SolidBody(um, field, multiplier=0.7)]
                bounds, lc = fem.dof.uniaxial(field, clamped=False, move=0.0, axis=0, sym=True)
                step = fem.Step(phases, ramp={bounds["move"]: [0.5 * (lam_p - 1), lam_p - 1]}, boundaries=bounds)
                kw_ = {} if sel is None else dict(items=[phases[i] for i in sel])
                job = fem.CharacteristicCurve(steps=[step], boundary=bounds["move"], **kw_)
                job.evaluate(verbose=False)
                c.trans += 2
                c.close(f"phases/items={ilab}/force", "recorded force of a two-phase body (item multipliers 0.3 / 0.7) for the given item list = factor x analytic stress x area", np.array(job.y)[-1][0], fac * P11, scale=max(abs(P11), 0.1))
                uex = mesh.points @ (np.diag(l[:d]) - np.eye(d)).T
                if fam.endswith("mini"):
                    uex[np.unique(mesh.cells[:, -1])] = 0
                c.close(f"phases/items={ilab}/displacement", "displacement field of the two-phase body = homogeneous deformation", job.res.x[0].values, uex, scale=max(np.abs(uex).max(), 1e-3))
        # the condensed (nearly-incompressible) body with the same energy, mu/2 (J^-2/3 I1 - 3) + K/2 (J - 1)^2: created before
        # loading, RE-CREATED on the deformed field between two steps (restart), and created on a field that already holds the
        # exact solution of the first level -- every recorded force and final field is the analytic one
        if kind == "uniaxial" and n == 1 and mat == "NeoHooke":
            for how in ("created-first", "restart", "created-on-solution"):
                mesh, region, twin = build(fam, "distorted", seed, n=n)
                Fcls = fem.Field if d == 3 else fem.FieldPlaneStrain
                field = fem.FieldContainer([Fcls(region, dim=d)])
                lams = (1.2, 1.45)
                sols = [solve_free(W, {0: lm}, [1, 2]) if d == 3 else solve_free(W, {0: lm, 2: 1.0}, [1]) for lm in lams]
                if how == "created-on-solution":
                    field[0].values[:] = mesh.points @ (np.diag(sols[0][:d]) - np.eye(d)).T
                body = fem.SolidBodyNearlyIncompressible(fem.NeoHooke(mu=1.0), field, bulk=5.0)
                bounds, lc = fem.dof.uniaxial(field, clamped=False, move=0.0, axis=0, sym=True)
                for i_, lm in enumerate(lams):
                    if how == "restart" and i_ == 1:
                        body = fem.SolidBodyNearlyIncompressible(fem.NeoHooke(mu=1.0), field, bulk=5.0)
                    step = fem.Step([body], ramp={bounds["move"]: [lm - 1]}, boundaries=bounds)
                    job = fem.CharacteristicCurve(steps=[step], boundary=bounds["move"])
                    job.evaluate(verbose=False)
                    c.trans += 1
                    P11 = dW(W, sols[i_], 0)
                    c.close(f"condensed/{how}/level{i_}/force", "recorded force of the condensed body = analytic stress x area", np.array(job.y)[-1][0], P11, scale=max(abs(P11), 0.1))
                    uex = mesh.points @ (np.diag(sols[i_][:d]) - np.eye(d)).T
                    c.close(f"condensed/{how}/level{i_}/displacement", "displacement field of the condensed body = homogeneous deformation with the analytic transverse stretch", field[0].values, uex, scale=max(np.abs(uex).max(), 1e-3))
        for lam, us in finals.items():
            for k in range(1, len(us)):
                c.close(f"lam={lam}/subdivision-independence/{k}", "final state independent of the ramp subdivision", us[k], us[0], scale=max(np.abs(us[0]).max(), 1e-3))
        return c.result(dict(case=case["key"], levels=list(levels)))
    if kind == "axes":

        fam, mat = case["fam"], case["mat"]
        d = zoo.BASE[fam][1]
        W = ENERGY(mat)
        um = make_umat(mat)
        ext = np.array([1.0, 1.5, 2.0])[:d] if d == 3 else np.array([1.5, 0.75])
        progs = [("uniaxial", (a,), sym) for a in range(d) for sym in (True, False)]
        progs += [("biaxial", ab, sym) for ab in itertools.permutations(range(d), 2) for sym in (True, False)]
        for lc_kind, axes, symall in progs:
            for lams in ((1.3, 0.9), (0.85, 1.2)):
                lams = lams[:len(axes)]
                fixed = {a: l_ for a, l_ in zip(axes, lams)}
                if d == 2:
                    fixed[2] = 1.0
                free = [k for k in range(3) if k not in fixed]
                l = solve_free(W, fixed, free) if free else [fixed[k] for k in range(3)]
                mesh0, _, _ = build(fam, "distorted", seed, n=2)
                mesh = fem.Mesh(mesh0.points * ext, mesh0.cells, mesh0.cell_type)  # (mesh0 is already of family `fam`)
                region = zoo.region(fam, mesh)
                Fcls = fem.Field if d == 3 else fem.FieldPlaneStrain
                field = fem.FieldContainer([Fcls(region, dim=d)])
                body = fem.SolidBody(um, field)
                # two-sided: no symmetry plane on the loaded axes, both end faces move by -/+ move (biaxial) or the left one
                # is held (uniaxial)
                sym = tuple(bool(symall or k not in axes) for k in range(3))
                shift = np.zeros(d)
                if lc_kind == "uniaxial":
                    a = axes[0]
                    mv = [(lams[0] - 1) * ext[a]]
                    bounds, lc = fem.dof.uniaxial(field, clamped=False, move=0.0, axis=a, sym=sym)
                    names = ["move"]
                else:
                    if symall:
                        mv = [(lam_ - 1) * ext[a] for a, lam_ in zip(axes, lams)]
                    else:
                        mv = [(lam_ - 1) * ext[a] / 2 for a, lam_ in zip(axes, lams)]
                        for a, m_ in zip(axes, mv):
                            shift[a] = -m_
                    bounds, lc = fem.dof.biaxial(field, clampes=(False, False), moves=(0.0, 0.0), axes=axes, sym=sym)
                    names = [f"move-right-{a}" for a in axes]
                sub = f"{lc_kind}/axes={axes}/sym={symall}/lam={lams}"
                if any(nm not in bounds for nm in names):
                    c.bad(sub + "/names", "documented boundary names", sorted(bounds), names)
                    continue
                nsub = 2
                ramp = {bounds[nm]: list(np.linspace(0, m_, nsub + 1)[1:]) for nm, m_ in zip(names, mv)}
                if lc_kind == "biaxial" and not symall:
                    for a, m_ in zip(axes, mv):
                        nm = f"move-left-{a}"
                        if nm not in bounds:
                            c.bad(sub + "/names", "documented boundary names", sorted(bounds), nm)
                            continue
                        ramp[bounds[nm]] = list(np.linspace(0, -m_, nsub + 1)[1:])
                step = fem.Step([body], ramp=ramp, boundaries=bounds)
                job = fem.CharacteristicCurve(steps=[step], boundary=bounds[names[0]])
                try:
                    job.evaluate(verbose=False)
                except Exception as ex:  # noqa
                    c.bad(sub + "/exception", "load case on a box along the given axes must solve", repr(ex)[:200], "solution")
                    continue
                c.trans += nsub
                c.outcomes.add(f"{lc_kind}/{len(axes)}/{'sym' if symall else 'two-sided'}")
                X = mesh.points
                uex = X @ (np.diag(l[:d]) - np.eye(d)).T + shift
                u = job.res.x[0].values
                c.close(sub + "/displacement", "displacement field = homogeneous deformation with the analytic transverse stretch", u, uex, scale=max(np.abs(uex).max(), 1e-3))
                Fq = job.res.x.extract()[0]
                c.close(sub + "/F", "uniform deformation gradient", Fq, np.broadcast_to(np.diag(l)[:, :, None, None], Fq.shape), scale=1.0)
                # reaction forces on every moved face: first Piola-Kirchhoff stress x reference area
                for a, nm in zip(axes, names):
                    Paa = dW(W, l, a)
                    area = float(np.prod([ext[k] for k in range(d) if k != a]))
                    fr = fem.tools.force(job.res.x, job.res.fun, bounds[nm])
                    ref = np.zeros(d)
                    ref[a] = Paa * area
                    c.close(sub + f"/force/{nm}", "reaction force on the moved face = analytic first Piola-Kirchhoff stress x reference area", np.ravel(fr)[:d], ref, scale=max(abs(Paa * area), 0.1))
                Fy = np.ravel(np.array(job.y)[-1])
                a0 = axes[0]
                c.close(sub + "/curve-force", "characteristic curve force = analytic stress x area", Fy[a0], dW(W, l, a0) * float(np.prod([ext[k] for k in range(d) if k != a0])), scale=max(abs(dW(W, l, a0)), 0.1))
        return c.result(dict(case=case["key"], programs=len(progs), extents=ext.tolist()))
    if kind == "view":
        mat = case["mat"]
        inc = mat.endswith("-incompressible")
        lam = np.array([0.7, 0.85, 1.0, 1.3, 1.8, 2.4])
        lamp = np.array([1.0, 1.2, 1.7, 2.3])
        if inc:
            import felupe.constitution as C

            base = mat.split("-")[0]
            kw = {"neo_hooke": dict(mu=1.0), "mooney_rivlin": dict(C10=0.4, C01=0.2), "yeoh": dict(C10=0.5, C20=-0.05, C30=0.02), "ogden": dict(mu=[1.0, 0.2], alpha=[1.7, -1.5])}[base]
            um = fem.Hyperelastic(getattr(C, base), **kw)
            Wk = {"neo_hooke": "NeoHooke", "mooney_rivlin": "mooney_rivlin", "yeoh": "yeoh", "ogden": "ogden"}[base]
            Wfull = ENERGY(Wk)
            # isochoric part only: subtract the checker's volumetric term (J = 1 on the incompressible paths anyway)
            W = lambda a, b, c_: Wfull(a, b, c_) - 5.0 / 2 * (a * b * c_ - 1) ** 2  # noqa
            view = um.view(incompressible=True, ux=lam, ps=lamp, bx=lamp)
            data = view.evaluate()
            c.trans += 3
            for (st, force, label), path in zip(data, ("ux", "ps", "bx")):
                ref = []
                for s in st:
                    l = {"ux": [s, s**-0.5, s**-0.5], "ps": [s, 1.0, 1 / s], "bx": [s, s, s**-2]}[path]
                    ref.append(dW(W, l, 0) - l[2] / l[0] * dW(W, l, 2))
                c.close(f"{path}", f"incompressible view curve '{label}' vs the closed form dW/dl1 - l3/l1 dW/dl3", force, np.array(ref), scale=max(np.abs(ref).max(), 0.1))
        else:
            um = make_umat(mat)
            W = ENERGY(mat)
            view = um.view(ux=lam, ps=lamp, bx=lamp)
            data = view.evaluate()
            c.trans += 3
            for (st, force, label), path in zip(data, ("ux", "ps", "bx")):
                ref = []
                for s in st:
                    if path == "ux":
                        l = solve_free(W, {0: s}, [1, 2])
                    elif path == "ps":
                        l = solve_free(W, {0: s, 1: 1.0}, [2])
                    else:
                        l = solve_free(W, {0: s, 1: s}, [2])
                    ref.append(dW(W, l, 0))
                c.close(f"{path}", f"view curve '{label}' vs the closed form (transverse stress free)", force, np.array(ref), scale=(max(np.abs(ref).max(), 0.1) if "@" not in mat else np.abs(ref).max()))
        # the same stretches handed over as integer arrays / lists (np.arange(1, 4), [1, 2, 3]): the curves are those of the
        # float array with the same values
        if "@" not in mat:
            kwv = dict(incompressible=True) if inc else {}
            ref_data = um.view(ux=np.array([1.0, 2.0, 3.0]), ps=np.array([1.0, 2.0, 3.0]), bx=np.array([1.0, 2.0]), **kwv).evaluate()
            for tlab, conv in (("int64", lambda a: np.array(a, dtype=np.int64)), ("int32", lambda a: np.array(a, dtype=np.int32))):  # (plain lists are not accepted by the view: documented as ndarray)
                try:
                    got_data = um.view(ux=conv([1, 2, 3]), ps=conv([1, 2, 3]), bx=conv([1, 2]), **kwv).evaluate()
                except Exception as ex:  # noqa
                    c.bad(f"stretch-type/{tlab}/exception", "view raised for stretches given as integers", repr(ex)[:160], "curves")
                    continue
                c.trans += 3
                for (st_r, f_r, lab_r), (st_g, f_g, lab_g), path in zip(ref_data, got_data, ("ux", "ps", "bx")):
                    c.close(f"stretch-type/{tlab}/{path}", f"view curve '{lab_r}' for integer-typed stretches vs the same stretches as floats", np.asarray(f_g, dtype=float), np.asarray(f_r, dtype=float), scale=max(np.abs(np.asarray(f_r, dtype=float)).max(), 0.1))
        return c.result(dict(case=case["key"], stretches=lam.tolist()))
    if kind == "view-soft":
        from scipy.optimize import brentq

        name, par = case["mat"].split(":")
        val = float(par.split("=")[1])
        if name == "NeoHooke":
            um = fem.NeoHooke(mu=1.0, bulk=val)
            W = lambda a, b, c_: 0.5 * ((a * b * c_) ** (-2 / 3) * (a * a + b * b + c_ * c_) - 3) + val / 2 * (a * b * c_ - 1) ** 2  # noqa
        else:
            um = fem.NeoHookeCompressible(mu=1.0, lmbda=val)
            W = lambda a, b, c_: 0.5 * (a * a + b * b + c_ * c_) - np.log(a * b * c_) + val / 2 * np.log(a * b * c_) ** 2  # noqa
        for num in (15, 60):
            lam = np.linspace(1.0, case["top"], num)
            data = um.view(ux=lam, ps=lam, bx=lam).evaluate()
            c.trans += 3
            for (st, force, label), path in zip(data, ("ux", "ps", "bx")):
                force = np.asarray(force, float)
                worst, wl = 0.0, None
                for s_, f_ in zip(st, force):
                    # ALL admissible free stretches (roots of the zero-stress condition on a wide bracket): the reported
                    # force must belong to one of them (a soft material may have more than one)
                    lam_of = {"ux": lambda t: [s_, t, t], "ps": lambda t: [s_, 1.0, t], "bx": lambda t: [s_, s_, t]}[path]
                    g = lambda t: dW(W, lam_of(t), 2, h=1e-5 * t)  # noqa
                    ts = np.geomspace(1e-3, 30.0, 400)
                    gv = np.array([g(t) for t in ts])
                    roots = [brentq(g, ts[i], ts[i + 1], xtol=1e-14, rtol=1e-13) for i in range(len(ts) - 1) if gv[i] * gv[i + 1] < 0]
                    cands = [dW(W, lam_of(t), 0, h=1e-5) for t in roots]
                    if not cands:
                        c.notes.append(f"{path} stretch {s_}: no root found by the checker")
                        continue
                    e_ = min(abs(f_ - cd) for cd in cands) / max(max(abs(cd) for cd in cands), 0.1)
                    if e_ > worst:
                        worst, wl = e_, (float(s_), float(f_), [float(cd) for cd in cands])
                c.traces += 1
                if worst > 1e-5:
                    c.bad(f"{path}/num={num}", f"view curve '{label}' of a strongly compressible material: force vs dW/dl1 at a free lateral stretch with zero transverse stress", dict(rel_err=worst, stretch=wl[0], got=wl[1], admissible=wl[2]), 0, 1e-5)
                else:
                    c.nontrivial.append(f"{path}/num={num}")
        return c.result(dict(case=case["key"]))
    if kind == "view-history":
        import felupe.constitution as C

        mat = case["mat"]
        inc = mat.endswith("-incompressible")
        if mat == "OgdenRoxburgh":
            mk = lambda: fem.OgdenRoxburgh(fem.NeoHooke(mu=1.0, bulk=5.0), r=3.0, m=1.0, beta=0.1)  # noqa
            base = fem.NeoHooke(mu=1.0, bulk=5.0)
        elif inc:
            mk = lambda: fem.Hyperelastic(C.ogden_roxburgh, material=C.neo_hooke, r=3.0, m=1.0, beta=0.1, mu=1.0, nstatevars=1)  # noqa
            base = fem.Hyperelastic(C.neo_hooke, mu=1.0)
        else:
            mk = lambda: fem.Hyperelastic(C.finite_strain_viscoelastic, mu=1.0, eta=1.0, dtime=1.0, nstatevars=6) & C.Volumetric(bulk=5.0)  # noqa
            base = None
        paths = {"ux": np.array([1.0, 1.3, 1.8, 1.2, 1.0, 2.2]), "ps": np.array([1.0, 1.2, 1.7, 1.1, 1.9]), "bx": np.array([1.0, 1.15, 1.5, 1.05, 1.6])}
        names = list(paths)
        single = {}
        for nm in names:  # reference: the load case evaluated alone on a fresh material
            kw = {k: (paths[k] if k == nm else None) for k in names}
            single[nm] = np.asarray(mk().view(incompressible=inc, **kw).evaluate()[0][1], float)
            c.trans += 1
        for r_ in (2, 3):
            for sub in itertools.combinations(names, r_):
                kw = {k: (paths[k] if k in sub else None) for k in names}
                view = mk().view(incompressible=inc, **kw)
                for rep in ("first", "second"):
                    data = view.evaluate()
                    c.trans += 1
                    if len(data) != len(sub):
                        c.bad(f"cases={'+'.join(sub)}/{rep}/count", "one curve per requested load case", len(data), len(sub))
                        continue
                    for nm, (st, force, label) in zip(sub, data):
                        c.close(f"cases={'+'.join(sub)}/{rep}/{nm}", f"curve '{label}' of a history-dependent material evaluated together with other load cases (every load case starts from the initial state) vs the same load case evaluated alone", np.asarray(force, float), single[nm], scale=max(np.abs(single[nm]).max(), 0.1))
        if base is not None:
            # primary loading: monotone stretches from the virgin state retrace the base material
            mono = {"ux": np.array([1.0, 1.2, 1.6, 2.1]), "ps": np.array([1.0, 1.3, 1.8]), "bx": np.array([1.0, 1.2, 1.5])}
            da = mk().view(incompressible=inc, **mono).evaluate()
            db = base.view(incompressible=inc, **mono).evaluate()
            c.trans += 2
            for nm, a_, b_ in zip(names, da, db):
                c.close(f"primary/{nm}", "pseudo-elastic material on its primary loading path vs its base material", np.asarray(a_[1], float), np.asarray(b_[1], float), scale=max(np.abs(np.asarray(b_[1])).max(), 0.1))
        return c.result(dict(case=case["key"], paths={k: v.tolist() for k, v in paths.items()}))
    raise ValueError(kind)
