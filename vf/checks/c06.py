"""C06 Regions measure geometry and differentiate fields exactly where theory says so.

Interpolation / gradient / hessian are linear in the nodal values, so enumerating EVERY monomial
of the reproducible space as nodal data decides reproduction for all polynomials on the given
mesh.  Meshes come from the zoo (reference, block, distorted, affine, curved, renumbered,
trailing point, anisotropic box).  The oracle evaluates the monomial analytically at the
physical quadrature points x_q, which the checker computes itself from the element's shape
functions (C04-decided) with numpy.linalg -- never from the region's own arrays.
"""

import itertools
import warnings

import numpy as np

from .. import zoo
from .c04 import space_monomials

ID = "C06"
RULE = (
    "case = (region template, zoo member); inside a case: sum/positivity of dV against the analytic "
    "volume and against the checker's own high-order integration of det J; invariance of dV under "
    "rigid motions (24 cube rotations / 4 planar rotations + generic, translated); exactly one "
    "warning naming exactly the flipped cell; for EVERY monomial of the reproducible space (full "
    "element space on axis-parallel cells, total degree <= order on affine cells, degree <= 1 on "
    "distorted/curved cells) value, gradient and hessian at every quadrature point of every cell "
    "for Field (all monomials batched and per-dim vector fields), FieldPlaneStrain, "
    "FieldAxisymmetric (hoop term u_r/R) and FieldContainer.extract; uniform=True path vs general; "
    "float32 copy; dual/constant regions through FieldDual; exactness of the default rule for "
    "products of shape-function gradients on affine cells. Non-trivial = (case, path, monomial) "
    "comparisons whose analytic reference is not identically zero."
)
ASSUMPTIONS = [
    "x_q and the reference Jacobians are computed by the checker from element.function/gradient (decided by C04) with numpy.linalg.",
    "MINI templates: the bubble dof is hierarchical (an affine function has vertex values c + g.X_a and bubble value 0) and the cell geometry is the affine map of the vertices, so that dV and gradients are invariant under rigid motion as the property demands.",
    "Curved tet10 cells and curved 3D Lagrange cells of order >= 3 are excluded from the volume clause only (det J has a higher degree than the template's rule integrates: C09's statement restricts tet10 to straight edges); all other clauses are judged on them.",
    "The tetrahedron order-2 table carries 8 digits: the gradient-product clause is judged at 1e-7 for tet10.",
    "A dual (pressure/volume-ratio) region interpolates in the reference cell with the primary cell's first nodes; on curved primary cells its geometry differs from the primary one by construction, so polynomials of degree >= 1 are demanded from dual regions on straight-sided cells only.",
    "float32 copies are compared at 2e-5 relative.",
    "Tolerance 1e-9 * (1 + max|reference|) for float64 comparisons (measured floor 1e-13).",
]
TOL = 1e-9


def BOUNDS(tier):
    return {"zoo_members": "ref, block, distorted, affine, renum, extra, (curved), (strip, aniso in thorough)",
            "lagrange": "dim 2 orders 2..4; dim 3 orders 2..3 (4 in thorough)",
            "rigid_motions": "24 cube rotations + 2 generic (thorough) / 5 + 1 (quick)", "length_units": "x 1e-3, x 1e3 (distorted member)",
            "refresh_histories": "depth 2 over 3 in-place point changes x 7 refresh forms (reload / copy / update callback / hess)", "lagrange_not_permuted": "orders 2..3"}


HESS_KINDS = ("line", "quad", "quad8", "hexahedron", "triangle", "triangle-mini", "tetra", "tetra-mini")
ELEMENT_SPACE = {
    "line": ("Q", 1), "quad": ("Q", 1), "quad8": ("S", 2), "quad9": ("Q", 2), "hexahedron": ("Q", 1),
    "hexahedron20": ("S", 2), "hexahedron27": ("Q", 2), "triangle": ("P", 1), "triangle6": ("P", 2),
    "triangle-mini": ("P", 1), "tetra": ("P", 1), "tetra10": ("P", 2), "tetra-mini": ("P", 1),
}
SIMPLEX = ("triangle", "triangle6", "triangle-mini", "tetra", "tetra10", "tetra-mini")
AXISPAR = ("ref", "block", "strip", "aniso")


def plan(tier, seed):
    cases = []
    for kind in zoo.BASE:
        mem = zoo.members(kind, tier) + ["extra"]
        for m in mem:
            cases.append(dict(key=f"{kind}/{m}", kind=kind, member=m, seed=seed, tier=tier, cost={"hexahedron27": 30, "hexahedron20": 20, "tetra10": 15}.get(kind, 3)))
    for dim, orders in ((2, (2, 3, 4)), (3, (2, 3, 4) if tier == "thorough" else (2, 3))):
        for order in orders:
            for m in ("ref", "affine", "curved"):
                cases.append(dict(key=f"lagrange{dim}o{order}/{m}", kind=f"lagrange{dim}o{order}", member=m, seed=seed, tier=tier, cost=order ** (2 * dim) / 4))
            # not permuted (cell connectivity in lexicographic point order, RegionLagrange(permute=False))
            if order <= 3:
                for m in ("ref", "curved"):
                    cases.append(dict(key=f"lagrange{dim}o{order}n/{m}", kind=f"lagrange{dim}o{order}n", member=m, seed=seed, tier=tier, cost=order ** (2 * dim) / 4))
    # histories on one long-lived region: (change the mesh points in place) x (refresh the region) sequences
    for kind in ("quad", "hexahedron", "triangle", "tetra10", "quad9") + (("hexahedron20", "tetra", "quad8") if tier == "thorough" else ()):
        cases.append(dict(key=f"history/{kind}", kind=kind, member="distorted", op="history", seed=seed, tier=tier, cost=8))
    cases.append(dict(key="history/dual-fields", kind="quad", member="distorted", op="dual-history", seed=seed, tier=tier, cost=3))
    return cases


def run_dual_history(case):
    """default dual fields (FieldsMixed / FieldDual without disconnect=) must live on the same dual mesh whatever was
    constructed before: every ordered pair over {default, disconnect=True, disconnect=False} x {FieldsMixed, FieldDual} per
    region template; the dual interpolation of cell-wise data is checked through the dual mesh (points, cells)"""
    import itertools

    import felupe as fem

    key, seed = case["key"], case["seed"]
    viol, nontrivial = [], []
    ntrans = 0
    for kind in ("quad", "quad9", "hexahedron", "hexahedron27", "triangle6", "tetra10"):
        mesh = zoo.make(kind, "block", seed)
        region = zoo.region(kind, mesh)

        def build(how, disc):
            kw = {} if disc is None else dict(disconnect=disc)
            if how == "FieldsMixed":
                return fem.FieldsMixed(region, n=2, **kw).fields[1]
            return fem.FieldDual(region, **kw)

        def sig(f):
            m = f.region.mesh
            return (int(m.npoints), m.cells.shape, m.cells.tobytes(), np.round(m.points, 12).tobytes())

        try:
            ref = {how: sig(build(how, None)) for how in ("FieldsMixed", "FieldDual")}
        except Exception as ex:  # noqa
            viol.append(dict(key=f"{key}/{kind}/exception", what="default dual field raised", observed=repr(ex)[:120], expected="a field", tol=0))
            continue
        ops = [(how, disc) for how in ("FieldsMixed", "FieldDual") for disc in (None, True, False)]
        for first, second in itertools.product(ops, [("FieldsMixed", None), ("FieldDual", None)]):
            try:
                build(*first)
            except Exception:  # noqa (an option a template does not support is not part of the history)
                continue
            got = sig(build(*second))
            ntrans += 2
            lab = f"{kind}/{first[0]}(disconnect={first[1]}) then default {second[0]}"
            if got != ref[second[0]]:
                viol.append(dict(key=f"{key}/{lab}", what="a default dual field created after another dual field lives on another dual mesh than the first default one (points / connectivity)", observed=[got[0], list(got[1])], expected=[ref[second[0]][0], list(ref[second[0]][1])], tol=0))
            nontrivial.append(lab)
    return dict(viol=viol, states=len(nontrivial), transitions=ntrans, traces=len(nontrivial), nontrivial=nontrivial, outcomes=[f"dual-histories={len(nontrivial)}"], sample=dict(case=key), digest=f"{len(nontrivial)}/{len(viol)}")


def run_history(case):
    """every sequence (depth 2) over {affine map, rigid rotation, translation of the mesh points, applied in place} x
    {reload(), reload(mesh), copy(), copy(mesh), mesh.update(points, callback=region.reload), reload(hess=True)}: after
    each step the refreshed region must equal a region created from scratch on the current mesh"""
    import itertools

    import felupe as fem

    kind, seed, key = case["kind"], case["seed"], case["key"]
    viol, nontrivial = [], []
    cnt = dict(trans=0, traces=0)
    base = zoo.make(kind, "distorted", seed)
    d = base.dim
    A = np.eye(d) + 0.25 * zoo.offarr(seed, 77, (d, d))
    Q = zoo.rot2(0.6) if d == 2 else zoo.generic_rotations(seed, 1)[0]
    changes = [("affine", lambda P: P @ A.T + 0.1), ("rotate", lambda P: P @ Q.T), ("translate", lambda P: P + 0.35)]
    refresh = ["reload()", "reload(mesh)", "copy()", "copy(mesh)", "update(callback=reload)", "reload(hess=True)", "points[:]=;reload()"]
    if kind in ("quad", "hexahedron"):  # (extrapolation needs as many quadrature points as cell points: linear families)
        # (another user of the region's element object in between: tools.extrapolate builds a helper region on it)
        refresh += ["extrapolate;reload(mesh)", "extrapolate;copy()"]

    def fresh(mesh, hess):
        return zoo.region(kind, fem.Mesh(mesh.points.copy(), mesh.cells.copy(), mesh.cell_type), **(dict(hess=True) if hess else {}))

    for seq in itertools.product(range(len(changes) * len(refresh)), repeat=2):
        mesh = fem.Mesh(base.points.copy(), base.cells.copy(), base.cell_type)
        region = zoo.region(kind, mesh)
        lab = []
        parents = []  # regions a copy was taken from: (region, snapshot of its mesh points, its dV) -- they stay what they were
        for k in seq:
            (cn, cf), rf = changes[k // len(refresh)], refresh[k % len(refresh)]
            lab.append(f"{cn}+{rf}")
            newp = cf(mesh.points)
            hess = False
            if rf.startswith("extrapolate;"):
                fem.tools.extrapolate(np.ones((2,) + region.dV.shape), region)
                rf = rf.split(";")[1]
            if rf == "update(callback=reload)":
                mesh.update(points=newp, callback=region.reload)
                got = region
            elif rf == "points[:]=;reload()":
                mesh.points[:] = newp
                region.reload()
                got = region
            else:
                mesh.update(points=newp)
                if rf == "reload()":
                    region.reload()
                    got = region
                elif rf == "reload(mesh)":
                    region.reload(mesh)
                    got = region
                elif rf == "copy()":
                    got = region.copy()
                    parents.append((region, region.mesh.points.copy(), np.array(region.dV, copy=True)))
                    region = got
                    mesh = region.mesh  # a copy owns a (deep) copy of its mesh: later changes go to that one
                elif rf == "copy(mesh)":
                    got = region.copy(mesh)
                    region = got
                elif hasattr(region.element, "hessian"):
                    region.reload(hess=True)
                    got, hess = region, True
                else:
                    region.reload(grad=True)
                    got = region
            cnt["trans"] += 1
            ref = fresh(mesh, hess)
            sub = "seq=" + " > ".join(lab)
            ok = True
            for name in ("dV", "dhdX", "h") + (("d2hdXdX",) if hess else ()):
                a, b = np.asarray(getattr(got, name)), np.asarray(getattr(ref, name))
                cnt["traces"] += 1
                if a.shape != b.shape or np.abs(a - b).max() > 1e-12 * max(np.abs(b).max(), 1e-300):
                    viol.append(dict(key=f"{key}/{sub}/{name}", what=f"region.{name} after changing the mesh points and refreshing the region differs from a region created on the current mesh", observed=float(np.abs(a - b).max()) if a.shape == b.shape else list(a.shape), expected=0, tol=1e-12))
                    ok = False
            for pi_, (preg, psnap, pdV) in enumerate(parents):
                cnt["traces"] += 1
                if not np.array_equal(preg.mesh.points, psnap) or not np.array_equal(np.asarray(preg.dV), pdV):
                    viol.append(dict(key=f"{key}/{sub}/parent{pi_}", what="the region a copy was taken from changed (its mesh points or its dV) when the COPY's mesh was modified / the copy was refreshed", observed=float(np.abs(preg.mesh.points - psnap).max()), expected=0, tol=0))
                    ok = False
            if not ok:
                break
        else:
            nontrivial.append(sub)
        if len(viol) > 40:
            break
    return dict(viol=viol, states=len(nontrivial), transitions=cnt["trans"], traces=cnt["traces"], nontrivial=nontrivial, outcomes=[f"sequences={len(nontrivial)}"],
                sample=dict(case=key, alphabet=len(changes) * len(refresh)), digest=f"{cnt['traces']}/{len(viol)}")


def own_geometry(element, rpts, X, cells):
    h = np.array([np.asarray(element.function(q), float) for q in rpts]).T  # a,q
    dh = np.array([np.asarray(element.gradient(q), float) for q in rpts]).transpose(1, 2, 0)  # a,J,q
    if type(element).__name__.endswith("MINI"):
        # the geometry of a bubble-enriched cell is the affine map of its vertices
        nv = h.shape[0] - 1
        h, dh, cells = h[:nv], dh[:nv], cells[:, :nv]
    Xc = X[cells]  # c,a,I
    xq = np.einsum("caI,aq->Iqc", Xc, h)
    dXdr = np.einsum("caI,aJq->qcIJ", Xc, dh)
    return h, dh, xq, dXdr


def mono(exps, x):
    """value, gradient, hessian of prod x_k^e_k at points x (dim, ...)"""
    dim = len(exps)

    def pw(k, e):
        return x[k] ** e if e >= 0 else np.zeros_like(x[0])

    def term(ee):
        c = 1.0
        v = np.ones_like(x[0])
        for k, e in enumerate(ee):
            v = v * (x[k] ** e)
        return v

    val = term(exps)
    grad = np.zeros((dim,) + x[0].shape)
    hess = np.zeros((dim, dim) + x[0].shape)
    for j in range(dim):
        if exps[j] >= 1:
            e1 = list(exps)
            e1[j] -= 1
            grad[j] = exps[j] * term(e1)
            for k in range(dim):
                if e1[k] >= 1:
                    e2 = list(e1)
                    e2[k] -= 1
                    hess[j, k] = exps[j] * e1[k] * term(e2)
    return val, grad, hess


def repro_space(kind, member):
    if kind.startswith("lagrange"):
        dim, order = int(kind[8]), int(kind[10:].rstrip("n"))
        if member == "ref":
            return space_monomials("Q", order, dim)
        if member == "affine":
            return space_monomials("P", order, dim)
        return space_monomials("P", 1, dim)
    sk, order = ELEMENT_SPACE[kind]
    dim = zoo.BASE[kind][1]
    if kind.endswith("mini"):
        return space_monomials("P", 1, dim)
    if kind in SIMPLEX:
        return space_monomials("P", order if member != "curved" else 1, dim)
    if member in AXISPAR:
        return space_monomials(sk, order, dim)
    if member == "affine":
        return space_monomials("P", order, dim)
    return space_monomials("P", 1, dim)


def nodal_values(kind, mesh, exps_list):
    """(npoints, nm) nodal values sampling the monomials (hierarchical for MINI bubble nodes)."""
    X = mesh.points
    V = np.stack([mono(e, X.T)[0] for e in exps_list], axis=1)
    if kind.endswith("mini"):
        nvert = mesh.cells.shape[1] - 1
        bub = np.unique(mesh.cells[:, -1])
        V[bub, :] = 0.0  # hierarchical bubble dof: an affine function lives on the vertex functions only
    return V


def get_mesh(case):
    kind, member, seed = case["kind"], case["member"], case["seed"]
    if kind.startswith("lagrange"):
        return zoo.lagrange_mesh(int(kind[8]), int(kind[10:].rstrip("n")), member, seed, permute=not kind.endswith("n"))
    return zoo.make(kind, member, seed)


def run(case):
    import felupe as fem

    if case.get("op") == "history":
        return run_history(case)
    if case.get("op") == "dual-history":
        return run_dual_history(case)
    kind, member, seed, tier = case["kind"], case["member"], case["seed"], case["tier"]
    key = case["key"]
    viol, nontrivial, outcomes = [], [], set()
    cnt = dict(trans=0, traces=0)

    def bad(sub, what, obs, exp, tol=TOL):
        viol.append(dict(key=f"{key}/{sub}", what=what, observed=obs, expected=exp, tol=tol))

    def cmp(sub, what, got, ref, tol=TOL, nt=True):
        got = np.asarray(got)
        ref = np.asarray(ref)
        cnt["traces"] += 1
        if got.shape != ref.shape:
            bad(sub, what + " (shape)", list(got.shape), list(ref.shape))
            return
        scale = 1 + np.abs(ref).max() if ref.size else 1
        err = np.abs(got - ref).max() / scale if ref.size else 0
        if nt and ref.size and np.abs(ref).max() > 1e-12:
            nontrivial.append(sub)
        if not np.isfinite(err) or err > tol:
            idx = np.unravel_index(np.nanargmax(np.abs(got - ref)), ref.shape) if np.isfinite(err) else None
            bad(sub, what, dict(max_rel_err=float(err), at=[int(i) for i in idx] if idx is not None else None,
                                got=float(got[idx]) if idx is not None else None, ref=float(ref[idx]) if idx is not None else None), "equal", tol)

    mesh = get_mesh(case)
    dim = mesh.dim
    has_hess = kind in HESS_KINDS
    with warnings.catch_warnings(record=True) as wlist:
        warnings.simplefilter("always")
        region = zoo.region(kind, mesh, hess=has_hess) if has_hess else zoo.region(kind, mesh)
    cnt["trans"] += 1
    if [w for w in wlist if issubclass(w.category, UserWarning)]:
        bad("warning", "warning on a valid mesh", [str(w.message)[:80] for w in wlist], "no warning")
    el, quad = region.element, region.quadrature
    cells = region.mesh.cells
    X = region.mesh.points
    nq, nc = quad.npoints, len(cells)
    h, dh, xq, dXdr = own_geometry(el, quad.points, X, cells)
    detJ = np.linalg.det(dXdr)  # q,c
    dV_ref = detJ * np.asarray(quad.weights)[:, None]

    # ---- geometry: dV
    cmp("dV", "differential volumes vs det(dX/dr) * w (numpy.linalg)", region.dV, dV_ref)
    if not (np.asarray(region.dV) > 0).all():
        bad("dV>0", "non-positive differential volume on a valid mesh", float(np.min(region.dV)), "> 0")
    # analytic volume
    vol = float(np.sum(region.dV))
    base = zoo.make(kind, "aniso" if member == "aniso" else "ref", seed) if not kind.startswith("lagrange") else None
    if kind.startswith("lagrange"):
        boxvol = 1.0
    else:
        ext = base.points.max(0) - base.points.min(0)
        boxvol = float(np.prod(ext))
    if member == "affine":
        expected = boxvol * np.linalg.det(zoo.affine_matrix(dim, seed))
    elif member == "curved":
        expected = None
    else:
        expected = boxvol
    if expected is not None:
        cmp("volume", "sum of dV vs analytic volume of the meshed domain", vol, expected, tol=1e-10)
    # own high-order integration of det J (Gauss-Legendre order+3 on cubes; order-5 simplex rules)
    if kind in SIMPLEX:
        hq = fem.quadrature.Triangle(order=5) if dim == 2 else fem.quadrature.Tetrahedron(order=5)
    else:
        order_el = int(kind[10:].rstrip("n")) if kind.startswith("lagrange") else ELEMENT_SPACE[kind][1]
        hq = fem.quadrature.GaussLegendre(order=order_el + 3, dim=dim)
    _, dh_h, _, dXdr_h = own_geometry(el, hq.points, X, cells)
    vol_h = float((np.linalg.det(dXdr_h) * np.asarray(hq.weights)[:, None]).sum())
    rule_cannot = (kind == "tetra10" and member == "curved") or (kind.startswith("lagrange3") and int(kind[10:].rstrip("n")) >= 3 and member == "curved")
    if not rule_cannot:
        cmp("volume_highorder", "sum of dV vs the checker's high-order integral of det J", vol, vol_h, tol=1e-10)
    outcomes.add("vol=%.6f" % vol)

    # ---- length units: the same (distorted) body in millimetres / kilometres (members "mm", "km" of the zoo)
    if member == "distorted" and not kind.startswith("lagrange"):
        for unit, sc in (("mm", 1e-3), ("km", 1e3)):
            ms = zoo.make(kind, unit, seed)
            with warnings.catch_warnings(record=True) as wl:
                warnings.simplefilter("always")
                rs = zoo.region(kind, ms, hess=True) if has_hess else zoo.region(kind, ms)
            cnt["trans"] += 1
            if [w for w in wl if issubclass(w.category, UserWarning)]:
                bad(f"units/{unit}/warning", "warning on a valid mesh (scaled)", [str(w.message)[:80] for w in wl], "no warning")
            cmp(f"units/{unit}/dV", "dV of the body scaled by s = s^dim x dV", np.asarray(rs.dV) / sc**dim, region.dV, tol=1e-11)
            cmp(f"units/{unit}/dhdX", "dh/dX of the body scaled by s = (dh/dX) / s", np.asarray(rs.dhdX) * sc, region.dhdX, tol=1e-11)
            if has_hess:
                cmp(f"units/{unit}/d2hdXdX", "d2h/dXdX of the body scaled by s = (d2h/dXdX) / s^2", np.asarray(rs.d2hdXdX) * sc**2, region.d2hdXdX, tol=1e-10)

    # ---- rigid motion invariance
    if dim == 3:
        rots = zoo.cube_rotations()
        rots = (rots if tier == "thorough" else rots[1:6]) + zoo.generic_rotations(seed, 2 if tier == "thorough" else 1)
    elif dim == 2:
        rots = [zoo.rot2(a) for a in (np.pi / 2, np.pi, 3 * np.pi / 2, 0.3 + zoo.offs(seed, 5))]
    else:
        rots = [np.eye(1)]
    shift = 0.7 + zoo.offvec(seed, 21, dim)
    for ir, Q in enumerate(rots):
        m2 = fem.Mesh(X @ Q.T + shift, cells, region.mesh.cell_type)
        with warnings.catch_warnings(record=True) as wl:
            warnings.simplefilter("always")
            r2 = region.copy(mesh=m2) if False else type(region)(m2, **_rk(kind, has_hess=False))
        cnt["trans"] += 1
        if [w for w in wl if issubclass(w.category, UserWarning)]:
            bad(f"rigid/{ir}/warning", "warning after a rigid motion", "warning", "none")
        cmp(f"rigid/{ir}", "dV after rigid motion", r2.dV, region.dV, tol=1e-11, nt=False)

    # ---- wrongly oriented cell: exactly one warning naming exactly that cell
    if member in ("ref", "block") and not kind.startswith("lagrange"):
        m1 = zoo.make(kind, "ref", seed)
        c1 = m1.cells
        p1 = m1.points
        pm = p1.copy()
        pm[:, 0] = -pm[:, 0] - 3.0  # mirrored copy: every cell of it is wrongly oriented
        # (in three length units: the report must not depend on the absolute size of the negative volumes)
        for unit, sc in (("", 1.0), ("/mm", 1e-3), ("/um", 1e-6), ("/km", 1e3)):
            mm = fem.Mesh(np.vstack([p1, pm]) * sc, np.vstack([c1, c1 + len(p1)]), m1.cell_type)
            with warnings.catch_warnings(record=True) as wl:
                warnings.simplefilter("always")
                rneg = zoo.region(kind, mm)
            cnt["trans"] += 1
            wl = [w for w in wl if issubclass(w.category, UserWarning)]
            flipped = list(range(len(c1), 2 * len(c1)))
            if len(wl) != 1:
                bad(f"orientation{unit}/warning", "number of warnings for a mesh with wrongly oriented cells", len(wl), 1)
            else:
                import re

                msg = str(wl[0].message)
                named = [int(t) for t in re.findall(r"\d+", msg.split("Try")[0])]
                if named != flipped:
                    bad(f"orientation{unit}/cells", "cells named by the negative-volume warning", named, flipped)
            neg = np.where((np.asarray(rneg.dV) < 0).all(0))[0].tolist()
            if neg != flipped:
                bad(f"orientation{unit}/dV", "cells with negative dV", neg, flipped)
            nontrivial.append(f"orientation{unit}")

    # ---- polynomial reproduction
    exps = repro_space(kind, member)
    vals = nodal_values(kind, region.mesh, exps)
    ref_val = np.stack([mono(e, xq)[0] for e in exps])  # m,q,c
    ref_grad = np.stack([mono(e, xq)[1] for e in exps])  # m,J,q,c
    ref_hess = np.stack([mono(e, xq)[2] for e in exps])  # m,J,K,q,c

    def reproduce(tag, reg, tol=TOL, dtype=None):
        V = vals if dtype is None else vals.astype(dtype)
        f = fem.Field(reg, dim=len(exps), values=V.copy())
        cnt["trans"] += 2
        got_v = f.interpolate()
        got_g = f.grad()
        for j, e in enumerate(exps):
            lab = "".join(map(str, e))
            cmp(f"{tag}/value/m={lab}", "interpolated monomial at the quadrature points", np.broadcast_to(got_v[j], ref_val[j].shape), ref_val[j], tol)
            cmp(f"{tag}/grad/m={lab}", "gradient of monomial at the quadrature points", np.broadcast_to(got_g[j], ref_grad[j].shape), ref_grad[j], tol)
        if has_hess and reg.evaluate_hessian:
            got_h = f.hess()
            cnt["trans"] += 1
            for j, e in enumerate(exps):
                lab = "".join(map(str, e))
                cmp(f"{tag}/hess/m={lab}", "hessian of monomial at the quadrature points", np.broadcast_to(got_h[j], ref_hess[j].shape), ref_hess[j], tol * 100)
        if not np.array_equal(f.values, V):
            bad(f"{tag}/values-mutated", "field values changed by evaluation", "changed", "unchanged")

    reproduce("general", region)

    # vector-valued fields of the mesh dimension: component i <- i-th non-constant monomial (rotated)
    nonconst = [j for j, e in enumerate(exps) if sum(e) > 0]
    if nonconst and dim > 1:
        pick = [nonconst[(i * 2 + 1) % len(nonconst)] for i in range(dim)]
        fv = fem.Field(region, dim=dim, values=vals[:, pick].copy())
        F = fem.FieldContainer([fv]).extract()[0]
        cnt["trans"] += 1
        refF = np.stack([ref_grad[j] for j in pick]) + np.eye(dim)[:, :, None, None]
        cmp("general/extract", "FieldContainer.extract: I + grad u", F, refF)
        gs = fv.grad(sym=True)
        g = np.stack([ref_grad[j] for j in pick])
        cmp("general/grad_sym", "symmetric gradient", gs, 0.5 * (g + g.transpose(1, 0, 2, 3)))
        if dim == 2 and not kind.startswith("lagrange"):
            fps = fem.FieldPlaneStrain(region, dim=2, values=vals[:, pick].copy())
            gp = fps.grad()
            ref3 = np.zeros((3, 3) + g.shape[2:])
            ref3[:2, :2] = g
            cmp("planestrain/grad", "plane-strain gradient padded to 3x3", gp, ref3)
            ip = fps.interpolate()
            refi = np.zeros((3,) + g.shape[2:])
            refi[:2] = np.stack([ref_val[j] for j in pick])
            cmp("planestrain/value", "plane-strain interpolation padded to 3", ip, refi)
            Fp = fem.FieldContainer([fps]).extract()[0]
            cmp("planestrain/extract", "plane-strain F = I3 + grad u", Fp, ref3 + np.eye(3)[:, :, None, None])
            if has_hess:
                hp = fps.hess()
                refh = np.zeros((3, 3, 3) + g.shape[2:])
                refh[:2, :2, :2] = np.stack([ref_hess[j] for j in pick])
                cmp("planestrain/hess", "plane-strain hessian padded", hp, refh, TOL * 100)
            cnt["trans"] += 4
            # axisymmetric: shift the mesh to R > 0 (second coordinate is the radius)
            ms = fem.Mesh(X + np.array([0.0, 0.9]), cells, region.mesh.cell_type)
            with warnings.catch_warnings():
                warnings.simplefilter("ignore")
                ra = type(region)(ms, **_rk(kind, has_hess=False))
            _, _, xqa, _ = own_geometry(el, quad.points, ms.points, cells)
            va = nodal_values(kind, ms, exps)
            fa = fem.FieldAxisymmetric(ra, dim=2, values=va[:, pick].copy())
            ga = fa.grad()
            cnt["trans"] += 2
            ga_ref = np.zeros((3, 3) + g.shape[2:])
            for i, j in enumerate(pick):
                ga_ref[i, :2] = mono(exps[j], xqa)[1]
            ga_ref[2, 2] = mono(exps[pick[1]], xqa)[0] / xqa[1]
            cmp("axisymmetric/grad", "axisymmetric gradient incl. hoop term u_r/R", ga, ga_ref)
            # the symmetric part asked for at the field itself (grad(sym=True)), for every field class
            cmp("axisymmetric/grad_sym", "axisymmetric gradient, symmetric part (grad(sym=True))", fa.grad(sym=True), 0.5 * (ga_ref + ga_ref.transpose(1, 0, 2, 3)))
            cmp("planestrain/grad_sym", "plane-strain gradient, symmetric part (grad(sym=True))", fps.grad(sym=True), 0.5 * (ref3 + ref3.transpose(1, 0, 2, 3)))
            cnt["trans"] += 2
            cmp("axisymmetric/radius", "radius at quadrature points", fa.radius, xqa[1][None] if np.ndim(fa.radius) == 3 else xqa[1])

    # ---- out= buffers with a history (zeros, garbage, NaN, the result of another evaluation mode) handed to the field methods:
    #      the returned array must be the same values as without out=
    if member in ("distorted", "curved") and not kind.startswith("lagrange") and dim in (2, 3):
        fobjs = [("Field", fv)]
        if dim == 2:
            fobjs += [("FieldPlaneStrain", fps), ("FieldAxisymmetric", fa)]
        for flab, fo in fobjs:
            cont = fem.FieldContainer([fo])
            calls = {
                "grad()": lambda o=None, fo=fo: fo.grad(out=o),
                "grad(sym=True)": lambda o=None, fo=fo: fo.grad(sym=True, out=o),
                "interpolate()": lambda o=None, fo=fo: fo.interpolate(out=o),
                "extract()": lambda o=None, fo=fo: fo.extract(out=o),
                "extract(sym=True,add_identity=False)": lambda o=None, fo=fo: fo.extract(sym=True, add_identity=False, out=o),
                "container.extract()": lambda o=None, cont=cont: cont.extract(out=None if o is None else [o])[0],
            }
            refs = {k_: np.array(fn_(), dtype=float, copy=True) for k_, fn_ in calls.items()}
            for k_, fn_ in calls.items():
                for hist in ("zeros", "garbage", "nan", "other-mode"):
                    if hist == "other-mode":
                        other = [v_ for kk, v_ in refs.items() if kk != k_ and v_.shape == refs[k_].shape]
                        if not other:
                            continue
                        buf = other[0].copy() * 3.0 + 1.0
                    else:
                        buf = np.zeros_like(refs[k_]) if hist == "zeros" else np.full_like(refs[k_], 7.5 if hist == "garbage" else np.nan)
                    got = np.asarray(fn_(buf), dtype=float)
                    cnt["trans"] += 1
                    cmp(f"out-history/{flab}/{k_}/out={hist}", f"{flab}.{k_} with an out= buffer that held other data returns the same values as without out=", got, refs[k_], nt=False)
                # result buffers in another memory layout (Fortran-ordered, transposed view of a C array)
                for lay in ("F", "transposed-view"):
                    buf = np.asfortranarray(np.full_like(refs[k_], 2.5)) if lay == "F" else np.full(refs[k_].shape[::-1], 2.5).T
                    try:
                        got = np.asarray(fn_(buf), dtype=float)
                    except Exception as ex:  # noqa  (a layout the method refuses loudly is not judged)
                        cnt.setdefault("notes", []).append(f"{flab}.{k_} out layout {lay}: {ex!r}"[:120])
                        continue
                    cnt["trans"] += 1
                    cmp(f"out-layout/{flab}/{k_}/out={lay}", f"{flab}.{k_} with an out= buffer in another memory layout returns the same values as without out=", got, refs[k_], nt=False)
            # the order= argument of extract (memory layout of the result): same values for every order x flag combination
            for order_, gr_, sy_, ai_ in itertools.product(("C", "F", "A", "K"), (True, False), (False, True), (True, False)):
                if not gr_ and (sy_ or not ai_):
                    continue
                ref_ = np.asarray(fo.extract(grad=gr_, sym=sy_, add_identity=ai_), dtype=float)
                got = np.asarray(fo.extract(grad=gr_, sym=sy_, add_identity=ai_, order=order_), dtype=float)
                gotc = np.asarray(cont.extract(grad=gr_, sym=sy_, add_identity=ai_, order=order_)[0], dtype=float)
                cnt["trans"] += 3
                lab_ = f"extract-order/{flab}/grad={gr_},sym={sy_},add_identity={ai_}/order={order_}"
                cmp(lab_, f"{flab}.extract(order=...) returns the same values as the default order", got, ref_, nt=False)
                cmp(lab_ + "/container", "FieldContainer.extract(order=...) returns the same values as the default order", gotc, ref_, nt=False)
                if gr_ and ai_ and not sy_:
                    # independent: 1 + grad
                    g_ = np.asarray(fo.grad(), dtype=float)
                    cmp(lab_ + "/identity", "extract(add_identity=True) = grad + 1 on the diagonal", got - g_, np.broadcast_to(np.eye(g_.shape[0])[:, :, None, None], g_.shape), nt=False)

    # ---- uniform-grid path
    # (the "affine" member is a uniform grid too: every cell is the same parallelepiped, not axis aligned)
    if (member in AXISPAR or member == "affine") and kind in ("quad", "hexahedron", "quad8", "quad9", "hexahedron20", "hexahedron27", "line"):
        ru = type(region)(region.mesh, **_rk(kind, has_hess=has_hess), uniform=True)
        cnt["trans"] += 1
        cmp("uniform/dV", "uniform region dV (broadcast) vs general", np.broadcast_to(ru.dV, region.dV.shape), region.dV, 1e-13)
        cmp("uniform/dhdX", "uniform region dhdX (broadcast) vs general", np.broadcast_to(ru.dhdX, region.dhdX.shape), region.dhdX, 1e-12)
        if ru.dV.shape[-1] != 1:
            outcomes.add("uniform-not-compressed")
        reproduce("uniform", ru)
        # the compressed storage is a promise about ONE mesh: a uniform region that is re-evaluated on another geometry of the
        # same topology WITHOUT repeating the flag (copy(mesh=...), reload(mesh=...), update callback) is a general region
        import felupe as fem_

        P0 = np.asarray(region.mesh.points, float)
        lo_, hi_ = P0.min(0), P0.max(0)
        Pg = lo_ + (hi_ - lo_) * ((P0 - lo_) / (hi_ - lo_)) ** 1.4
        mg = fem_.Mesh(Pg, region.mesh.cells, region.mesh.cell_type)
        with warnings.catch_warnings():
            warnings.simplefilter("ignore")
            rfull = type(region)(mg, **_rk(kind, has_hess=has_hess))
            variants = {"copy(mesh)": ru.copy(mesh=mg)}
            r2_ = type(region)(region.mesh, **_rk(kind, has_hess=has_hess), uniform=True)
            r2_.reload(mesh=mg)
            variants["reload(mesh)"] = r2_
            m3_ = fem_.Mesh(P0.copy(), region.mesh.cells.copy(), region.mesh.cell_type)
            r3_ = type(region)(m3_, **_rk(kind, has_hess=has_hess), uniform=True)
            m3_.update(points=Pg, callback=r3_.reload)
            variants["update(callback=reload)"] = r3_
        cnt["trans"] += 4
        for vlab, rv in variants.items():
            if rv.dV.shape != rfull.dV.shape:
                bad(f"uniform/then-{vlab}/shape", "dV of a uniform region re-evaluated on a graded mesh without the uniform flag: one column per cell", list(rv.dV.shape), list(rfull.dV.shape))
                continue
            cmp(f"uniform/then-{vlab}/dV", "uniform region re-evaluated on a graded mesh (flag not repeated) vs a general region on that mesh: dV", rv.dV, rfull.dV, 1e-13)
            cmp(f"uniform/then-{vlab}/dhdX", "uniform region re-evaluated on a graded mesh (flag not repeated) vs a general region on that mesh: dhdX", rv.dhdX, rfull.dhdX, 1e-12)

    # ---- the same cells in other length units: second derivatives of the shape functions scale with 1 / s^2 (also on distorted
    #      and curved cells, whose geometric curvature scales with s and may be far below one in absolute terms)
    if has_hess and hasattr(region, "d2hdXdX") and not kind.startswith("lagrange"):
        import felupe as fem_u

        for sc_ in (1e-3, 1e-6, 1e-9, 1e3):
            ms_ = fem_u.Mesh(np.asarray(region.mesh.points, float) * sc_, region.mesh.cells, region.mesh.cell_type)
            with warnings.catch_warnings():
                warnings.simplefilter("ignore")
                rs_ = type(region)(ms_, **_rk(kind, has_hess=True))
            cnt["trans"] += 1
            cmp(f"length-units/s={sc_}/d2hdXdX", "second derivatives of the shape functions on the mesh scaled by s = 1 / s^2 x those of the mesh", np.asarray(rs_.d2hdXdX) * sc_**2, np.asarray(region.d2hdXdX), 1e-9)
            cmp(f"length-units/s={sc_}/dhdX", "first derivatives of the shape functions on the mesh scaled by s = 1 / s x those of the mesh", np.asarray(rs_.dhdX) * sc_, np.asarray(region.dhdX), 1e-10)

    # ---- float32 copy
    r32 = region.astype(np.float32)
    cnt["trans"] += 1
    if r32.dV.dtype != np.float32 or r32.dhdX.dtype != np.float32 or r32.h.dtype != np.float32:
        bad("float32/dtype", "dtype of the converted copy", [str(r32.dV.dtype), str(r32.dhdX.dtype), str(r32.h.dtype)], "float32")
    if region.dV.dtype != np.float64 or region.dhdX.dtype != np.float64:
        bad("float32/original", "astype(copy=True) modified the original region", str(region.dV.dtype), "float64")
    reproduce("float32", r32, tol=2e-5 * (4 ** (int(kind[10:].rstrip("n")) - 1) if kind.startswith("lagrange") else 1), dtype=np.float32)

    # ---- default rule integrates products of shape-function gradients exactly on affine cells
    affine_cells = member in ("ref", "block", "strip", "aniso", "affine") or (kind in SIMPLEX and member != "curved")
    if affine_cells and not kind.endswith("mini"):
        Kdef = np.einsum("aJqc,bJqc,qc->abc", region.dhdX, region.dhdX, region.dV)
        inv_h = np.linalg.inv(dXdr_h)  # q,c,I,J  (dX_I/dr_J)^-1 = dr_J/dX_I ... index: inv[q,c,J,I]
        dhdX_h = np.einsum("aJq,qcJI->aIqc", dh_h, inv_h)
        dV_h = np.linalg.det(dXdr_h) * np.asarray(hq.weights)[:, None]
        Kref = np.einsum("aJqc,bJqc,qc->abc", dhdX_h, dhdX_h, dV_h)
        cmp("laplace_exact", "default rule vs high-order rule for int grad h_a . grad h_b dV", Kdef, Kref, 1e-7 if kind == "tetra10" else 1e-10)

    # ---- dual / constant regions through FieldDual
    if kind in ("quad", "quad8", "quad9", "hexahedron", "hexahedron20", "hexahedron27", "triangle6", "tetra10", "triangle-mini", "tetra-mini") or kind.startswith("lagrange"):
        fd = fem.FieldDual(region, dim=1)
        cnt["trans"] += 1
        dcells = fd.region.mesh.cells
        npc = dcells.shape[1]
        dorder = {1: 0}.get(npc, 1)
        if kind.startswith("lagrange"):
            dorder = int(kind[10:].rstrip("n")) - 1
        dexps = space_monomials("P", 0 if member in ("curved",) else dorder, dim) if not kind.startswith("lagrange") else (
            space_monomials("Q", dorder, dim) if member == "ref" else space_monomials("P", dorder if member == "affine" else min(dorder, 1), dim))
        if dorder == 0:
            # cell-wise constants: value c+1 in cell c must come back at every quadrature point of cell c
            v = np.zeros((fd.region.mesh.npoints, 1))
            v[dcells[:, 0], 0] = np.arange(nc) + 1.0
            fd.values = v
            got = fd.interpolate()
            cmp("dual/constant", "cell-wise constant dual field", np.broadcast_to(got[0], (nq, nc)), np.broadcast_to(np.arange(nc) + 1.0, (nq, nc)))
        else:
            # dual dof (cell c, local a) sits at the primary cell's a-th node
            if kind.startswith("lagrange"):
                # dual Lagrange cell of order-1 spans the same cell: its nodes are an (order)^dim lattice
                pass
            else:
                Xd = np.zeros((fd.region.mesh.npoints, dim))
                Xd[dcells.ravel()] = X[cells[:, :npc]].reshape(-1, dim)
                Vd = np.stack([mono(e, Xd.T)[0] for e in dexps], axis=1)
                fdd = fem.FieldDual(region, dim=len(dexps))
                fdd.values = Vd
                got = fdd.interpolate()
                cnt["trans"] += 1
                for j, e in enumerate(dexps):
                    cmp("dual/value/m=" + "".join(map(str, e)), "dual-region interpolation of a polynomial of the dual order", np.broadcast_to(got[j], (nq, nc)), mono(e, xq)[0])

    sample = dict(case=key, cells=nc, points=int(len(X)), quadrature_points=nq, monomials=len(exps), hessian=has_hess, volume=vol)
    return dict(viol=viol, states=len(exps) * nq * nc, transitions=cnt["trans"], traces=cnt["traces"], nontrivial=nontrivial,
                outcomes=sorted(outcomes), sample=sample, digest="%.12e/%d" % (vol, cnt["traces"]))


def _rk(kind, has_hess):
    kw = {}
    if has_hess:
        kw["hess"] = True
    if kind.startswith("lagrange"):
        kw.update(order=int(kind[10:].rstrip("n")), dim=int(kind[8]))
        if kind.endswith("n"):
            kw.update(permute=False)
    if kind == "line":
        import felupe as fem

        kw.update(element=fem.Line(), quadrature=fem.GaussLegendre(order=1, dim=1))
    return kw
