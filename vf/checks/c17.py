"""C17 Batched tensor algebra equals its mathematical definition for every batch item.

Multilinear routines are decided on ALL tuples of unit tensors (packed along a batch axis, so
cross-talk between batch items is visible too); non-linear routines on complete integer
lattices; flags / out-buffer histories / threaded evaluation (every einsumt task order under a
FakePool) must reproduce the plain call bit for bit or to 1e-14.  The reference is an explicit
index-loop implementation of the defining sums (vf-side), numpy.linalg per batch item for
inverse / eigen problems.
"""

import itertools

import numpy as np

from .. import sched, zoo

ID = "C17"
RULE = (
    "case = (routine, mode, tensor dimension); inside a case: every tuple of unit tensors (basis of the "
    "multilinear map) packed along the batch axis, generic-valued inputs for every batch shape "
    "{(),(1,),(3,),(1,1),(2,3)} and the broadcast pair (2,1)x(1,3), flag variants (sym, supplied "
    "determinant, full_output, out=None/fresh/reused buffer holding the previous result or garbage), "
    "parallel=True under FakePool sizes 2,3,5 with every task order; lattices {-1,0,2}^(d*d) with "
    "|det|>=1 for inv/cof/det/solve, symmetric lattices for eigen-decompositions and strains. "
    "Non-trivial = comparisons whose reference has a non-zero entry."
)
ASSUMPTIONS = [
    "Reference: explicit index loops over the defining sums (vf/checks/c17.py:loop_einsum) and numpy.linalg per batch item.",
    "Threads exchange whole arrays at task boundaries only (einsumt chunks); memory ordering inside numpy's C loops is outside the scheduler.",
    "Batch shape () (no trailing axis at all) is driven for the einsum-type routines only: det/inv/cof/trace(out=) raise TypeError on a bare (d,d) array before a value exists (observation, not judged). solve_nd supports size-one batch axes on one operand (its documented example), mutual broadcasting (2,1)x(1,3) raises and is not driven.",
    "Tolerance 1e-12 relative for products, 1e-10 for inverse/eigen problems on the integer lattices (condition numbers <= ~50).",
]
TOL = 1e-12

SHAPES = [(), (1,), (3,), (1, 1), (2, 3)]


def BOUNDS(tier):
    return {"tensor_dims": [1, 2, 3], "batch_shapes": [list(s) for s in SHAPES] + ["(2,1)x(1,3)"], "pool_sizes": [2, 3, 5], "input_layouts": ["C", "Fortran", "reversed-stride view", "moved-axis view", "Fortran out= buffer"],
            "lattice": "{-1,0,2}^(d*d), |det|>=1 (d=3: %s)" % ("all 3^9" if tier == "thorough" else "every 7th member")}


# --------------------------------------------------------------------------- reference
def loop_einsum(spec, *ops, dim=None):
    """explicit-loop evaluation of an index expression 'ab,bc->ac' with trailing batch axes"""
    ins, out = spec.split("->")
    ins = ins.split(",")
    sizes = {}
    for s, o in zip(ins, ops):
        for k, ch in enumerate(s):
            sizes[ch] = o.shape[k]
    batch = np.broadcast_shapes(*[o.shape[len(s):] for s, o in zip(ins, ops)])
    res = np.zeros(tuple(sizes[ch] for ch in out) + batch)
    letters = sorted(sizes)
    for combo in itertools.product(*[range(sizes[ch]) for ch in letters]):
        ix = dict(zip(letters, combo))
        term = 1.0
        for s, o in zip(ins, ops):
            term = term * o[tuple(ix[ch] for ch in s)]
        res[tuple(ix[ch] for ch in out)] += term
    return res


def units(d, order):
    """all unit tensors of given order: array (d,)*order + (d**order,)"""
    n = d**order
    U = np.zeros((d,) * order + (n,))
    for k, idx in enumerate(itertools.product(range(d), repeat=order)):
        U[idx + (k,)] = 1.0
    return U


def unit_pairs(d, oa, ob):
    A, B = units(d, oa), units(d, ob)
    na, nb = A.shape[-1], B.shape[-1]
    AA = np.repeat(A, nb, axis=-1)
    BB = np.tile(B, (1,) * ob + (na,))
    return AA, BB


def generic(shape, seed, k):
    return zoo.offarr(seed, 300 + k, shape) * 3.0


BINARY = {
    # name: (callable name, mode kw, order A, order B, my defining spec)
    "dot22": ("dot", (2, 2), 2, 2, "ik,kj->ij"),
    "dot11": ("dot", (1, 1), 1, 1, "i,i->"),
    "dot44": ("dot", (4, 4), 4, 4, "ijkp,plmn->ijklmn"),
    "dot21": ("dot", (2, 1), 2, 1, "ij,j->i"),
    "dot12": ("dot", (1, 2), 1, 2, "i,ij->j"),
    "dot23": ("dot", (2, 3), 2, 3, "im,mjk->ijk"),
    "dot32": ("dot", (3, 2), 3, 2, "ijm,mk->ijk"),
    "dot41": ("dot", (4, 1), 4, 1, "ijkl,l->ijk"),
    "dot14": ("dot", (1, 4), 1, 4, "i,ijkl->jkl"),
    "dot24": ("dot", (2, 4), 2, 4, "im,mjkl->ijkl"),
    "dot42": ("dot", (4, 2), 4, 2, "ijkm,ml->ijkl"),
    "ddot22": ("ddot", (2, 2), 2, 2, "ij,ij->"),
    "ddot24": ("ddot", (2, 4), 2, 4, "ij,ijkl->kl"),
    "ddot42": ("ddot", (4, 2), 4, 2, "ijkl,kl->ij"),
    "ddot23": ("ddot", (2, 3), 2, 3, "ij,ijk->k"),
    "ddot32": ("ddot", (3, 2), 3, 2, "ijk,jk->i"),
    "ddot44": ("ddot", (4, 4), 4, 4, "ijkl,klmn->ijmn"),
    "dddot33": ("dddot", (3, 3), 3, 3, "ijk,ijk->"),
    "dya2": ("dya", 2, 2, 2, "ij,kl->ijkl"),
    "dya1": ("dya", 1, 1, 1, "i,j->ij"),
    "cdya_ik": ("cdya_ik", None, 2, 2, "ik,jl->ijkl"),
    "cdya_il": ("cdya_il", None, 2, 2, "il,kj->ijkl"),
    "cdya": ("cdya", None, 2, 2, None),
    "cross": ("cross", None, 1, 1, None),
}
PARALLEL = {"dot", "ddot", "dddot", "cdya_ik", "cdya_il", "cdya", "dya"}
UNARY = ["transpose1", "transpose2", "majortranspose", "trace", "sym", "dev", "tovoigt", "tovoigt_strain", "identity", "inplane", "det_multilinear", "von_mises", "reshape_ravel"]
OTHER = ["inv", "cof", "det", "eigh", "eigvalsh", "eig", "eigvals", "solve_2d", "solve_nd", "rotation_matrix", "strain", "strain_stretch_1d", "linsteps", "field_helpers"]


def plan(tier, seed):
    cases = []
    for name, (fn, mode, oa, ob, spec) in BINARY.items():
        for d in (1, 2, 3):
            if name == "cross" and d != 3:
                continue
            if max(oa, ob) == 4 and min(oa, ob) == 4 and d == 3 and tier == "quick" and name == "dot44":
                pass
            cases.append(dict(key=f"{name}/d={d}", kind="binary", name=name, d=d, seed=seed, tier=tier, cost=d ** (oa + ob)))
    for name in UNARY:
        for d in (1, 2, 3):
            cases.append(dict(key=f"{name}/d={d}", kind="unary", name=name, d=d, seed=seed, tier=tier))
    for name in OTHER:
        if name in ("inv", "cof", "det", "eigh", "eigvalsh", "eig", "eigvals", "solve_2d", "solve_nd", "strain"):
            for d in (1, 2, 3):
                cases.append(dict(key=f"{name}/d={d}", kind="other", name=name, d=d, seed=seed, tier=tier, cost=30 if d == 3 else 1))
        else:
            cases.append(dict(key=name, kind="other", name=name, d=3, seed=seed, tier=tier))
    return cases


class Ctx:
    def __init__(self, key):
        self.key = key
        self.viol, self.nontrivial, self.outcomes = [], [], set()
        self.trans = 0
        self.traces = 0
        self.states = 0

    def bad(self, sub, what, obs, exp, tol=TOL):
        self.viol.append(dict(key=f"{self.key}/{sub}", what=what, observed=obs, expected=exp, tol=tol))

    def cmp(self, sub, what, got, ref, tol=TOL):
        self.traces += 1
        got, ref = np.asarray(got), np.asarray(ref)
        if got.shape != ref.shape:
            self.bad(sub, what + " (shape)", list(got.shape), list(ref.shape))
            return False
        self.states += int(ref.size)
        if ref.size == 0:
            return True
        scale = 1 + np.abs(ref).max()
        with np.errstate(invalid="ignore"):
            err = np.abs(got - ref).max() / scale
        if np.abs(ref).max() > 0:
            self.nontrivial.append(sub)
        if not np.isfinite(err) or err > tol:
            d = np.abs(got - ref)
            d[~np.isfinite(d)] = np.inf
            idx = np.unravel_index(np.argmax(d), ref.shape)
            self.bad(sub, what, dict(err=float(err), at=[int(i) for i in idx], got=float(got[idx]), ref=float(ref[idx])), "equal", tol)
            return False
        return True

    def result(self, sample):
        return dict(viol=self.viol, states=self.states, transitions=self.trans, traces=self.traces, nontrivial=self.nontrivial,
                    outcomes=sorted(self.outcomes), sample=sample, digest=f"{self.states}/{self.traces}/{len(self.viol)}")


def _ref_binary(name, A, B):
    fn, mode, oa, ob, spec = BINARY[name]
    if name == "cdya":
        return 0.5 * (loop_einsum("ik,jl->ijkl", A, B) + loop_einsum("il,kj->ijkl", A, B))
    if name == "cross":
        out = np.zeros(np.broadcast_shapes(A.shape, B.shape))
        for i, j, k in ((0, 1, 2), (1, 2, 0), (2, 0, 1)):
            out[i] = A[j] * B[k] - A[k] * B[j]
        return out
    return loop_einsum(spec, A, B)


def _call_binary(fm, name, A, B, **kw):
    fn, mode, oa, ob, spec = BINARY[name]
    f = getattr(fm, fn)
    if fn in ("dot", "ddot", "dddot", "dya"):
        return f(A, B, mode=mode, **kw)
    return f(A, B, **kw)


def run_binary(case):
    import felupe.math as fm

    name, d, seed = case["name"], case["d"], case["seed"]
    fn, mode, oa, ob, spec = BINARY[name]
    c = Ctx(case["key"])
    # (a) all unit pairs, packed along the batch axis
    A, B = unit_pairs(d, oa, ob)
    A0, B0 = A.copy(), B.copy()
    got = _call_binary(fm, name, A, B)
    c.trans += 1
    ref = _ref_binary(name, A, B)
    c.cmp("units", f"{fn}{mode} on all {A.shape[-1]} unit-tensor pairs", got, ref)
    if not (np.array_equal(A, A0) and np.array_equal(B, B0)):
        c.bad("units/inputs", "inputs modified", "modified", "unchanged")
    # (b) generic values on all batch shapes + broadcast pair
    shapes = [(s, s) for s in SHAPES] + [((2, 1), (1, 3)), ((1, 3), (2, 1)), ((3,), (1,))]
    for k, (sa, sb) in enumerate(shapes):
        Ag = generic((d,) * oa + sa, seed, 2 * k)
        Bg = generic((d,) * ob + sb, seed, 2 * k + 1)
        A0, B0 = Ag.copy(), Bg.copy()
        try:
            got = _call_binary(fm, name, Ag, Bg)
        except Exception as e:
            c.bad(f"shape={sa}x{sb}", "raised on a broadcastable batch shape", repr(e)[:200], "value")
            continue
        c.trans += 1
        ref = _ref_binary(name, Ag, Bg)
        c.cmp(f"shape={sa}x{sb}", f"{fn}{mode} generic values", got, ref)
        if not (np.array_equal(Ag, A0) and np.array_equal(Bg, B0)):
            c.bad(f"shape={sa}x{sb}/inputs", "inputs modified", "modified", "unchanged")
        # BOTH arguments are the same array object (cdya(F, F), dot(A, A), ddot(S, S), ...): same values as for two equal arrays
        if sa == sb and oa == ob:
            ref_same = _ref_binary(name, Ag, Ag.copy())
            for vlab, kw_same in (("", {}), ("/parallel", dict(parallel=True))) if fn in ("dot", "ddot", "dya", "cdya_ik", "cdya_il", "cdya") else (("", {}),):
                try:
                    g_same = _call_binary(fm, name, Ag, Ag, **kw_same)
                except TypeError:
                    continue
                c.trans += 1
                c.cmp(f"shape={sa}/same-object{vlab}", f"{fn}{mode} with the SAME array object given for both arguments", g_same, ref_same)
            if fn in ("dot", "ddot", "dddot", "dya", "cdya_ik", "cdya_il", "cdya") and np.ndim(ref_same) > 0:
                buf_s = np.full_like(ref_same, -3.5)
                r_s = _call_binary(fm, name, Ag, Ag, out=buf_s)
                c.trans += 1
                c.cmp(f"shape={sa}/same-object/out", "same array object for both arguments, with out=", buf_s, ref_same)
            if not np.array_equal(Ag, A0):
                c.bad(f"shape={sa}/same-object/inputs", "inputs modified", "modified", "unchanged")
        # dtypes of the two operands (integer unit vectors / tables next to float data, single next to double precision), in
        # both orders: the values are those of the operands promoted to their common type
        if sa == sb:
            Ai = np.round(3 * Ag).astype(np.int64)
            Bi = np.round(3 * Bg).astype(np.int64)
            for dlab, Ad, Bd, tl in (("int-float", Ai, Bg, None), ("float-int", Ag, Bi, None), ("int-int", Ai, Bi, None), ("f32-f64", Ag.astype(np.float32), Bg, 2e-6), ("f64-f32", Ag, Bg.astype(np.float32), 2e-6)):
                Ad0, Bd0 = Ad.copy(), Bd.copy()
                try:
                    gd = _call_binary(fm, name, Ad, Bd)
                except Exception as e:
                    if dlab == "int-int":
                        # (two integer operands: cdya scales its integer result in place by 0.5 and numpy refuses the cast --
                        #  a loud refusal, no wrong value: observation, not judged)
                        c.outcomes.add("int-int-rejected:" + fn)
                        continue
                    c.bad(f"shape={sa}/dtypes={dlab}", "raised on operands of mixed dtypes", repr(e)[:200], "value")
                    continue
                c.trans += 1
                refd = _ref_binary(name, Ad.astype(float), Bd.astype(float))
                if tl is None:
                    c.cmp(f"shape={sa}/dtypes={dlab}", f"{fn}{mode} with operands of different dtypes (values of the promoted operands)", np.asarray(gd, dtype=float), refd)
                else:
                    scale_ = max(np.abs(refd).max(), 1e-300)
                    c.trans += 0
                    if not np.abs(np.asarray(gd, dtype=float) - refd).max() <= tl * scale_ * 10:
                        c.bad(f"shape={sa}/dtypes={dlab}", f"{fn}{mode} with single- and double-precision operands", float(np.abs(np.asarray(gd, dtype=float) - refd).max() / scale_), f"<= {tl * 10}")
                    elif np.asarray(gd).dtype != np.float64:
                        c.bad(f"shape={sa}/dtypes={dlab}/dtype", "result type of single x double precision operands", str(np.asarray(gd).dtype), "float64")
                if not (np.array_equal(Ad, Ad0) and np.array_equal(Bd, Bd0) and Ad.dtype == Ad0.dtype and Bd.dtype == Bd0.dtype):
                    c.bad(f"shape={sa}/dtypes={dlab}/inputs", "inputs modified", "modified", "unchanged")
        # memory layouts of the inputs: Fortran order, reversed-stride view, broadcast view (stride 0) -- same values
        if sa == sb:
            for lay, fA, fB in (("F", np.asfortranarray, np.asfortranarray), ("rev", lambda a: a[..., ::-1][..., ::-1], lambda a: np.ascontiguousarray(a[::-1])[::-1]),
                                ("AT", lambda a: np.ascontiguousarray(np.moveaxis(a, 0, -1)).transpose((a.ndim - 1,) + tuple(range(a.ndim - 1))), lambda a: a)):
                Al, Bl = fA(Ag), fB(Bg)
                if not (np.array_equal(Al, Ag) and np.array_equal(Bl, Bg)):
                    raise AssertionError("layout helper changed values")
                try:
                    gl = _call_binary(fm, name, Al, Bl)
                except Exception as e:
                    c.bad(f"shape={sa}/layout={lay}", "raised on inputs in another memory layout", repr(e)[:200], "value")
                    continue
                c.trans += 1
                c.cmp(f"shape={sa}/layout={lay}", f"{fn}{mode} with inputs in another memory layout", gl, ref)
                if fn in ("dot", "ddot", "dddot", "dya", "cdya_ik", "cdya_il", "cdya") and np.ndim(ref) > 0:
                    buf = np.asfortranarray(np.full_like(ref, 9.5))
                    r = _call_binary(fm, name, Al, Bl, out=buf)
                    c.trans += 1
                    c.cmp(f"shape={sa}/layout={lay}/out=F", "result with a Fortran-ordered out= buffer", buf, ref)
                    c.cmp(f"shape={sa}/layout={lay}/out=F/ret", "returned array with a Fortran-ordered out= buffer", r, ref)
        # out= variants: fresh buffer, reused buffer (holding previous result / garbage)
        if fn in ("dot", "ddot", "dddot", "dya", "cdya_ik", "cdya_il", "cdya") and sa == sb and np.ndim(ref) > 0:
            for hist in ("fresh", "garbage", "previous"):
                buf = np.zeros_like(ref) if hist == "fresh" else (np.full_like(ref, 1234.5) if hist == "garbage" else np.array(ref) * 3 + 1)
                r = _call_binary(fm, name, Ag, Bg, out=buf)
                c.trans += 1
                c.cmp(f"shape={sa}/out={hist}", "result with out= buffer", buf, ref)
                c.cmp(f"shape={sa}/out={hist}/ret", "returned array with out= buffer", r, ref)
    # (c) threaded evaluation under every task order
    if fn in PARALLEL:
        Ag = generic((d,) * oa + (2, 7), seed, 50)
        Bg = generic((d,) * ob + (2, 7), seed, 51)
        refp = _ref_binary(name, Ag, Bg)
        plain = _call_binary(fm, name, Ag, Bg)

        def go():
            return _call_binary(fm, name, Ag, Bg, parallel=True)

        runs, capped = sched.explore_pool(go)
        outs = set()
        for size, orders, r in runs:
            c.trans += 1
            ok = c.cmp(f"parallel/pool={size}/orders={orders}", "parallel=True vs definition", r, refp)
            outs.add(np.asarray(r).tobytes())
            if np.abs(np.asarray(r) - np.asarray(plain)).max() > 1e-13 * (1 + np.abs(plain).max()):
                c.bad(f"parallel/pool={size}/orders={orders}/vs-serial", "parallel=True differs from parallel=False", float(np.abs(r - plain).max()), 0)
        c.outcomes.add(f"schedules={len(runs)}/classes={len(outs)}/tasks={sorted({len(o) for _, os_, _ in runs for o in os_})}")
        # buffer given to the threaded path
        buf = np.full_like(refp, 77.0)
        with sched.use_pool(sched.FakePool(3)):
            rr = _call_binary(fm, name, Ag, Bg, parallel=True, out=buf)
        c.cmp("parallel/out", "parallel=True with out= buffer", buf, refp)
        c.cmp("parallel/out/ret", "parallel=True with out= buffer (returned)", rr, refp)
    return c.result(dict(case=case["key"], unit_pairs=int(A.shape[-1]), shapes=len(shapes)))


def run_unary(case):
    import felupe.math as fm

    name, d, seed = case["name"], case["d"], case["seed"]
    c = Ctx(case["key"])

    def each(order, fcall, fref, extra_shapes=True, tol=TOL, outbuf=None):
        inputs = [("units", units(d, order))]
        for k, s in enumerate(SHAPES):
            inputs.append((f"shape={s}", generic((d,) * order + s, seed, 60 + k)))
        for lab, A in inputs:
            A0 = A.copy()
            got = fcall(A)
            c.trans += 1
            ref = fref(A)
            c.cmp(lab, name, got, ref, tol)
            if not np.array_equal(A, A0):
                c.bad(lab + "/inputs", "inputs modified", "modified", "unchanged")
            # the same tensors in other memory layouts (Fortran order, the transposed view that transpose() / cof() hand out, a
            # strided view): same values, inputs unchanged; and result buffers in those layouts
            if A.ndim > order:
                perm = tuple(range(A.ndim))[::-1]
                lays = {"F": np.asfortranarray(A), "transposed-view": np.ascontiguousarray(A.transpose(perm)).transpose(perm), "strided": np.repeat(A, 2, axis=-1)[..., ::2]}
                for ll, Al in lays.items():
                    keepl = Al.copy()
                    c.cmp(f"{lab}/layout={ll}", name + " for the same tensors in another memory layout", fcall(Al), ref, tol)
                    c.trans += 1
                    if not np.array_equal(Al, keepl):
                        c.bad(f"{lab}/layout={ll}/inputs", "inputs modified", "modified", "unchanged")
                if outbuf and np.ndim(ref) > 1:
                    rperm = tuple(range(np.ndim(ref)))[::-1]
                    for ll, buf in (("F", np.asfortranarray(np.full_like(ref, 1.5))), ("transposed-view", np.full(np.shape(ref)[::-1], 1.5).transpose(rperm))):
                        try:
                            r = outbuf(A, buf)
                        except Exception as ex:  # noqa  (a buffer layout the routine refuses loudly is not judged)
                            continue
                        c.trans += 1
                        c.cmp(f"{lab}/out-layout={ll}", name + " with an out= buffer in another memory layout", buf, ref, tol)
                        c.cmp(f"{lab}/out-layout={ll}/ret", name + " returned with an out= buffer in another memory layout", r, ref, tol)
            # a result handed out earlier keeps its values when the routine is called again for other tensors of the same shape
            if isinstance(got, np.ndarray) and got.ndim > 0:
                keep = got.copy()
                fcall(np.ascontiguousarray(A[..., ::-1] * 1.3 + 0.1) if A.ndim > order else A * 1.3 + 0.1)
                c.trans += 1
                if not np.array_equal(got, keep, equal_nan=True):
                    c.bad(lab + "/held-result", "a result returned earlier changed when the routine was called again (same shapes, other values)", float(np.nanmax(np.abs(got - keep))), 0)
            if outbuf and np.ndim(ref) > 0:
                for hist in ("fresh", "garbage", "previous"):
                    buf = np.zeros_like(ref) if hist == "fresh" else (np.full_like(ref, -55.5) if hist == "garbage" else np.array(ref) * 2 - 1)
                    r = outbuf(A, buf)
                    c.trans += 1
                    c.cmp(f"{lab}/out={hist}", name + " with out= buffer", buf, ref, tol)
                    c.cmp(f"{lab}/out={hist}/ret", name + " returned with out=", r, ref, tol)
                    if not np.array_equal(A, A0):
                        c.bad(lab + f"/out={hist}/inputs", "inputs modified", "modified", "unchanged")

    eye = np.eye(d)
    if name == "transpose1":
        each(2, lambda A: fm.transpose(A), lambda A: loop_einsum("ij->ji", A), outbuf=lambda A, b: fm.transpose(A, out=b))
    elif name == "transpose2":
        each(4, lambda A: fm.transpose(A, mode=2), lambda A: loop_einsum("ijkl->klij", A))
    elif name == "majortranspose":
        each(4, lambda A: fm.majortranspose(A), lambda A: loop_einsum("ijkl->klij", A))
    elif name == "trace":
        each(2, lambda A: fm.trace(A), lambda A: loop_einsum("ii->", A), outbuf=lambda A, b: fm.trace(A, out=b))
    elif name == "sym":
        each(2, lambda A: fm.sym(A), lambda A: 0.5 * (A + loop_einsum("ij->ji", A)), outbuf=lambda A, b: fm.sym(A, out=b))
    elif name == "dev":
        def ref(A):
            tr = loop_einsum("ii->", A)
            return A - tr / d * eye.reshape((d, d) + (1,) * (A.ndim - 2))
        each(2, lambda A: fm.dev(A), ref, outbuf=lambda A, b: fm.dev(A, out=b))
    elif name in ("tovoigt", "tovoigt_strain"):
        strain = name.endswith("strain")
        ij = {1: [(0, 0)], 2: [(0, 0), (1, 1), (0, 1)], 3: [(0, 0), (1, 1), (2, 2), (0, 1), (1, 2), (0, 2)]}[d]

        def ref(A):
            S = 0.5 * (A + loop_einsum("ij->ji", A))  # defined for symmetric tensors: judge on the symmetric part
            out = np.stack([S[i, j] for i, j in ij])
            if strain:
                out[d:] *= 2
            return out
        each(2, lambda A: fm.tovoigt(0.5 * (A + np.swapaxes(A, 0, 1)), strain=strain), ref)
    elif name == "identity":
        for k, s in enumerate(SHAPES):
            A = generic((d, d) + s, seed, 70 + k)
            I = fm.identity(A)
            c.trans += 1
            ref = np.broadcast_to(eye.reshape((d, d) + (1,) * len(s)), (d, d) + s)
            c.cmp(f"shape={s}", "identity(A) broadcast against A", np.broadcast_to(I, (d, d) + s), ref)
            if I.ndim != A.ndim:
                c.bad(f"shape={s}/ndim", "identity must have as many axes as A", I.ndim, A.ndim)
        c.cmp("dim", "identity(dim, shape)", np.broadcast_to(fm.identity(dim=d, shape=(2, 3)), (d, d, 2, 3)), np.broadcast_to(eye[:, :, None, None], (d, d, 2, 3)))
    elif name == "inplane":
        if d >= 2:
            for planes in itertools.permutations(range(d), 2):
                vecs = [eye[p] for p in planes]

                def ref(A, planes=planes):
                    return np.stack([np.stack([A[a, b] for b in planes]) for a in planes])
                each(2, lambda A, vecs=vecs: fm.inplane(A, vecs), ref)
    elif name == "det_multilinear":
        # det as an alternating multilinear function of its columns: all d^d tuples of unit columns
        cols = list(itertools.product(range(d), repeat=d))
        A = np.zeros((d, d, len(cols)))
        ref = np.zeros(len(cols))
        for n, tup in enumerate(cols):
            for j, i in enumerate(tup):
                A[i, j, n] = 1.0
            if len(set(tup)) == d:
                inv = sum(1 for a in range(d) for b in range(a + 1, d) if tup[a] > tup[b])
                ref[n] = (-1) ** inv
        c.cmp("unit-columns", "det on all tuples of unit columns (Leibniz signs)", fm.det(A), ref)
        c.trans += 1
        for hist in ("garbage", "previous"):
            buf = np.full(len(cols), 9.75) if hist == "garbage" else ref * 5 + 2
            r = fm.det(A, out=buf)
            c.cmp(f"unit-columns/out={hist}", "det with reused out= buffer", buf, ref)
            c.cmp(f"unit-columns/out={hist}/ret", "det returned with out=", r, ref)
    elif name == "von_mises":
        for k, s in enumerate(SHAPES + [(40,)]):
            A = generic((d, d) + s, seed, 80 + k)
            A = 0.5 * (A + np.swapaxes(A, 0, 1))
            A0 = A.copy()
            got = fm.equivalent_von_mises(A)
            c.trans += 1
            P = np.zeros((3, 3) + s)
            P[:d, :d] = A
            tr = P[0, 0] + P[1, 1] + P[2, 2]
            dv = P - tr / 3 * np.eye(3).reshape((3, 3) + (1,) * len(s))
            ref = np.sqrt(1.5 * loop_einsum("ij,ij->", dv, dv))
            c.cmp(f"shape={s}", "equivalent von Mises value", got, ref)
            if not np.array_equal(A, A0):
                c.bad(f"shape={s}/inputs", "inputs modified", "modified", "unchanged")
        # numeric regimes: purely hydrostatic tensors (definition: exactly 0, the deviator of p 1 vanishes for representable p)
        # and hydrostatic-dominated ones p 1 + D with |D| ~ 1, p up to 2^27 (the definition loses eps p / |D| ~ 1e-8 at most)
        if d == 3:
            ps = np.array([0.0, 1.0, -7.0, 3.0e3, 2.0**24, -(2.0**27), 1.0e-12])
            Ahyd = ps * np.eye(3).reshape(3, 3, 1)
            got = np.asarray(fm.equivalent_von_mises(Ahyd), float)
            c.trans += 1
            if not (np.isfinite(got).all() and np.abs(got).max() <= 1e-12 * np.abs(ps).max()):
                c.bad("hydrostatic", "von Mises value of p 1 must be 0 (finite) for every p", got.tolist(), [0.0] * len(ps), 1e-12)
            D = generic((3, 3, 6), seed, 95)
            D = 0.5 * (D + np.swapaxes(D, 0, 1))
            D = np.round(D * 8) / 8  # exactly representable next to 2^27
            for pk in (2.0**20, -(2.0**24), 2.0**27):
                Ad = pk * np.eye(3).reshape(3, 3, 1) + D
                got = np.asarray(fm.equivalent_von_mises(Ad), float)
                dvD = D - (D[0, 0] + D[1, 1] + D[2, 2]) / 3 * np.eye(3).reshape(3, 3, 1)
                ref = np.sqrt(1.5 * loop_einsum("ij,ij->", dvD, dvD))
                c.trans += 1
                c.cmp(f"hydrostatic-dominated/p={pk}", "von Mises value of p 1 + D equals the one of D (deviator taken first, as the definition says)", got, ref, 1e-6)
    elif name == "reshape_ravel":
        A = generic((d, d, d, d, 2, 3), seed, 90)
        R = fm.ravel(A)
        c.trans += 2
        ref = np.zeros((d**4, 2, 3))
        for n, idx in enumerate(itertools.product(range(d), repeat=4)):
            ref[n] = A[idx]
        c.cmp("ravel", "ravel of leading tensor axes (C order)", R, ref)
        c.cmp("reshape", "reshape back", fm.reshape(R, (d, d, d, d)), A)
        # the definition is a statement about VALUES: the same tensors handed over in other memory layouts (Fortran order, a
        # transposed view, a strided view), second-order tensors and non-square leading axes; reshape judged directly (not by a
        # round trip), inputs unchanged
        for tshape in ((d, d), (2, 3) if d > 1 else (1, 2), (d, d, d, d)):
            B = generic(tshape + (2, 3), seed, 91 + len(tshape))
            refB = np.zeros((int(np.prod(tshape)), 2, 3))
            for n, idx in enumerate(itertools.product(*[range(k_) for k_ in tshape])):
                refB[n] = B[idx]
            lays = {"C": np.ascontiguousarray(B), "F": np.asfortranarray(B), "transposed-view": np.ascontiguousarray(B.transpose(tuple(range(B.ndim))[::-1])).transpose(tuple(range(B.ndim))[::-1]),
                    "strided": np.repeat(B, 2, axis=-1)[..., ::2]}
            for ll, Bl in lays.items():
                keep = Bl.copy()
                c.cmp(f"ravel/shape={tshape}/layout={ll}", "ravel: item N*i+j of the result is the (i, j) component of the input, whatever the memory layout", fm.ravel(Bl), refB)
                c.trans += 1
                if not np.array_equal(Bl, keep):
                    c.bad(f"ravel/shape={tshape}/layout={ll}/inputs", "inputs modified", "modified", "unchanged")
            flats = {"C": np.ascontiguousarray(refB), "F": np.asfortranarray(refB), "strided": np.repeat(refB, 2, axis=-1)[..., ::2]}
            for ll, Rl in flats.items():
                c.cmp(f"reshape/shape={tshape}/layout={ll}", "reshape: component (i, j) of the result is item N*i+j of the input, whatever the memory layout", fm.reshape(Rl, tshape), B)
                c.trans += 1
    return c.result(dict(case=case["key"], dim=d))


def lattice(d, tier, sym=False, mindet=1.0):
    vals = (-1.0, 0.0, 2.0)
    n = d * (d + 1) // 2 if sym else d * d
    mats = []
    for k, tup in enumerate(itertools.product(vals, repeat=n)):
        if d == 3 and not sym and tier == "quick" and k % 7:
            continue
        M = np.zeros((d, d))
        if sym:
            it = iter(tup)
            for i in range(d):
                for j in range(i, d):
                    M[i, j] = M[j, i] = next(it)
        else:
            M[:] = np.array(tup).reshape(d, d)
        if mindet is None or abs(np.linalg.det(M)) >= mindet - 1e-9:
            mats.append(M)
    return np.array(mats).transpose(1, 2, 0)  # (d,d,N)


def run_other(case):
    import felupe.math as fm

    name, d, seed, tier = case["name"], case["d"], case["seed"], case["tier"]
    c = Ctx(case["key"])
    if name in ("inv", "cof", "det"):
        A = lattice(d, tier)
        N = A.shape[-1]
        Ai = np.moveaxis(A, -1, 0)
        ref_inv = np.moveaxis(np.linalg.inv(Ai), 0, -1)
        ref_det = np.linalg.det(Ai)
        ref_cof = np.moveaxis(np.linalg.inv(Ai).transpose(0, 2, 1) * ref_det[:, None, None], 0, -1)
        A0 = A.copy()
        tol = 1e-10
        if name == "det":
            c.cmp("lattice", f"det on {N} lattice matrices", fm.det(A), ref_det, tol)
            for hist in ("garbage", "previous"):
                buf = np.full(N, 3.25) if hist == "garbage" else ref_det * 2 + 1
                r = fm.det(A, out=buf)
                c.cmp(f"lattice/out={hist}", "det with reused out=", buf, ref_det, tol)
                c.cmp(f"lattice/out={hist}/ret", "det returned", r, ref_det, tol)
            for k, s in enumerate(SHAPES[1:]):
                G = generic((d, d) + s, seed, 100 + k) + 2 * np.eye(d).reshape((d, d) + (1,) * len(s))
                c.cmp(f"shape={s}", "det generic", fm.det(G), np.linalg.det(np.moveaxis(G.reshape(d, d, -1), -1, 0)).reshape(s), tol)
            c.trans += 3 + len(SHAPES)
        elif name == "inv":
            c.cmp("lattice", f"inv on {N} lattice matrices", fm.inv(A), ref_inv, tol)
            c.cmp("lattice/determinant", "inv with supplied determinant", fm.inv(A, determinant=ref_det.copy()), ref_inv, tol)
            r, dt = fm.inv(A, full_output=True)
            c.cmp("lattice/full_output/inv", "inv full_output", r, ref_inv, tol)
            c.cmp("lattice/full_output/det", "det from full_output", dt, ref_det, tol)
            for hist in ("fresh", "garbage", "previous"):
                buf = np.zeros_like(A) if hist == "fresh" else (np.full_like(A, 8.5) if hist == "garbage" else ref_inv * 3 - 1)
                r = fm.inv(A, out=buf)
                c.cmp(f"lattice/out={hist}", "inv with out= buffer", buf, ref_inv, tol)
                c.cmp(f"lattice/out={hist}/ret", "inv returned", r, ref_inv, tol)
                dd = ref_det.copy()
                r = fm.inv(A, determinant=dd, out=buf)
                c.cmp(f"lattice/out={hist}/determinant", "inv with out= and determinant", r, ref_inv, tol)
                if not np.array_equal(dd, ref_det):
                    c.bad(f"lattice/out={hist}/determinant/inputs", "supplied determinant modified", "modified", "unchanged")
            # call histories with held results: inverse and determinant of a full_output call are kept while every other
            # variant is called for other tensors of the same shape; then the kept determinant is handed back in
            B = np.ascontiguousarray(A[..., ::-1] * 1.1)
            later = {"inv": lambda: fm.inv(B), "cof": lambda: fm.cof(B), "inv-full_output": lambda: fm.inv(B, full_output=True), "det": lambda: fm.det(B),
                     "inv-determinant": lambda: fm.inv(B, determinant=fm.det(B)), "inv-sym": lambda: fm.inv(B, sym=True)}
            for l1, l2 in itertools.product(later, repeat=2):
                r, dt = fm.inv(A, full_output=True)
                later[l1]()
                later[l2]()
                c.trans += 3
                c.cmp(f"held/{l1}>{l2}/inv", "inverse kept from an earlier full_output call, after later calls on other tensors", r, ref_inv, tol)
                c.cmp(f"held/{l1}>{l2}/det", "determinant kept from an earlier full_output call, after later calls on other tensors", dt, ref_det, tol)
                dd = np.array(dt, copy=True)
                c.cmp(f"held/{l1}>{l2}/reuse-determinant", "inv with the kept determinant supplied", fm.inv(A, determinant=dt), ref_inv, tol)
                if not np.array_equal(dt, dd):
                    c.bad(f"held/{l1}>{l2}/reuse-determinant/inputs", "supplied determinant modified", "modified", "unchanged")
            S = lattice(d, tier, sym=True)
            Si = np.moveaxis(np.linalg.inv(np.moveaxis(S, -1, 0)), 0, -1)
            c.cmp("symlattice/sym", "inv(sym=True) on symmetric lattice", fm.inv(S, sym=True), Si, tol)
            c.cmp("symlattice/sym/out", "inv(sym=True, out=garbage)", fm.inv(S, sym=True, out=np.full_like(S, 4.0)), Si, tol)
            for k, s in enumerate(SHAPES[1:]):
                G = generic((d, d) + s, seed, 110 + k) + 2.5 * np.eye(d).reshape((d, d) + (1,) * len(s))
                refG = np.moveaxis(np.linalg.inv(np.moveaxis(G.reshape(d, d, -1), -1, 0)), 0, -1).reshape((d, d) + s)
                c.cmp(f"shape={s}", "inv generic", fm.inv(G), refG, tol)
            c.trans += 14 + len(SHAPES)
        else:
            c.cmp("lattice", f"cof on {N} lattice matrices", fm.cof(A), ref_cof, tol)
            c.cmp("lattice/out", "cof with out=garbage", fm.cof(A, out=np.full_like(A, 2.0)), ref_cof, tol)
            S = lattice(d, tier, sym=True)
            Sm = np.moveaxis(S, -1, 0)
            Sc = np.moveaxis(np.linalg.inv(Sm).transpose(0, 2, 1) * np.linalg.det(Sm)[:, None, None], 0, -1)
            c.cmp("symlattice/sym", "cof(sym=True)", fm.cof(S, sym=True), Sc, tol)
            # singular matrices are in the domain of the cofactor
            Z = lattice(d, tier, mindet=None)
            refZ = np.zeros_like(Z)
            for n in range(Z.shape[-1]):
                M = Z[..., n]
                for i in range(d):
                    for j in range(d):
                        minor = np.delete(np.delete(M, i, 0), j, 1)
                        refZ[i, j, n] = (-1) ** (i + j) * (np.linalg.det(minor) if d > 1 else 1.0)
            c.cmp("full-lattice", "cof incl. singular matrices (minors)", fm.cof(Z), refZ, tol)
            c.trans += 4
        if not np.array_equal(A, A0):
            c.bad("lattice/inputs", "inputs modified", "modified", "unchanged")
        return c.result(dict(case=case["key"], lattice=int(N)))
    if name in ("eigh", "eigvalsh", "eig", "eigvals"):
        S = lattice(d, tier, sym=True, mindet=None)
        N = S.shape[-1]
        Sm = np.moveaxis(S, -1, 0)
        wref = np.linalg.eigvalsh(Sm).T  # (d,N) ascending
        S0 = S.copy()
        tol = 1e-10
        if name in ("eigh", "eig"):
            w, v = (fm.eigh(S) if name == "eigh" else fm.eig(S))
            c.trans += 1
            w = np.real(w)
            v = np.real(v)
            if name == "eigh":
                c.cmp("lattice/values", "eigh eigenvalues ascending", w, wref, tol)
            else:
                c.cmp("lattice/values", "eig eigenvalues (sorted)", np.sort(w, axis=0), wref, tol)
            Av = loop_einsum("ij,ja->ia", S, v)
            c.cmp("lattice/pairs", "A v_a = w_a v_a for every returned pair", Av, v * w[None], tol)
            c.cmp("lattice/orthonormal", "eigenvectors orthonormal", loop_einsum("ia,ib->ab", v, v) if name == "eigh" else loop_einsum("ia,ia->a", v, v),
                  np.broadcast_to(np.eye(d)[:, :, None], (d, d, N)) if name == "eigh" else np.ones((d, N)), tol)
            G = generic((d, d, 2, 3), seed, 120)
            G = G + np.swapaxes(G, 0, 1)
            w2, v2 = fm.eigh(G) if name == "eigh" else fm.eig(G)
            c.cmp("shape=(2,3)/pairs", "batch axes (2,3)", loop_einsum("ij,ja->ia", G, np.real(v2)), np.real(v2) * np.real(w2)[None], tol)
        else:
            f = fm.eigvalsh if name == "eigvalsh" else fm.eigvals
            w = np.real(f(S))
            c.trans += 1
            c.cmp("lattice/values", name, w if name == "eigvalsh" else np.sort(w, axis=0), wref, tol)
            if d > 1:
                ws = np.real(f(S, shear=True))
                ij = [(1, 0), (2, 0), (2, 1)] if d == 3 else [(1, 0)]
                ref = np.vstack([w, np.array([w[i] - w[j] for i, j in ij])])
                c.cmp("lattice/shear", name + "(shear=True): values and pairwise differences", ws, ref, tol)
            G = generic((d, d, 2, 3), seed, 121)
            G = G + np.swapaxes(G, 0, 1)
            wg = np.real(f(G))
            refg = np.linalg.eigvalsh(np.moveaxis(G.reshape(d, d, -1), -1, 0)).T.reshape(d, 2, 3)
            c.cmp("shape=(2,3)", "batch axes (2,3)", np.sort(wg, axis=0), refg, tol)
        # non-symmetric tensors with real, distinct eigenvalues (a deformation gradient, a first Piola-Kirchhoff stress, a
        # triangular matrix): right eigenvectors A v = w v for every returned pair, eigenvalues vs the known ones
        if name in ("eig", "eigvals") and d >= 2:
            nsm, known = [], []
            for k_ in range(6):
                Vb = np.eye(d) + 0.35 * zoo.offarr(seed, 140 + k_, (d, d))
                wv = np.array([1.0, 2.5, -0.7][:d]) * (1 + 0.1 * k_)
                nsm.append(Vb @ np.diag(wv) @ np.linalg.inv(Vb))
                known.append(np.sort(wv))
            Tt = np.triu(1.0 + zoo.offarr(seed, 150, (d, d))) + np.diag([0.5, 2.0, 3.5][:d])
            nsm.append(Tt)
            known.append(np.sort(np.diag(Tt)))
            NS = np.ascontiguousarray(np.moveaxis(np.array(nsm), 0, -1))
            NS0 = NS.copy()
            if name == "eig":
                wn_, vn_ = fm.eig(NS)
                res_ = np.einsum("ijn,jan->ian", NS.astype(complex), np.asarray(vn_, complex)) - np.asarray(vn_, complex) * np.asarray(wn_, complex)[None]
                c.trans += 1
                if np.abs(res_).max() > 1e-10 * max(np.abs(NS).max(), 1.0):
                    c.bad("non-symmetric/pairs", "A v = w v for the pairs returned for non-symmetric tensors (right eigenvectors)", float(np.abs(res_).max()), 0, 1e-10)
                wr_ = np.sort(np.real(wn_), axis=0)
            else:
                wr_ = np.sort(np.real(fm.eigvals(NS)), axis=0)
                c.trans += 1
            c.cmp("non-symmetric/values", name + " eigenvalues of non-symmetric tensors with known real spectrum", wr_, np.array(known).T, 1e-10)
            if not np.array_equal(NS, NS0):
                c.bad("non-symmetric/inputs", "inputs modified", "modified", "unchanged")
        # numeric regime: nearly equal eigenvalues (a nearly undeformed / nearly equi-biaxial state): R diag(l, l (1 + delta), ..) R^T
        # for delta down to 1e-12, several magnitudes and axes; the exact eigenvalues are known, tolerance 1e-13 relative
        if d >= 2:
            mats, exact = [], []
            for l_ in (1.0, 1.3, 2.5e3, 4e-4):
                for dl in (1e-3, 1e-6, 1e-9, 1e-12, 0.0):
                    for ang in (0.0, 0.3, 17 * np.pi / 180, 1.1):
                        ev = np.array([l_, l_ * (1 + dl)] + ([l_ * (1 + 2.5 * dl)] if d == 3 else []))
                        R = zoo.rot2(ang) if d == 2 else zoo.generic_rotations(seed + int(ang * 10), 1)[0]
                        M_ = R @ np.diag(ev) @ R.T
                        mats.append(0.5 * (M_ + M_.T))
                        exact.append(np.sort(ev))
            ND = np.ascontiguousarray(np.moveaxis(np.array(mats), 0, -1))
            EX = np.array(exact).T  # (d, n)
            if name in ("eigh", "eig"):
                wn, vn = (fm.eigh(ND) if name == "eigh" else fm.eig(ND))
                wn = np.sort(np.real(wn), axis=0)
            else:
                wn = np.sort(np.real((fm.eigvalsh if name == "eigvalsh" else fm.eigvals)(ND)), axis=0)
            c.trans += 1
            err = np.abs(wn - EX) / np.abs(EX).max(0)
            if not err.max() <= 2e-13:
                j_ = int(np.argmax(err.max(0)))
                c.bad("near-degenerate/values", f"{name} for tensors with nearly equal eigenvalues vs the exact values", dict(rel_err=float(err.max()), got=wn[:, j_].tolist(), exact=EX[:, j_].tolist()), 0, 2e-13)
            else:
                c.nontrivial.append("near-degenerate")
        if not np.array_equal(S, S0):
            c.bad("lattice/inputs", "inputs modified", "modified", "unchanged")
        return c.result(dict(case=case["key"], lattice=int(N)))
    if name in ("solve_2d", "solve_nd"):
        tol = 1e-9
        if name == "solve_2d":
            for k, s in enumerate([(), (3,), (2, 3)]):
                A = generic((d, d, d, d) + s, seed, 130 + k) * 0.3
                for i in range(d):
                    for j in range(d):
                        A[i, j, i, j] += 3.0
                b = generic((d, d) + s, seed, 140 + k)
                x = fm.solve_2d(A, b)
                c.trans += 1
                c.cmp(f"shape={s}", "A:x = b", loop_einsum("ijkl,kl->ij", A, x), b, tol)
            for lab, sa, sb in (("b-size-one", (2, 3), (1, 1)), ("A-size-one", (1, 1), (2, 3))):
                A = generic((d, d, d, d) + sa, seed, 150) * 0.3
                for i in range(d):
                    for j in range(d):
                        A[i, j, i, j] += 3.0
                b = generic((d, d) + sb, seed, 151)
                x = fm.solve_2d(A, b)
                c.cmp("broadcast/" + lab, "A:x = b with size-one batch axes", loop_einsum("ijkl,kl->ij", A, x), np.broadcast_to(b, (d, d, 2, 3)), tol)
        else:
            for n in (1, 2, 3):
                if d**n > 27:
                    continue
                shp = (d,) * n
                for k, s in enumerate([(), (4,), (2, 3)]):
                    A = generic(shp + shp + s, seed, 160 + k + n) * 0.3
                    for idx in itertools.product(range(d), repeat=n):
                        A[idx + idx] += 3.0
                    b = generic(shp + s, seed, 170 + k + n)
                    x = fm.solve_nd(A, b, n=n)
                    c.trans += 1
                    L = "abc"[:n]
                    R = "xyz"[:n]
                    c.cmp(f"n={n}/shape={s}", "A x = b (n-dimensional unknowns)", loop_einsum(f"{L}{R},{R}->{L}", A, x), b, tol)
        return c.result(dict(case=case["key"]))
    if name == "rotation_matrix":
        angles = (0, 30, 45, 90, -60, 135, 180, 270, 360, 17.5)
        for a in angles:
            R2 = fm.rotation_matrix(a, dim=2)
            t = np.deg2rad(a)
            c.cmp(f"dim=2/alpha={a}", "2D rotation matrix", R2, np.array([[np.cos(t), -np.sin(t)], [np.sin(t), np.cos(t)]]))
            for ax in range(3):
                R = fm.rotation_matrix(a, dim=3, axis=ax)
                c.trans += 1
                c.cmp(f"dim=3/axis={ax}/alpha={a}", "3D right-handed rotation about the axis (Rodrigues)", R, zoo.rotation(np.eye(3)[ax], t))
        return c.result(dict(case=case["key"], angles=len(angles)))
    if name == "strain":
        S = lattice(d, tier, sym=True, mindet=None)
        # make SPD right Cauchy-Green tensors out of the symmetric lattice: C = (I + 0.2 S)^2
        B = np.eye(d)[:, :, None] + 0.2 * S
        C = loop_einsum("ik,kj->ij", B, B)
        C = C[..., np.linalg.det(np.moveaxis(C, -1, 0)) > 1e-3]
        Cm = np.moveaxis(C, -1, 0)
        w, V = np.linalg.eigh(Cm)
        lam = np.sqrt(w)
        for kk in (0, 1, 2, -1, -2, 0.5):
            f = np.log(lam) if kk == 0 else (lam**kk - 1) / kk
            ref = np.einsum("na,nia,nja->ijn", f, V, V)
            got = fm.strain(None, C=C, k=kk)
            c.trans += 1
            c.cmp(f"k={kk}/tensor", "Seth-Hill strain tensor", got, ref, 1e-9)
            gotp = fm.strain(None, C=C, tensor=False, k=kk)
            c.cmp(f"k={kk}/principal", "principal strains", np.sort(gotp, axis=0), np.sort(f.T, axis=0), 1e-9)
            if d > 1:
                gv = fm.strain(None, C=C, asvoigt=True, k=kk)
                ij = {2: [(0, 0), (1, 1), (0, 1)], 3: [(0, 0), (1, 1), (2, 2), (0, 1), (1, 2), (0, 2)]}[d]
                rv = np.stack([ref[i, j] * (1 if i == j else 2) for i, j in ij])
                c.cmp(f"k={kk}/voigt", "strain in Voigt storage (doubled shear)", gv, rv, 1e-9)
        return c.result(dict(case=case["key"], lattice=int(C.shape[-1])))
    if name == "strain_stretch_1d":
        lam = np.array([0.5, 0.8, 1.0, 1.3, 2.0])
        for kk in (0, 1, 2, -1, -2, 0.5):
            ref = np.log(lam) if kk == 0 else (lam**kk - 1) / kk
            c.cmp(f"k={kk}", "strain-stretch relation", fm.strain_stretch_1d(lam, k=kk), ref)
            c.trans += 1
        return c.result(dict(case=case["key"]))
    if name == "linsteps":
        n = 0
        for pts in ([0, 1], [0, 0.5, 1.5, 3.5], [1, -1, 1], [2.0], [0, 0, 1]):
            for num in (1, 2, 5, [2, 3, 1]):
                for endpoint in (True, False):
                    got = fm.linsteps(pts, num=num, endpoint=endpoint)
                    c.trans += 1
                    nums = list(np.atleast_1d(num))
                    segs = len(pts) - 1
                    if len(nums) == 1:
                        nums = nums * max(1, segs)
                    nums = (nums + [nums[-1]] * segs)[:segs]
                    ref = []
                    for a, b, m in zip(pts[:-1], pts[1:], nums):
                        ref += [a + (b - a) * i / m for i in range(m)]
                    if endpoint:
                        ref.append(pts[-1])
                    c.cmp(f"points={pts}/num={num}/endpoint={endpoint}", "linsteps samples", got, np.array(ref, float))
                    n += 1
        got = fm.linsteps([0, 0.5, 1.5], num=2, axis=1, axes=3, values=[-1, 0, 7])
        ref = np.array([[-1, v, 7] for v in (0, 0.25, 0.5, 1.0, 1.5)], float)
        c.cmp("axis=1/axes=3", "linsteps column placement", got, ref)
        return c.result(dict(case=case["key"], combos=n))
    if name == "field_helpers":
        import felupe as fem

        m = zoo.make("hexahedron", "renum", seed)
        r = fem.RegionHexahedron(m)
        u = fem.Field(r, dim=3, values=zoo.offarr(seed, 180, (m.npoints, 3)) * 0.1)
        p = fem.Field(r, dim=1, values=zoo.offarr(seed, 181, (m.npoints, 1)))
        f = fem.FieldContainer([u, p])
        c.cmp("values", "math.values concatenates field values", fm.values(f), np.concatenate([u.values.ravel(), p.values.ravel()]))
        F = fm.deformation_gradient(f)
        c.cmp("deformation_gradient", "I + grad u", F, np.eye(3)[:, :, None, None] + u.grad())
        c.cmp("right_cauchy_green", "F^T F", fm.right_cauchy_green_deformation(f), loop_einsum("ki,kj->ij", F, F))
        c.cmp("displacement", "displacement values", fm.displacement(f), u.values)
        c.cmp("norm-list", "norm of a list", fm.norm([np.array([3.0, 4.0]), np.array([1.0])]), np.array([5.0, 1.0]))
        c.trans += 5
        return c.result(dict(case=case["key"]))
    raise ValueError(name)


def run(case):
    return {"binary": run_binary, "unary": run_unary, "other": run_other}[case["kind"]](case)
