"""C08 One global numbering of unknowns; boundary conditions partition it exactly.

Reference model: a plain dict  (field, point, component) -> global index = sum(sizes of the
fields before) + dim * point + component, and plain Python sets for the selections.
Exhaustive over: container shapes x every unit increment (numbering), the complete single
boundary alphabet (fx/fy/fz x mode x skip x masks), ALL ordered dictionaries of up to three
boundaries from a 12-member alphabet (overlaps, several fields, array values), and the
load-case argument lattices.
"""

import itertools

import numpy as np

from .. import zoo

ID = "C08"
RULE = (
    "case = (container shape, mesh) for the numbering and single-boundary alphabets, (container, "
    "dictionary size) for the dictionary enumeration, (load case, mesh) for the load cases; inside a "
    "case the stated alphabet is walked completely and partition/apply are compared with the dict "
    "reference model; non-trivial = selections / dictionaries with a non-empty prescribed set and a "
    "non-empty free set"
)
ASSUMPTIONS = [
    "Reference numbering: offset(field) + dim*point + component, fields laid out consecutively in container order.",
    "dof.symmetry follows the mechanics and its own code comment (a symmetry plane of normal a fixes u_a only), which uniaxial/biaxial document and rely on; the small table in symmetry's docstring lists the complementary axes and is recorded as a documentation inconsistency.",
    "Array-valued boundaries are driven in the two documented forms: one value per selected unknown, or one row per point when all components of the points are selected.",
    "mode='and' is only driven with at least one coordinate predicate (with none it is vacuous truth: all points).",
]


def BOUNDS(tier):
    return {"dictionary_size": 3 if tier == "thorough" else 2, "alphabet": 12, "containers": "u(1..3), (u,p), (u,p,J) on line/quad/hex/quad9/triangle6",
            "single_boundary_alphabet": "3^dim predicates x 2 modes x 2^dim skips + masks", "value_array_layouts": ["C", "Fortran", "strided view"]}


def meshes(seed):
    import felupe as fem

    out = {}
    m = fem.mesh.Line(n=4)
    out["line"] = fem.Mesh(np.vstack([m.points, [[0.0]], [[5.0]]]), m.cells, m.cell_type)
    m = zoo.renumber(fem.Rectangle(n=3), seed)
    out["quad"] = fem.Mesh(np.vstack([m.points, [[0.0, 5.0]]]), m.cells, m.cell_type)
    m = zoo.renumber(fem.Cube(n=(3, 2, 2)), seed)
    out["hex"] = fem.Mesh(np.vstack([m.points, [[0.0, 5.0, 0.5], [3.0, 3.0, 3.0]]]), m.cells, m.cell_type)
    out["quad9"] = zoo.make("quad9", "renum", seed)
    out["tri6"] = zoo.make("triangle6", "renum", seed)
    out["hex-plain"] = fem.Cube(n=(3, 3, 2))
    return out


LAYOUTS = ("C", "F", "strided")


def laid_out(a, layout):
    """the same values in another memory layout (the library stores the array it is given)"""
    if layout == "F":
        return np.asfortranarray(a)
    if layout == "strided":
        big = np.zeros((a.shape[0], 2 * a.shape[1] + 1))
        big[:, 1::2] = a
        return big[:, 1::2]
    return np.ascontiguousarray(a)


def containers(name, mesh, seed, layout="C"):
    """list of (label, FieldContainer) on this mesh"""
    import felupe as fem

    out = []
    if name == "line":
        r = fem.Region(mesh, fem.Line(), fem.GaussLegendre(order=1, dim=1))
        out.append(("u1", fem.FieldContainer([fem.Field(r, dim=1)])))
        out.append(("u3", fem.FieldContainer([fem.Field(r, dim=3)])))
    elif name == "quad":
        r = fem.RegionQuad(mesh)
        out.append(("u2", fem.FieldContainer([fem.Field(r, dim=2)])))
        out.append(("u1", fem.FieldContainer([fem.Field(r, dim=1)])))
        out.append(("u,p", fem.FieldsMixed(r, n=2)))
        out.append(("u,p,J", fem.FieldsMixed(r, n=3)))
        out.append(("ps:u,p,J", fem.FieldsMixed(r, n=3, planestrain=True)))
        out.append(("u2,t1", fem.FieldContainer([fem.Field(r, dim=2), fem.Field(r, dim=1)])))
    elif name == "hex":
        r = fem.RegionHexahedron(mesh)
        out.append(("u3", fem.FieldContainer([fem.Field(r, dim=3)])))
        out.append(("u,p,J", fem.FieldsMixed(r, n=3)))
    elif name == "quad9":
        r = fem.RegionBiQuadraticQuad(mesh)
        out.append(("u,p,J", fem.FieldsMixed(r, n=3)))
    elif name == "tri6":
        r = fem.RegionQuadraticTriangle(mesh)
        out.append(("u,p,J", fem.FieldsMixed(r, n=3)))
    for lab, f in out:
        for k, fld in enumerate(f.fields):
            fld.values = laid_out(zoo.offarr(seed, 400 + k, fld.values.shape) + 0.0, layout)
    return out


def ref_index(field):
    sizes = [f.values.size for f in field.fields]
    off = np.concatenate([[0], np.cumsum(sizes)])
    idx = {}
    for fi, f in enumerate(field.fields):
        n, d = f.values.shape
        for p in range(n):
            for c in range(d):
                idx[(fi, p, c)] = int(off[fi] + d * p + c)
    return idx, off


def plan(tier, seed):
    cases = []
    for name in ("line", "quad", "hex", "quad9", "tri6"):
        cases.append(dict(key=f"numbering/{name}", kind="numbering", mesh=name, seed=seed))
    for name in ("line", "quad", "hex"):
        cases.append(dict(key=f"single/{name}", kind="single", mesh=name, seed=seed, cost=5))
    size = 3 if tier == "thorough" else 2
    for name, cont in (("quad", "u,p,J"), ("quad", "u2"), ("hex", "u,p,J"), ("tri6", "u,p,J"), ("quad9", "u,p,J")):
        for first in range(12):
            cases.append(dict(key=f"dict/{name}/{cont}/first={first}", kind="dict", mesh=name, cont=cont, first=first, size=size, seed=seed, cost=10))
    # the same dictionaries on fields whose value arrays are not C-contiguous (user-supplied start values)
    for name, cont in (("quad", "u,p,J"), ("hex", "u,p,J")):
        for first in range(12):
            cases.append(dict(key=f"dict/{name}/{cont}@F/first={first}", kind="dict", mesh=name, cont=cont, layout="F", first=first, size=2, seed=seed, cost=10))
    cases.append(dict(key="composite", kind="composite", seed=seed, cost=3))
    for lc in ("symmetry", "uniaxial", "biaxial", "shear"):
        for name in ("quad", "hex-plain"):
            cases.append(dict(key=f"loadcase/{lc}/{name}", kind="loadcase", lc=lc, mesh=name, seed=seed, cost=5))
    return cases


class Ctx:
    def __init__(self, key):
        self.key = key
        self.viol, self.nontrivial, self.outcomes = [], [], set()
        self.trans = self.traces = self.states = 0

    def bad(self, sub, what, obs, exp):
        self.viol.append(dict(key=f"{self.key}/{sub}", what=what, observed=obs, expected=exp, tol=0))

    def eq(self, sub, what, got, ref, nt=True):
        self.traces += 1
        got, ref = np.asarray(got), np.asarray(ref)
        ok = got.shape == ref.shape and np.array_equal(got, ref)
        if not ok:
            self.bad(sub, what, got.tolist() if got.size < 60 else f"array{got.shape}", ref.tolist() if ref.size < 60 else f"array{ref.shape}")
        return ok

    def result(self, sample):
        return dict(viol=self.viol, states=self.states, transitions=self.trans, traces=self.traces, nontrivial=self.nontrivial,
                    outcomes=sorted(self.outcomes), sample=sample, digest=f"{self.states}/{self.traces}/{len(self.viol)}")


# ----------------------------------------------------------------------------- numbering
def run_numbering(case):
    import felupe as fem

    c = Ctx(case["key"])
    mesh = meshes(case["seed"])[case["mesh"]]
    for lab, field in [(f"{l}@{lay}" if lay != "C" else l, f) for lay in LAYOUTS for l, f in containers(case["mesh"], mesh, case["seed"], lay)]:
        idx, off = ref_index(field)
        N = int(off[-1])
        c.eq(f"{lab}/offsets", "FieldContainer.offsets", field.offsets, off[1:-1])
        c.eq(f"{lab}/fieldsizes", "FieldContainer.fieldsizes", field.fieldsizes, np.diff(off))
        vals = fem.math.values(field)
        ref_vals = np.zeros(N)
        for (fi, p, cc), k in idx.items():
            ref_vals[k] = field.fields[fi].values[p, cc]
        c.eq(f"{lab}/values", "math.values reads unknown k at position k", vals, ref_vals)
        for fi, f in enumerate(field.fields):
            n, d = f.values.shape
            ref_dof = np.array([[d * p + cc for cc in range(d)] for p in range(n)])
            c.eq(f"{lab}/field{fi}/indices.dof", "indices.dof[point, comp]", f.indices.dof, ref_dof)
            cells = f.region.mesh.cells
            ref_cai = np.array([[[d * cells[e, a] + i for i in range(d)] for a in range(cells.shape[1])] for e in range(cells.shape[0])])
            c.eq(f"{lab}/field{fi}/indices.cai", "indices.cai[cell, a, comp]", f.indices.cai, ref_cai)
            c.eq(f"{lab}/field{fi}/getitem", "Field[dof] reads the flat value", f[np.arange(n * d)], f.values.ravel())
        # every unit increment e_k changes exactly unknown k (field + vector, in place, and the split tuple form)
        inv = {k: t for t, k in idx.items()}
        for k in range(N):
            e = np.zeros(N)
            e[k] = 1.0
            g = field + e
            c.trans += 1
            fi, p, cc = inv[k]
            for fj, (fo, fn) in enumerate(zip(field.fields, g.fields)):
                d = fn.values - fo.values
                exp = np.zeros_like(d)
                if fj == fi:
                    exp[p, cc] = 1.0
                if not np.array_equal(d, exp):
                    c.bad(f"{lab}/add/k={k}", "field + e_k must change exactly unknown k", f"field {fj} changed at {np.argwhere(d != 0).tolist()[:4]}", f"field {fi} point {p} comp {cc}")
            c.states += 1
            c.nontrivial.append(f"{lab}/k={k}")
        h = field.copy()
        e = np.arange(N, dtype=float)
        h += e
        c.eq(f"{lab}/iadd", "in-place update with a flat vector", fem.math.values(h), ref_vals + e)
        h2 = field.copy()
        h2 -= e
        c.eq(f"{lab}/isub", "in-place subtraction", fem.math.values(h2), ref_vals - e)
        parts = np.split(e, off[1:-1])
        c.eq(f"{lab}/add-tuple", "update with a tuple of per-field arrays", fem.math.values(field + parts), ref_vals + e)
        # extract order
        ex = field.extract(grad=False)
        c.eq(f"{lab}/extract-len", "extract returns one array per field", len(ex), len(field.fields))
    return c.result(dict(case=case["key"], unknowns=int(N)))


# ----------------------------------------------------------------------------- single boundaries
def predicates(md):
    P = [("unset", None, None), ("face0", 0.0, lambda x: np.isclose(x, 0.0)), ("half", None, None)]
    half = lambda x: x >= 0.5  # noqa
    out = []
    beyond = lambda x: x > 99.0  # noqa
    for combo in itertools.product(range(5), repeat=md):
        kw, fns = {}, []
        for ax, ch in enumerate(combo):
            name = ["fx", "fy", "fz"][ax]
            # 3 / 4: a plane position / a predicate that NO point of the mesh satisfies (with mode="and" the selection is empty)
            if ch == 3:
                kw[name] = 7.5
                fns.append((ax, lambda x: np.isclose(x, 7.5)))
            elif ch == 4:
                kw[name] = beyond
                fns.append((ax, beyond))
            if ch == 1:
                kw[name] = 0.0
                fns.append((ax, lambda x: np.isclose(x, 0.0)))
            elif ch == 2:
                kw[name] = half
                fns.append((ax, half))
        out.append((combo, kw, fns))
    return out


def ref_select(points, fns, mode, dim, skip):
    n = len(points)
    if not fns:
        pm = np.zeros(n, bool)
    else:
        ms = [fn(points[:, ax]) for ax, fn in fns]
        pm = np.logical_or.reduce(ms) if mode == "or" else np.logical_and.reduce(ms)
    sel = set()
    for p in np.where(pm)[0]:
        for cc in range(dim):
            if not skip[cc]:
                sel.add((int(p), cc))
    return sel


def run_single(case):
    import felupe as fem

    c = Ctx(case["key"])
    mesh = meshes(case["seed"])[case["mesh"]]
    md = mesh.dim
    for lab, field in containers(case["mesh"], mesh, case["seed"]):
        f = field.fields[0]
        dim = f.dim
        pts = f.region.mesh.points
        for combo, kw, fns in predicates(md):
            for mode in ("or", "and"):
                if mode == "and" and not fns:
                    continue
                for skip in itertools.product((0, 1), repeat=dim):
                    b = fem.Boundary(f, mode=mode, skip=skip, value=1.0, **kw)
                    c.trans += 1
                    sel = ref_select(pts, fns, mode, dim, skip)
                    ref_dof = np.array(sorted(dim * p + cc for p, cc in sel), dtype=int)
                    sub = f"{lab}/pred={combo}/mode={mode}/skip={skip}"
                    c.eq(sub + "/dof", "Boundary.dof", np.sort(b.dof), ref_dof)
                    c.eq(sub + "/points", "Boundary.points", b.points, np.array(sorted({p for p, _ in sel}), dtype=int))
                    c.states += 1
                    if 0 < len(sel) < f.values.size:
                        c.nontrivial.append(sub)
        # masks: point masks x skip, dof masks
        n = len(pts)
        fam = {
            "all": np.ones(n, bool), "none": np.zeros(n, bool), "even": np.arange(n) % 2 == 0,
            "sum>1": pts.sum(1) > 1.0, "one": np.arange(n) == (n // 2),
        }
        for mlab, pm in fam.items():
            for skip in itertools.product((0, 1), repeat=dim):
                b = fem.Boundary(f, mask=pm, skip=skip)
                c.trans += 1
                ref = sorted(dim * int(p) + cc for p in np.where(pm)[0] for cc in range(dim) if not skip[cc])
                c.eq(f"{lab}/mask={mlab}/skip={skip}/dof", "Boundary(mask=point mask, skip).dof", np.sort(b.dof), np.array(ref, dtype=int))
                c.states += 1
        for mlab, dm in (("checker", (np.add.outer(np.arange(n), np.arange(dim)) % 2 == 0)), ("col0", np.tile(np.arange(dim) == 0, (n, 1))), ("none", np.zeros((n, dim), bool))):
            if dim == 1:
                continue
            b = fem.Boundary(f, mask=dm)
            c.trans += 1
            ref = sorted(dim * int(p) + int(cc) for p, cc in np.argwhere(dm))
            c.eq(f"{lab}/dofmask={mlab}/dof", "Boundary(mask=dof mask).dof", np.sort(b.dof), np.array(ref, dtype=int))
            c.states += 1
    return c.result(dict(case=case["key"], mesh_dim=md))


# ----------------------------------------------------------------------------- dictionaries
def alphabet(field, seed, layout="C"):
    """12 boundary makers: returns list of (label, field index, maker(felupe) -> Boundary, selection set {(p,c)}, value spec)"""
    import felupe as fem

    f0 = field.fields[0]
    pts = f0.region.mesh.points
    n, dim = f0.values.shape
    md = pts.shape[1]
    half = lambda x: x >= 0.5  # noqa
    A = []

    def add(lab, fi, kw, fns, mode, skip, value_kind, mask=None):
        f = field.fields[fi]
        d = f.dim
        P = f.region.mesh.points
        sk = tuple(skip[:d]) if skip is not None else (0,) * d
        if mask is not None:
            if mask.ndim == 1:
                sel = {(int(p), cc) for p in np.where(mask)[0] for cc in range(d) if not sk[cc]}
            else:
                sel = {(int(p), int(cc)) for p, cc in np.argwhere(mask)}
        else:
            sel = ref_select(P, fns, mode, d, sk)
        order = sorted(sel)  # Boundary.dof is ascending: (p, c) lexicographic
        if value_kind == "scalar":
            value = float(0.1 * (len(A) + 1))
            vmap = {t: value for t in order}
        elif value_kind == "perdof":
            value = 1.0 + 0.01 * np.arange(len(order)) + len(A)
            vmap = {t: float(value[i]) for i, t in enumerate(order)}
        elif value_kind == "row":
            value = np.array([0.5 + cc + 10 * len(A) for cc in range(d)], float)
            vmap = {t: float(value[t[1]]) for t in order}
        elif value_kind == "rows":
            ps = sorted({p for p, _ in sel})
            value = np.array([[p + 0.25 * cc + 100 * len(A) for cc in range(d)] for p in ps], float)
            vmap = {(p, cc): float(value[i, cc]) for i, p in enumerate(ps) for cc in range(d)}

        def make(value=value, kw=kw, mode=mode, sk=sk, mask=mask, f=f, skip=skip):
            args = dict(value=value.copy() if isinstance(value, np.ndarray) else value)
            if layout == "F" and isinstance(value, np.ndarray) and value.ndim == 2:
                args["value"] = np.asfortranarray(args["value"])  # one row per point, Fortran order
            if mask is not None:
                return fem.Boundary(f, mask=mask, skip=sk if skip is not None else None, **args)
            return fem.Boundary(f, mode=mode, skip=sk, **kw, **args)

        A.append((lab, fi, make, sel, vmap))

    last = len(field.fields) - 1
    add("x0-all", 0, {"fx": 0.0}, [(0, lambda x: np.isclose(x, 0.0))], "or", None, "scalar")
    add("x1-comp0", 0, {"fx": 1.0}, [(0, lambda x: np.isclose(x, 1.0))], "or", (0, 1, 1), "scalar")
    if md > 1:
        add("y0-comp1", 0, {"fy": 0.0}, [(1, lambda x: np.isclose(x, 0.0))], "or", (1, 0, 1), "scalar")
        add("x0&y1", 0, {"fx": 0.0, "fy": 1.0}, [(0, lambda x: np.isclose(x, 0.0)), (1, lambda x: np.isclose(x, 1.0))], "and", None, "scalar")
        add("xhalf|y1-perdof", 0, {"fx": half, "fy": 1.0}, [(0, half), (1, lambda x: np.isclose(x, 1.0))], "or", None, "perdof")
    else:
        add("x1-all", 0, {"fx": 1.0}, [(0, lambda x: np.isclose(x, 1.0))], "or", None, "scalar")
        add("xhalf", 0, {"fx": half}, [(0, half)], "or", None, "scalar")
        add("xhalf-perdof", 0, {"fx": half}, [(0, half)], "or", None, "perdof")
    add("pmask-rows", 0, None, None, None, None, "rows", mask=pts.sum(1) > 1.0)
    if dim > 1:
        add("dofmask-checker", 0, None, None, None, None, "scalar", mask=(np.add.outer(np.arange(n), np.arange(dim)) % 2 == 0))
    else:
        add("pmask-even", 0, None, None, None, None, "scalar", mask=np.arange(n) % 2 == 0)
    add("x1-row", 0, {"fx": 1.0}, [(0, lambda x: np.isclose(x, 1.0))], "or", None, "row")
    fi = min(1, last)
    add("p-x0", fi, {"fx": 0.0}, [(0, lambda x: np.isclose(x, 0.0))], "or", None, "scalar")
    nl = len(field.fields[last].values)
    add("J-all", last, None, None, None, None, "scalar", mask=np.ones(nl, bool))
    add("xhalfline-comp0-perdof", 0, {"fx": 0.5}, [(0, lambda x: np.isclose(x, 0.5))], "or", (0, 1, 1), "perdof")
    add("empty", 0, {"fx": 7.0}, [(0, lambda x: np.isclose(x, 7.0))], "or", None, "scalar")
    assert len(A) == 12
    return A


def run_dict(case):
    import felupe as fem

    c = Ctx(case["key"])
    mesh = meshes(case["seed"])[case["mesh"]]
    field = dict(containers(case["mesh"], mesh, case["seed"], case.get("layout", "C")))[case["cont"]]
    idx, off = ref_index(field)
    N = int(off[-1])
    A = alphabet(field, case["seed"], case.get("layout", "C"))
    cur = np.zeros(N)  # current values by the reference numbering (not read through the library)
    for (fi, p, cc), k in idx.items():
        cur[k] = field.fields[fi].values[p, cc]
    # unknowns of points that belong to no cell (per field's own mesh)
    missing = set()
    for fi, f in enumerate(field.fields):
        m = f.region.mesh
        used = set(np.unique(m.cells).tolist())
        for p in range(m.npoints):
            if p not in used:
                for cc in range(f.dim):
                    missing.add(idx[(fi, p, cc)])
    first = case["first"]
    seqs = [(first,)]
    if case["size"] >= 2:
        seqs += [(first, j) for j in range(12) if j != first]
    if case["size"] >= 3:
        seqs += [(first, j, k) for j in range(12) for k in range(12) if len({first, j, k}) == 3]
    seen_states = set()
    for seq in seqs:
        bounds = {}
        sel_all = set(missing)
        vals = {}
        for a in seq:
            lab, fi, make, sel, vmap = A[a]
            bounds[lab] = make()
            for (p, cc) in sorted(sel):
                k = idx[(fi, p, cc)]
                sel_all.add(k)
                vals[k] = vmap[(p, cc)]
        dof0, dof1 = fem.dof.partition(field, bounds)
        ext0 = fem.dof.apply(field, bounds, dof0)
        c.trans += 2
        ref0 = np.array(sorted(sel_all), dtype=int)
        ref1 = np.array(sorted(set(range(N)) - sel_all), dtype=int)
        sub = "seq=" + ",".join(A[a][0] for a in seq)
        ok = c.eq(sub + "/dof0", "prescribed unknowns", dof0, ref0)
        c.eq(sub + "/dof1", "free unknowns", dof1, ref1)
        if ok:
            ref_ext = np.array([vals.get(int(k), cur[k]) for k in ref0])
            if not np.allclose(ext0, ref_ext, rtol=0, atol=0):
                j = int(np.argmax(np.abs(ext0 - ref_ext)))
                c.bad(sub + "/ext0", "prescribed value vector (last boundary in dict order wins, else current value)", dict(at_unknown=int(ref0[j]), got=float(ext0[j]), ref=float(ref_ext[j])), "equal")
            c.traces += 1
        full = fem.dof.apply(field, bounds)
        ref_full = cur.copy()
        for k, v in vals.items():
            ref_full[k] = v
        if not np.array_equal(full, ref_full):
            c.bad(sub + "/apply-full", "apply without dof0 returns the full vector", "differs", "equal")
        if not np.array_equal(fem.math.values(field), cur):
            c.bad(sub + "/field-mutated", "apply/partition changed the field", "changed", "unchanged")
        seen_states.add((tuple(ref0.tolist()), tuple(np.round([vals.get(int(k), cur[k]) for k in ref0], 12))))
        if 0 < len(ref0) < N:
            c.nontrivial.append(sub)
    c.states = len(seen_states)
    c.outcomes.add(f"distinct-partitions={len(seen_states)}")
    return c.result(dict(case=case["key"], dictionaries=len(seqs), unknowns=N, missing=len(missing)))


# ----------------------------------------------------------------------------- load cases
def run_loadcase(case):
    import felupe as fem

    c = Ctx(case["key"])
    seed = case["seed"]
    lc = case["lc"]
    geoms = []
    if case["mesh"] == "quad":
        geoms.append(("unit", fem.Rectangle(a=(0, 0), b=(2, 1), n=(3, 3))))
        geoms.append(("shifted", fem.Rectangle(a=(-1, -0.5), b=(1, 0.5), n=(5, 3))))
    else:
        geoms.append(("unit", fem.Cube(a=(0, 0, 0), b=(2, 1, 1), n=(3, 2, 3))))
        geoms.append(("shifted", fem.Cube(a=(-1, -0.5, 0), b=(1, 0.5, 1), n=(3, 3, 2))))
    for glab, mesh0 in geoms:
        mesh = zoo.renumber(mesh0, seed)
        md = mesh.dim
        region = fem.RegionQuad(mesh) if md == 2 else fem.RegionHexahedron(mesh)
        conts = [("u", fem.FieldContainer([fem.Field(region, dim=md)])), ("u,p,J", fem.FieldsMixed(region, n=3))]
        # fields whose number of components differs from the mesh dimension (three components on a plane mesh, two on a 3D
        # mesh): the planes are planes of the MESH, the components are components of the FIELD
        if lc in ("uniaxial", "biaxial"):
            conts.append((f"u{5 - md}-on-{md}d", fem.FieldContainer([fem.Field(region, dim=5 - md)])))
            conts.append((f"u{5 - md}-on-{md}d,s", fem.FieldContainer([fem.Field(region, dim=5 - md), fem.Field(region, dim=1)])))
        for clab, field in conts:
            f = field.fields[0]
            fd = f.dim
            nax = min(md, fd)
            f.values = zoo.offarr(seed, 500, f.values.shape) + 0.0
            X = mesh.points
            idx, off = ref_index(field)
            N = int(off[-1])
            cur = fem.math.values(field).copy()
            lo, hi = X.min(0), X.max(0)

            def judge(sub, res, table):
                """table: list of (axis, coordinate, component, value) in application order"""
                bounds, lcd = res
                sel, vals = set(), {}
                for ax, coord, comp, val in table:
                    for p in np.where(np.isclose(X[:, ax], coord))[0]:
                        k = idx[(0, int(p), comp)]
                        sel.add(k)
                        vals[k] = val
                ref0 = np.array(sorted(sel), dtype=int)
                ok = c.eq(sub + "/dof0", "load case prescribes exactly the documented planes/components", lcd["dof0"], ref0)
                c.eq(sub + "/dof1", "free unknowns", lcd["dof1"], np.array(sorted(set(range(N)) - sel), dtype=int))
                if ok:
                    ref_ext = np.array([vals[int(k)] for k in ref0])
                    if not np.array_equal(lcd["ext0"], ref_ext):
                        j = int(np.argmax(np.abs(lcd["ext0"] - ref_ext)))
                        c.bad(sub + "/ext0", "prescribed values of the load case", dict(unknown=int(ref0[j]), got=float(lcd["ext0"][j]), ref=float(ref_ext[j])), "equal")
                d0, d1 = fem.dof.partition(field, bounds)
                c.eq(sub + "/repartition", "partition(bounds) equals the returned dof0", d0, lcd["dof0"])
                c.trans += 2
                c.states += 1
                if 0 < len(ref0) < N:
                    c.nontrivial.append(sub)

            def symtable(sym, offs=(0.0, 0.0, 0.0)):
                return [(a, offs[a], a, 0.0) for a in range(nax) if sym[a]]

            if lc == "symmetry":
                for axes in itertools.product((False, True), repeat=3):
                    for offs in ((0.0, 0.0, 0.0), (float(hi[0]), float(lo[1]), 0.0)):
                        b = fem.dof.symmetry(f, axes=axes, x=offs[0], y=offs[1], z=offs[2])
                        if not b:
                            continue
                        d0, d1 = fem.dof.partition(field, b)
                        res = (b, dict(dof0=d0, dof1=d1, ext0=fem.dof.apply(field, b, d0)))
                        judge(f"{glab}/{clab}/axes={axes}/offs={offs}", res, symtable(axes, offs))
                # extension of a given dict keeps the given entries
                given = fem.dof.symmetry(f, axes=(True, False, False))
                ext = fem.dof.symmetry(f, axes=(False, True, False), bounds=given)
                c.eq(f"{glab}/{clab}/extend", "symmetry(bounds=...) extends the given dict", sorted(ext.keys()), ["symx", "symy"])
            elif lc == "uniaxial":
                syms = [True, False, (True, False, True), (False, True, False)]
                for axis in range(nax):
                    for clamped in (False, True):
                        for sym in syms:
                            s3 = (sym, sym, sym) if isinstance(sym, bool) else sym
                            zero_inside = lo[axis] < 0 < hi[axis]  # an explicit position of exactly 0.0 (an interior plane here)
                            for lr in ((None, None), (float(lo[axis]), float(hi[axis])), (None, float(lo[axis]) + (hi[axis] - lo[axis]) / 2)) + (((None, 0.0), (0.0, None), (0, float(hi[axis]))) if zero_inside else ()):
                                move = 0.2 + 0.1 * axis
                                res = fem.dof.uniaxial(field, left=lr[0], right=lr[1], move=move, axis=axis, clamped=clamped, sym=sym)
                                left = float(lo[axis]) if lr[0] is None else lr[0]
                                right = float(hi[axis]) if lr[1] is None else lr[1]
                                T = symtable(s3)
                                if not s3[axis]:
                                    T.append((axis, left, axis, 0.0))
                                if clamped:
                                    T += [(axis, right, cc, 0.0) for cc in range(fd) if cc != axis]
                                    if not s3[axis]:
                                        T += [(axis, left, cc, 0.0) for cc in range(fd) if cc != axis]
                                T.append((axis, right, axis, move))
                                judge(f"{glab}/{clab}/axis={axis}/clamped={clamped}/sym={sym}/lr={lr}", res, T)
            elif lc == "biaxial":
                pairs = [(0, 1), (1, 0)] + ([(0, 2), (2, 1)] if nax == 3 else [])
                for axes in pairs:
                    for clampes in itertools.product((False, True), repeat=2):
                        for sym in (True, False, (True, False, True), (False, True, False)):
                            s3 = (sym, sym, sym) if isinstance(sym, bool) else sym
                            moves = (0.2, -0.1)
                            zero_inside = all(lo[a] < 0 < hi[a] for a in axes)
                            for lefts, rights in (((None, None), (None, None)),) + ((((None, None), (0.0, None)), ((0.0, None), (None, None)), ((None, 0.0), (None, float(hi[axes[1]])))) if zero_inside else ()):
                                res = fem.dof.biaxial(field, lefts=lefts, rights=rights, moves=moves, axes=axes, clampes=clampes, sym=sym)
                                L = [float(lo[ax]) if lefts[i] is None else float(lefts[i]) for i, ax in enumerate(axes)]
                                R = [float(hi[ax]) if rights[i] is None else float(rights[i]) for i, ax in enumerate(axes)]
                                T = symtable(s3)
                                for i, ax in enumerate(axes):
                                    if not s3[ax]:
                                        T.append((ax, L[i], ax, -moves[i]))
                                for i, ax in enumerate(axes):
                                    if clampes[i]:
                                        T += [(ax, R[i], cc, 0.0) for cc in range(fd) if cc != ax]
                                        if not s3[ax]:
                                            T += [(ax, L[i], cc, 0.0) for cc in range(fd) if cc != ax]
                                    T.append((ax, R[i], ax, moves[i]))
                                judge(f"{glab}/{clab}/axes={axes}/clampes={clampes}/sym={sym}/lefts={lefts}/rights={rights}", res, T)
            elif lc == "shear":
                pairs = [(0, 1), (1, 0)] + ([(0, 2), (2, 0), (1, 2)] if md == 3 else [])
                for axes in pairs:
                    for sym in (True, False):
                        zero_inside = lo[axes[1]] < 0 < hi[axes[1]]
                        for moves, bt in [(m_, (None, None)) for m_ in ((0.2, 0.0, 0.0), (0.3, -0.05, 0.07))] + ([((0.3, -0.05, 0.07), (0.0, None)), ((0.3, -0.05, 0.07), (None, 0.0)), ((0.2, 0.0, 0.0), (0, float(hi[axes[1]])))] if zero_inside else []):
                            res = fem.dof.shear(field, bottom=bt[0], top=bt[1], moves=moves, axes=axes, sym=sym)
                            bottom = float(lo[axes[1]]) if bt[0] is None else float(bt[0])
                            top = float(hi[axes[1]]) if bt[1] is None else float(bt[1])
                            T = []
                            if sym:
                                T += [(a, 0.0, a, 0.0) for a in range(md) if a not in axes]
                            T += [(axes[1], bottom, cc, 0.0) for cc in range(md) if cc != axes[1]]
                            T += [(axes[1], top, cc, 0.0) for cc in range(md) if cc not in axes]
                            T.append((axes[1], bottom, axes[1], moves[1]))
                            T.append((axes[1], top, axes[1], moves[2]))
                            T.append((axes[1], top, axes[0], moves[0]))
                            judge(f"{glab}/{clab}/axes={axes}/sym={sym}/moves={moves}/bottom,top={bt}", res, T)
            if not np.array_equal(fem.math.values(field), cur):
                c.bad(f"{glab}/{clab}/field-mutated", "load case changed the field", "changed", "unchanged")
    return c.result(dict(case=case["key"]))


def run_composite(case):
    """bodies on cell ranges of one mesh whose mixed containers are numbered like the global container
    (FieldsMixed(sub-region, n=3, offset=first cell, npoints=all cells)): every range [first, last) of 6 cells (21 bodies).
    Same field layout as the global container, the J-unknown of cell c at offset_J + c (unit integrand), partition({})
    prescribes exactly the unknowns of points without cells of that body, container + global vector round trip."""
    import felupe as fem

    c = Ctx(case["key"])
    mesh = fem.Cube(b=(6, 1, 1), n=(7, 2, 2))
    nc, dim = mesh.ncells, mesh.dim
    region = fem.RegionHexahedron(mesh)
    glob = fem.FieldsMixed(region, n=3, npoints=nc)
    sizes = [mesh.npoints * dim, nc, nc]
    starts = np.concatenate([[0], np.cumsum(sizes)])
    N = int(starts[-1])
    c.eq("global/fieldsizes", "fieldsizes of the global container", list(glob.fieldsizes), sizes)
    for first in range(nc):
        for last in range(first + 1, nc + 1):
            lab = f"cells[{first}:{last}]"
            sub = mesh.copy()
            sub.update(cells=mesh.cells[first:last])
            sr = fem.RegionHexahedron(sub)
            body = fem.FieldsMixed(sr, n=3, offset=first, npoints=nc)
            c.trans += 1
            c.states += 1
            if not c.eq(lab + "/fieldsizes", "field layout of a body container = layout of the global container", list(body.fieldsizes), sizes):
                continue
            c.eq(lab + "/offsets", "offsets of a body container", list(body.offsets), list(starts[1:3]))
            nq, ncb = sr.dV.shape
            for fi in (1, 2):
                fun = [None, None, None]
                fun[fi] = np.ones((1, nq, ncb))
                vec = fem.IntegralForm(fun, v=body, dV=sr.dV, grad_v=[True, False, False]).assemble()
                vec.resize(N, 1)
                vec = vec.toarray().ravel()
                exp = np.zeros(N)
                exp[starts[fi] + np.arange(first, last)] = sr.dV.sum(0)
                c.traces += 1
                if np.abs(vec - exp).max() > 1e-13:
                    c.bad(lab + f"/unit-form/field{fi}", "the dual unknown of cell c sits at offset(field) + c (unit integrand per field)", np.flatnonzero(vec).tolist(), np.flatnonzero(exp).tolist())
            used = np.unique(mesh.cells[first:last])
            ufix = np.setdiff1d(np.arange(mesh.npoints), used)
            dfix = np.setdiff1d(np.arange(nc), np.arange(first, last))
            exp0 = np.sort(np.concatenate([(dim * ufix.reshape(-1, 1) + np.arange(dim)).ravel(), starts[1] + dfix, starts[2] + dfix])).astype(int)
            d0, d1 = fem.dof.partition(body, {})
            c.eq(lab + "/dof0", "partition({}) prescribes exactly the unknowns of points without cells of this body (global numbering)", d0, exp0)
            c.eq(lab + "/cover", "dof0 and dof1 cover all unknowns once", np.sort(np.concatenate([d0, d1])), np.arange(N))
            dx = np.arange(N, dtype=float) + 1.0
            try:
                new = body + dx
                c.eq(lab + "/add", "container + global vector changes unknown k by entry k", fem.math.values(new) - fem.math.values(body), dx)
            except Exception as ex:  # noqa
                c.bad(lab + "/add/exception", "container + global vector raised", repr(ex)[:120], "a container")
            c.nontrivial.append(lab)
    return c.result(dict(case=case["key"], bodies=nc * (nc + 1) // 2))


def run(case):
    return {"numbering": run_numbering, "single": run_single, "dict": run_dict, "loadcase": run_loadcase, "composite": run_composite}[case["kind"]](case)
