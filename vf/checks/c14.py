"""C14 Forces balance and load resultants equal the applied loads.

Bounded-exhaustive exploration of balance identities over field kinds x element families x
zoo members x displacement states x objective materials x loads.  Resultants are compared
with closed forms the checker evaluates itself: density * acceleration * volume, the Stokes
area vector of the *current* face loops (follower pressure), explicit sums over points.
"""

import itertools
import warnings

import numpy as np

from .. import zoo
from .c01 import MIXED_FIELDS, SOLID_FIELDS, boundary_field, make_field, material, set_state, values_of

ID = "C14"
RULE = (
    "case = (load/identity kind, field kind, element family, zoo member, material, state amplitude); inside a case: "
    "sum of internal nodal forces per component (axial component only for axisymmetric bodies), total moment "
    "sum x_a x f_a about the origin and about a shifted point (objective materials), body force / gravity resultant = "
    "scale * values * volume, point load vector = its values at its dofs (times 2 pi R if axisymmetric), follower "
    "pressure resultant = -p * sum of current face area vectors (Stokes, checker-side) and 0 on closed surfaces, mass "
    "matrix symmetric, positive semi-definite, total mass per direction, MPC / contact forces self-equilibrated."
)
ASSUMPTIONS = [
    "Volume from the region's dV (decided by C06); current face area vectors from the checker's own Stokes integral over the deformed face loops (vf/checks/c13.py).",
    "Tolerance 1e-10 relative to the largest nodal force / resultant.",
]
TOL = 1e-10


def BOUNDS(tier):
    return {"amplitudes": [0.0, 0.15], "families": len(SOLID_FIELDS), "materials": ["NeoHooke", "NeoHookeCompressible", "tt-mooney", "OgdenRoxburgh-softened", "tt-visco"],
            "mass_call_histories": "depth <= 3 over {mass(), mass(density=0.9), mass(density=4), mass() + in-place edit}"}


MATS = ["NeoHooke", "NeoHookeCompressible", "tt-mooney", "OgdenRoxburgh-softened", "tt-visco", "LELS"]


def plan(tier, seed):
    cases = []
    quick = tier == "quick"
    for (lab, mk, mem, fk) in SOLID_FIELDS:
        if fk == "2d":
            continue
        mats = MATS if (not quick or lab in ("3d/hexahedron", "ps/quad", "axi/quad")) else ["NeoHooke", "tt-mooney"]
        for mat in mats:
            for amp in (0.0, 0.15):
                cases.append(dict(key=f"balance/{lab}/{mem}/{mat}/amp={amp}", kind="balance", mesh=mk, member=mem, fk=fk, mat=mat, amp=amp, seed=seed, cost=3))
    # the condensed (nearly-incompressible) body: balance of its nodal forces after every call history on ONE body
    for fk, mk in (("3d", "hexahedron"), ("ps", "quad"), ("axi", "quad")):
        cases.append(dict(key=f"balance-condensed/{fk}", kind="balance-ni", mesh=mk, member="renum", fk=fk, amp=0.12, seed=seed, cost=4))
    for (lab, mk, mem, fk) in MIXED_FIELDS:
        cases.append(dict(key=f"balance-{lab}/{mem}", kind="balance-mixed", mesh=mk, member=mem, fk=fk, amp=0.1, seed=seed, cost=3))
    for (lab, mk, mem, fk) in SOLID_FIELDS:
        if fk == "2d":
            continue
        cases.append(dict(key=f"bodyforce/{lab}/{mem}", kind="bodyforce", mesh=mk, member=mem, fk=fk, amp=0.1, seed=seed))
        cases.append(dict(key=f"mass/{lab}/{mem}", kind="mass", mesh=mk, member=mem, fk=fk, amp=0.1, seed=seed, cost=2))
    for fk, mk in (("3d", "hexahedron"), ("3d", "hexahedron20"), ("3d", "hexahedron27"), ("ps", "quad"), ("ps", "quad8"), ("ps", "quad9"), ("axi", "quad")):
        for amp in (0.0, 0.12):
            cases.append(dict(key=f"pressure/{fk}/{mk}/amp={amp}", kind="pressure", mesh=mk, fk=fk, amp=amp, seed=seed, cost=4))
    for fk, mk in (("3d", "hexahedron"), ("ps", "quad"), ("axi", "quad"), ("mixed3d", "hexahedron")):
        cases.append(dict(key=f"pointload/{fk}", kind="pointload", mesh=mk, fk=fk, seed=seed))
        # (field values held in another memory layout: column-major start values, a view on a wider table)
        for lay in ("F", "view"):
            cases.append(dict(key=f"pointload/{fk}/values={lay}", kind="pointload", mesh=mk, fk=fk, layout=lay, seed=seed))
    for fk, mk in (("3d", "hexahedron"), ("ps", "quad")):
        cases.append(dict(key=f"constraints/{fk}", kind="constraints", mesh=mk, fk=fk, seed=seed))
    return cases


class Ctx:
    def __init__(self, key):
        self.key = key
        self.viol, self.nontrivial, self.outcomes, self.notes = [], [], set(), []
        self.trans = self.traces = self.states = 0

    def bad(self, sub, what, obs, exp, tol=TOL):
        self.viol.append(dict(key=f"{self.key}/{sub}", what=what, observed=obs, expected=exp, tol=tol))

    def close(self, sub, what, got, ref, scale, tol=TOL):
        self.traces += 1
        self.states += 1
        got, ref = np.asarray(got, float), np.asarray(ref, float)
        err = np.abs(got - ref).max() / max(scale, 1e-12)
        if np.abs(ref).max() > 1e-12 * max(scale, 1e-12) or True:
            self.nontrivial.append(sub)
        if not err <= tol:
            self.bad(sub, what, got.tolist(), ref.tolist(), tol)

    def result(self, sample):
        return dict(viol=self.viol, states=self.states, transitions=self.trans, traces=self.traces, nontrivial=self.nontrivial, outcomes=sorted(self.outcomes),
                    sample=sample, notes=self.notes, digest=f"{self.states}/{self.traces}/{len(self.viol)}")


def nodal(field, vec, k=0):
    off = np.concatenate([[0], np.cumsum([f.values.size for f in field.fields])])
    f = field.fields[k]
    return np.asarray(vec)[off[k]:off[k + 1]].reshape(f.values.shape)


def geometry_nodes(mk, mesh):
    """mask of points which carry geometry (bubble points of MINI meshes do not)"""
    m = np.ones(mesh.npoints, bool)
    if mk.endswith("mini"):
        m[np.unique(mesh.cells[:, -1])] = False
    return m


def run(case):
    import felupe as fem

    warnings.simplefilter("ignore")
    c = Ctx(case["key"])
    kind, seed = case["kind"], case["seed"]
    if kind in ("balance", "balance-mixed"):
        mixed = kind == "balance-mixed"
        mesh, region, field = make_field(case["mesh"], case["member"], case["fk"], seed, mixed=mixed)
        set_state(field, mesh, case["amp"], seed, 0.2, 1.05)
        if mixed:
            um, sv = fem.ThreeFieldVariation(fem.NeoHooke(mu=1.3, bulk=7.0)), None
        else:
            um, sv = material(case["mat"], region)
        body = fem.SolidBody(um, field, statevars=sv)
        r = body.assemble.vector(field).toarray()[:, 0]
        c.trans += 1
        f = nodal(field, r)
        scale = np.abs(f).max()
        nd = mesh.dim
        if case["fk"] == "axi":
            c.close("sum-axial", "sum of internal nodal forces, axial component", f[:, 0].sum(), 0.0, scale * len(f))
            c.outcomes.add("radial-sum=%.3g" % f[:, 1].sum())
        else:
            x = mesh.points + field.fields[0].values
            gm = geometry_nodes(case["mesh"], mesh)
            # (hierarchical bubble dofs of MINI cells are internal unknowns, not nodes: the vertex forces sum to zero and
            #  a rigid rotation of x = sum x_a lambda_a + u_b b varies the bubble dof by omega x u_b)
            c.close("sum", "sum of internal nodal forces", f[gm].sum(0), np.zeros(nd), scale * len(f))
            x = np.where(gm[:, None], x, field.fields[0].values)
            for lab, x0 in (("origin", np.zeros(nd)), ("shifted", np.arange(1, nd + 1) * 0.7)):
                arm = np.where(gm[:, None], x - x0, x)  # bubble dofs: lever arm u_b, independent of the reference point
                if nd == 3:
                    M = np.cross(arm, f).sum(0)
                else:
                    M = (arm[:, 0] * f[:, 1] - arm[:, 1] * f[:, 0]).sum()
                c.close(f"moment/{lab}", "total moment of the internal nodal forces", M, 0 * np.asarray(M), scale * len(f) * max(1.0, np.abs(x - x0).max()))
        return c.result(dict(case=case["key"], nodes=int(len(f)), max_force=float(scale)))
    if kind == "balance-ni":
        mesh, region, field = make_field(case["mesh"], case["member"], case["fk"], seed)
        hm = set_state(field, mesh, case["amp"], seed)
        nd = mesh.dim
        UA = field.fields[0].values.copy()
        UB = UA * -0.7 + 0.3 * hm * zoo.offarr(seed, 1013, UA.shape)
        ops = [(w, X) for w in ("vector", "matrix", "gradient", "cauchy_stress") for X in ("A", "B")] + [("vector", None)]
        nh = 0
        for d_ in (1, 2, 3):
            for seq in itertools.product(range(len(ops)), repeat=d_):
                if ops[seq[-1]][0] != "vector":
                    continue
                field.fields[0].values[:] = UA
                body = fem.SolidBodyNearlyIncompressible(fem.NeoHooke(mu=1.0), field, bulk=20.0)
                for k in seq:
                    w, X = ops[k]
                    fn = getattr(body.assemble if w in ("vector", "matrix") else body.evaluate, w)
                    if X is not None:
                        field.fields[0].values[:] = UA if X == "A" else UB
                        got = fn(field)
                    else:
                        got = fn()
                    c.trans += 1
                f = nodal(field, got.toarray()[:, 0])
                scale = max(np.abs(f).max(), 1e-12)
                lab = "history=" + " > ".join(f"{ops[i][0]}({'field@' + ops[i][1] if ops[i][1] else ''})" for i in seq)
                if case["fk"] == "axi":
                    c.close(lab + "/sum-axial", "sum of the nodal forces of the condensed body, axial component", f[:, 0].sum(), 0.0, scale * len(f))
                else:
                    x = mesh.points + field.fields[0].values
                    c.close(lab + "/sum", "sum of the nodal forces of the condensed body", f.sum(0), np.zeros(nd), scale * len(f))
                    arm = x - np.arange(1, nd + 1) * 0.7
                    M = np.cross(arm, f).sum(0) if nd == 3 else (arm[:, 0] * f[:, 1] - arm[:, 1] * f[:, 0]).sum()
                    c.close(lab + "/moment", "total moment of the nodal forces of the condensed body (about a shifted point)", M, 0 * np.asarray(M), scale * len(f) * max(1.0, np.abs(arm).max()))
                nh += 1
        c.outcomes.add(f"condensed-histories={nh}")
        return c.result(dict(case=case["key"], histories=nh))
    if kind == "bodyforce":
        mesh, region, field = make_field(case["mesh"], case["member"], case["fk"], seed)
        set_state(field, mesh, case["amp"], seed)
        nd = mesh.dim
        w = region.dV * (2 * np.pi * field[0].radius if case["fk"] == "axi" else 1.0)
        V = float(np.sum(w))
        # (the last two: earth gravity on steel in the unit systems mm-g-us (values 1e-8, density 1e-3) and mm-t-s (1e4, 1e-9))
        for vals, scale_ in (([0.3, -0.2, 0.5], 1.5), ([1.0, 0.0, 0.0], -2.0), ([0.0, 0.0, 0.0], 3.0), ([9.81e-9, -2.0e-9, 0.0], 7.85e-3), ([9.81e3, 0.0, -1.0e3], 7.85e-9)):
            v = vals[:nd] if case["fk"] != "axi" else [vals[0], vals[1], 0.0]
            for item, lab in ((fem.SolidBodyForce(field, values=v, scale=scale_), "force"), (fem.SolidBodyGravity(field, gravity=v, density=scale_), "gravity")):
                r = item.assemble.vector(field).toarray()[:, 0]
                c.trans += 1
                f = nodal(field, r)
                gm = geometry_nodes(case["mesh"], mesh)
                c.close(f"{lab}/values={vals}/scale={scale_}", "resultant of the body force vector", f[gm].sum(0), scale_ * np.array(v[:nd]) * V, max(abs(scale_) * V * max(np.abs(v).max(), 1e-300), 1e-300))
                if item.assemble.multiplier != -1.0:
                    c.bad(f"{lab}/multiplier", "a load enters the residual with multiplier -1", item.assemble.multiplier, -1.0)
        # update histories: items created with one value (integers, floats, zeros) and then updated (as a Step ramp does), every
        # ordered pair and triple of values: the resultant must follow the LAST value given
        gm = geometry_nodes(case["mesh"], mesh)
        values = [[0, 0, 0], [1, -2, 3], [0.25, -0.75, 0.5], [0.0, 0.0, -9.81], np.array([2, 0, 1])]
        for seq in list(itertools.permutations(range(len(values)), 2)) + [(0, 2, 1), (1, 3, 0), (4, 2, 3)]:
            for lab in ("force", "gravity"):
                def cut(vv):
                    vv = list(vv)
                    return vv[:nd] if case["fk"] != "axi" else [vv[0], vv[1], 0]

                v0 = cut(values[seq[0]])
                item = fem.SolidBodyForce(field, values=v0, scale=1.5) if lab == "force" else fem.SolidBodyGravity(field, gravity=v0, density=1.5)
                item.assemble.vector(field)
                for k in seq[1:]:
                    item.update(cut(values[k]))
                    c.trans += 1
                r = item.assemble.vector(field).toarray()[:, 0]
                f = nodal(field, r)
                last = np.array(cut(values[seq[-1]]), dtype=float)[:nd]
                c.close(f"{lab}/update-history={[list(map(float, values[i])) for i in seq]}", "resultant of the body force after update() = scale x LAST values x volume", f[gm].sum(0), 1.5 * last * V, max(1.5 * V, 1e-9))
        return c.result(dict(case=case["key"], volume=V))
    if kind == "mass":
        mesh, region, field = make_field(case["mesh"], case["member"], case["fk"], seed)
        set_state(field, mesh, case["amp"], seed)
        nd = mesh.dim
        for rho in (1.7, 0.3):
            for B in (fem.SolidBody(fem.NeoHooke(mu=1.0, bulk=2.0), field, density=rho), fem.SolidBodyNearlyIncompressible(fem.NeoHooke(mu=1.0), field, bulk=50.0, density=rho)):
                M = B.assemble.mass().toarray()
                c.trans += 1
                lab = type(B).__name__ + f"/rho={rho}"
                V = float(np.sum(region.dV * (2 * np.pi * field[0].radius if case["fk"] == "axi" else 1.0)))
                sc = np.abs(M).max()
                c.close(lab + "/symmetric", "mass matrix symmetric", M - M.T, 0 * M, sc, 1e-13)
                lam = np.linalg.eigvalsh(0.5 * (M + M.T))
                c.traces += 1
                if lam.min() < -1e-12 * sc * len(M):
                    c.bad(lab + "/psd", "mass matrix positive semi-definite", float(lam.min()), ">= 0")
                gm = geometry_nodes(case["mesh"], mesh)
                Mg = M.reshape(len(gm), nd, len(gm), nd)[gm][:, :, gm]
                tot = np.array([Mg[:, i, :, i].sum() for i in range(nd)])
                c.close(lab + "/total", "total mass per direction = density * volume", tot, np.full(nd, rho * V), rho * V)
                off = np.array([M[i::nd, j::nd].sum() for i in range(nd) for j in range(nd) if i != j])
                c.close(lab + "/decoupled", "no mass coupling between directions", off, 0 * off, rho * V)
        # call histories on one body: every sequence (depth <= 3) over {mass(), mass(density=r1), mass(density=r2),
        # mass() followed by an in-place edit of the returned matrix}; every returned matrix must be the mass matrix of
        # the density it was asked for (the body's own density for the default call)
        ops = [("default", None, False), ("rho=0.9", 0.9, False), ("rho=4.0", 4.0, False), ("default+edit", None, True)]
        for mkbody in ("SolidBody", "SolidBodyNearlyIncompressible"):
            ref1 = None
            for depth in (1, 2, 3):
                for seq in itertools.product(range(len(ops)), repeat=depth):
                    rho0 = 1.7
                    B = fem.SolidBody(fem.NeoHooke(mu=1.0, bulk=2.0), field, density=rho0) if mkbody == "SolidBody" else fem.SolidBodyNearlyIncompressible(fem.NeoHooke(mu=1.0), field, bulk=50.0, density=rho0)
                    if ref1 is None:
                        ref1 = B.assemble.mass(density=1.0).toarray()
                        B = fem.SolidBody(fem.NeoHooke(mu=1.0, bulk=2.0), field, density=rho0) if mkbody == "SolidBody" else fem.SolidBodyNearlyIncompressible(fem.NeoHooke(mu=1.0), field, bulk=50.0, density=rho0)
                    for step, k in enumerate(seq):
                        name, rho, edit = ops[k]
                        M = B.assemble.mass() if rho is None else B.assemble.mass(density=rho)
                        c.trans += 1
                        want = (rho0 if rho is None else rho) * ref1
                        c.traces += 1
                        if np.abs(M.toarray() - want).max() > 1e-12 * np.abs(want).max():
                            c.bad(f"{mkbody}/history={'.'.join(ops[i][0] for i in seq[:step + 1])}", "mass matrix returned after this call history is not density x (unit-density mass matrix)", float(np.abs(M.toarray() - want).max() / np.abs(want).max()), 0, 1e-12)
                            break
                        if edit:
                            M *= 0.5
                            M.data[:] += 1.0
                    else:
                        if depth > 1:
                            c.nontrivial.append(f"{mkbody}/{seq}")
        return c.result(dict(case=case["key"], size=int(len(M.toarray()))))
    if kind == "pressure":
        from .c13 import ELEMENT, face_area_vector, ref_faces

        mk, fk = case["mesh"], case["fk"]
        member = "renum" if mk in ("hexahedron", "quad") else "curved"
        mesh, region, field = make_field(mk, member, fk, seed)
        set_state(field, mesh, case["amp"], seed)
        tw = zoo.make(mk, "block", seed)
        if member == "renum":
            tw = zoo.renumber(tw, seed)
        P = tw.points
        el = getattr(fem.element, ELEMENT[mk])()
        RF = ref_faces(el)
        x = mesh.points + field.fields[0].values
        masks = {"closed": None}
        for a in range(mesh.dim):
            masks[f"{'xyz'[a]}max"] = np.isclose(P[:, a], P[:, a].max())
            masks[f"{'xyz'[a]}min"] = np.isclose(P[:, a], P[:, a].min())
        count = {}
        for cell in mesh.cells:
            for fdef in RF:
                ns = frozenset(int(cell[i]) for i in fdef["nodes"])
                count[ns] = count.get(ns, 0) + 1
        for mlab, mask in masks.items():
            rb, fb = boundary_field(mk, mesh, fk, field, mask)
            fb.fields[0].values = field.fields[0].values
            for p in (0.7, -1.3):
                load = fem.SolidBodyPressure(fb, pressure=p)
                r = load.assemble.vector(fb).toarray()[:, 0]
                c.trans += 1
                f = r.reshape(-1, mesh.dim)
                # checker-side resultant: -p * sum of the current (outward) area vectors of the loaded faces
                tot = np.zeros(mesh.dim)
                totw = np.zeros(mesh.dim)
                for cell in mesh.cells:
                    for fdef in RF:
                        ns = frozenset(int(cell[i]) for i in fdef["nodes"])
                        if count[ns] == 1 and (mask is None or all(mask[i] for i in ns)):
                            if fk == "axi":
                                # axisymmetric: 2 pi R weighted; use the face quadrature of the region itself for the radius
                                pass
                            tot += face_area_vector(fdef, x, cell)
                if fk == "axi":
                    # axial resultant of a pressure on a surface of revolution: -p * 2 pi * int r n_z ds = -p * pi * sum (r_b^2 - r_a^2) orientation-wise
                    axial = 0.0
                    for cell in mesh.cells:
                        for fdef in RF:
                            ns = frozenset(int(cell[i]) for i in fdef["nodes"])
                            if count[ns] == 1 and (mask is None or all(mask[i] for i in ns)):
                                i, j = fdef["loop"]
                                ra, rbb = x[cell[i], 1], x[cell[j], 1]
                                # n_z ds = d r (outward normal (dy, -dx) with coordinates (z, r): n_z ds = dr)
                                axial += np.pi * (rbb**2 - ra**2)
                    c.close(f"{mlab}/p={p}/axial", "axial resultant of the follower pressure on a surface of revolution", f[:, 0].sum(), -p * axial, max(abs(p) * 2 * np.pi, 1e-9), 1e-9)
                else:
                    c.close(f"{mlab}/p={p}/resultant", "follower pressure resultant = -p * integrated current area vector", f.sum(0), -p * tot, max(abs(p) * np.abs(x).max() ** (mesh.dim - 1), 1e-9), 1e-9)
                # a pressure that varies along the surface, given per quadrature point and boundary cell (q, c), per cell (c,)
                # and as a constant array: resultant = - sum_qc p_qc da_qc with the current area vectors da = J F^-T dA
                if fk != "axi":
                    Fb = fb.extract()[0]
                    dA_ = np.asarray(rb.dA, float)
                    if dA_.shape[0] < Fb.shape[0]:
                        dA_ = np.pad(dA_, ((0, Fb.shape[0] - dA_.shape[0]), (0, 0), (0, 0)))
                    Fi = np.linalg.inv(np.moveaxis(Fb, (0, 1), (-2, -1)))  # q,c,3,3
                    da_ = np.linalg.det(np.moveaxis(Fb, (0, 1), (-2, -1)))[None] * np.einsum("qcji,jqc->iqc", Fi, dA_)
                    hq_ = np.asarray(rb.h)[:, :, 0] if np.asarray(rb.h).ndim == 3 else np.asarray(rb.h)
                    Xq_ = np.einsum("caI,aq->Iqc", mesh.points[rb.mesh.cells], hq_)
                    nq_, nc_ = dA_.shape[1:]
                    for alab, parr in (("(q,c)-affine", p * (1.0 + 0.3 * Xq_[0] - 0.2 * Xq_[1])), ("(c,)", p * (1.0 + 0.1 * np.arange(nc_))), ("(q,c)-constant", p * np.ones((nq_, nc_)))):
                        try:
                            ra_ = fem.SolidBodyPressure(fb, pressure=parr).assemble.vector(fb).toarray()[:, 0]
                        except Exception as ex:  # noqa
                            c.bad(f"{mlab}/p={p}/array={alab}/exception", "array-valued pressure raised", repr(ex)[:160], "a vector")
                            continue
                        c.trans += 1
                        want_ = -(np.broadcast_to(parr, (nq_, nc_))[None] * da_).sum((1, 2))[: mesh.dim]
                        c.close(f"{mlab}/p={p}/array={alab}/resultant", "resultant of a pressure given as an array over quadrature points / cells of the boundary = - sum p da", ra_.reshape(-1, mesh.dim).sum(0), want_, max(abs(p) * np.abs(x).max() ** (mesh.dim - 1), 1e-9), 1e-9)
                if load.assemble.multiplier != -1.0:
                    c.bad("multiplier", "a load enters the residual with multiplier -1", load.assemble.multiplier, -1.0)
                # call history on the same item: vector(), vector(pressure=2.5), vector(pressure=-0.4), vector(field, pressure=1.5),
                # vector(): the resultant follows the CURRENT pressure (linear in it) at the unchanged state
                # (... through exactly zero -- the zero crossing of a sign-changing pressure table, float and integer zero -- and on)
                for kw_, pk in ((dict(), p), (dict(pressure=2.5), 2.5), (dict(pressure=-0.4), -0.4), (dict(field=fb, pressure=1.5), 1.5), (dict(), 1.5),
                                (dict(pressure=0.0), 0.0), (dict(), 0.0), (dict(pressure=-0.8), -0.8), (dict(field=fb, pressure=0), 0.0), (dict(pressure=0.6), 0.6)):
                    rk = load.assemble.vector(**kw_).toarray()[:, 0]
                    c.trans += 1
                    c.close(f"{mlab}/p={p}/history/{sorted(kw_)}->{pk}", "follower pressure vector after a call history on one item = (current pressure / first pressure) x first vector", rk, pk / p * r, max(np.abs(r).max() * abs(pk / p), 1e-12), 1e-12)
        return c.result(dict(case=case["key"], masks=len(masks)))
    if kind == "pointload":
        mixed = case["fk"] == "mixed3d"
        fk = "3d" if mixed else case["fk"]
        mesh, region, field = make_field(case["mesh"], "renum", fk, seed, mixed=mixed)
        if case.get("layout") == "F":
            field.fields[0].values = np.asfortranarray(field.fields[0].values + 0.01 * zoo.offarr(seed, 1420, field.fields[0].values.shape))
        elif case.get("layout") == "view":
            wide_ = np.zeros((field.fields[0].values.shape[0], field.fields[0].values.shape[1] + 2))
            wide_[:, 1:-1] = field.fields[0].values + 0.01 * zoo.offarr(seed, 1420, field.fields[0].values.shape)
            field.fields[0].values = wide_[:, 1:-1]
        nd = mesh.dim
        N = values_of(field).size
        for pts in ([1], [1, 5, 3], [0, 2, 4, 6]):
            for vals in (np.arange(1, len(pts) * nd + 1, dtype=float).reshape(len(pts), nd) / 7, np.array([0.5, -1.0, 2.0][:nd])):
                for axisym in ((False, True) if fk == "axi" else (False,)):
                    load = fem.PointLoad(field, pts, values=vals, axisymmetric=axisym)
                    r = load.assemble.vector(field).toarray()[:, 0]
                    c.trans += 1
                    ref = np.zeros(N)
                    V = np.broadcast_to(vals, (len(pts), nd))
                    for k, p in enumerate(pts):
                        fac = 2 * np.pi * mesh.points[p, 1] if axisym else 1.0
                        ref[nd * p:nd * p + nd] = V[k] * fac
                    c.close(f"points={pts}/rowwise={vals.ndim == 2}/axisymmetric={axisym}", "point load vector = its values at its dofs, zero elsewhere", r, ref, np.abs(ref).max())
                    # update histories (a Step ramp calls update() in every substep): one and two updates, assembled (with and
                    # without the field) after each; the vector follows the LAST values, scaled as at creation
                    for useq in ((2.0,), (0.0, -1.5), (3.0, 3.0)):
                        load2 = fem.PointLoad(field, pts, values=vals, axisymmetric=axisym)
                        load2.assemble.vector(field)
                        for fac_ in useq:
                            load2.update(vals * fac_)
                            c.trans += 1
                        for call in ("vector(field)", "vector()"):
                            r2 = (load2.assemble.vector(field) if call == "vector(field)" else load2.assemble.vector()).toarray()[:, 0]
                            c.close(f"points={pts}/rowwise={vals.ndim == 2}/axisymmetric={axisym}/updates={useq}/{call}", "point load vector after update(): the last values (x 2 pi r if axisymmetric) at its dofs", r2, ref * useq[-1], max(np.abs(ref).max() * max(abs(useq[-1]), 1.0), 1e-12))
        # `apply_on`: the load acts on another field of the container (a source on the pressure / volume-ratio field of a mixed
        # container, on the second field of a two-field container): its values at that field's unknowns, zero everywhere else
        conts = []
        if mixed:
            conts.append(("u,p,J", field))
        else:
            Fk = {"3d": fem.Field, "ps": fem.FieldPlaneStrain, "axi": fem.FieldAxisymmetric}[fk]
            conts.append(("u,T", fem.FieldContainer([Fk(region, dim=nd), fem.Field(region, dim=1)])))
            conts.append(("u,w", fem.FieldContainer([Fk(region, dim=nd), fem.Field(region, dim=nd)])))
        for clab, cont in conts:
            off = np.concatenate([[0], np.cumsum(cont.fieldsizes)])
            for k_ in range(len(cont.fields)):
                fk_ = cont.fields[k_]
                npk = fk_.values.shape[0]
                ptsk = [p_ for p_ in (0, 2, 3) if p_ < npk]
                vk = (np.arange(1, len(ptsk) * fk_.dim + 1, dtype=float).reshape(len(ptsk), fk_.dim) / 3)
                load = fem.PointLoad(cont, ptsk, values=vk, apply_on=k_)
                r = load.assemble.vector(cont).toarray()[:, 0]
                c.trans += 1
                ref = np.zeros(int(off[-1]))
                for j_, p_ in enumerate(ptsk):
                    ref[off[k_] + fk_.dim * p_: off[k_] + fk_.dim * p_ + fk_.dim] = vk[j_]
                if r.shape != ref.shape:
                    c.bad(f"apply_on/{clab}/field{k_}/shape", "length of the point-load vector", list(r.shape), list(ref.shape))
                    continue
                c.close(f"apply_on/{clab}/field{k_}", "point load with apply_on: its values at the unknowns of THAT field, zero elsewhere", r, ref, np.abs(ref).max())
        return c.result(dict(case=case["key"], unknowns=int(N)))
    if kind == "constraints":
        mk, fk = case["mesh"], case["fk"]
        mesh, region, field = make_field(mk, "renum", fk, seed)
        tw = zoo.renumber(zoo.make(mk, "block", seed), seed)
        pts = np.where(np.isclose(tw.points[:, 0], tw.points[:, 0].max()))[0]
        centre = mesh.points.max(0) + 0.0
        centre[0] += 0.3
        mesh2 = fem.Mesh(np.vstack([mesh.points, centre]), mesh.cells, mesh.cell_type)
        region2 = zoo.region(mk, mesh2)
        F = fem.Field if fk == "3d" else fem.FieldPlaneStrain
        field = fem.FieldContainer([F(region2, dim=mesh.dim)])
        set_state(field, mesh2, 0.1, seed)
        nd = mesh.dim
        cp = len(mesh2.points) - 1
        interior = np.setdiff1d(np.arange(len(mesh.points)), pts)
        # the centre point: the extra point (positive / negative index), one of the tied points themselves (a face tied to its
        # own middle node), a mesh node outside the tied set
        centres = {"extra": cp, "extra-negative-index": -1, "member-of-points": int(pts[len(pts) // 2]), "first-of-points": int(pts[0]), "other-mesh-node": int(interior[len(interior) // 2])}
        for (clab, cpt), skip in itertools.product(centres.items(), itertools.product((0, 1), repeat=nd)):
            if all(skip):
                continue
            mpc = fem.MultiPointConstraint(field, points=pts, centerpoint=cpt, skip=skip, multiplier=10.0)
            f = mpc.assemble.vector(field).toarray()[:, 0].reshape(-1, nd)
            c.trans += 1
            lab = f"mpc/centre={clab}/skip={skip}" if clab != "extra" else f"mpc/skip={skip}"
            c.close(f"{lab}/sum", "multi-point constraint forces are self-equilibrated", f.sum(0), np.zeros(nd), np.abs(f).max() * len(pts))
            if any(skip) and np.abs(f[:, np.array(skip, bool)]).max() > 0:
                c.bad(f"{lab}/skipped-axes", "forces on skipped axes", float(np.abs(f[:, np.array(skip, bool)]).max()), 0)
            cpos = cpt % len(f)
            others = np.setdiff1d(np.arange(len(f)), np.append(pts, cpos))
            if len(others) and np.abs(f[others]).max() > 0:
                c.bad(f"{lab}/support", "constraint forces only on the coupled points", float(np.abs(f[others]).max()), 0)
            # each tied point carries k (u_p - u_c) on the active axes (up to the common sign convention), the centre minus their sum
            uu = field.fields[0].values
            tied = np.setdiff1d(pts, [cpos])
            want = 10.0 * (uu[tied] - uu[cpos]) * (1 - np.array(skip))[None, :]
            sgn = 1.0 if np.abs(f[tied] - want).max() <= np.abs(f[tied] + want).max() else -1.0
            c.close(f"{lab}/tied-forces", "force on each tied point = multiplier x (u_point - u_centre) on the active axes", f[tied], sgn * want, max(np.abs(want).max(), 1e-12))
            c.close(f"{lab}/centre-force", "force on the centre point = minus the sum of the forces on the tied points", f[cpos], -f[tied].sum(0), max(np.abs(want).max() * len(tied), 1e-12))
        u = field.fields[0].values.copy()
        for k, p in enumerate(pts):
            gap = mesh2.points[cp, 0] - mesh2.points[p, 0]
            u[p, 0] = gap + 0.1 if k % 2 == 0 else gap - 0.2
        u[cp] = 0
        field.fields[0].values = u
        skip = [1] * nd
        skip[0] = 0
        con = fem.MultiPointContact(field, points=pts, centerpoint=cp, skip=tuple(skip), multiplier=10.0)
        f = con.assemble.vector(field).toarray()[:, 0].reshape(-1, nd)
        c.close("contact/sum", "contact forces are self-equilibrated", f.sum(0), np.zeros(nd), np.abs(f).max() * len(pts))
        closed = int((np.abs(f[pts, 0]) > 0).sum())
        c.outcomes.add(f"closed={closed}/{len(pts)}")
        if closed != (len(pts) + 1) // 2:
            c.bad("contact/closed", "number of closed contact points", closed, (len(pts) + 1) // 2)
        # the contact force pushes the penetrating point back: sign
        pen = [p for k, p in enumerate(pts) if k % 2 == 0]
        if not (f[pen, 0] > 0).all() and not (f[pen, 0] < 0).all():
            c.bad("contact/sign", "contact forces on penetrating points have one sign", f[pen, 0].tolist(), "one sign")
        return c.result(dict(case=case["key"], coupled_points=int(len(pts))))
    raise ValueError(kind)
