"""C11 Finite-strain material models obey frame indifference and basic balance laws.

Exhaustive over all 24 proper rotations of the cube (exact in floating point) plus generic
axis-angle rotations, applied on the left (objectivity: every finite-strain model) and on the
right (isotropy: isotropic models only) of every member of the F-lattice, for virgin and loaded
stored states.
"""

import warnings

import numpy as np

from .. import models, zoo
from .c03 import accepts_out, find, lattice, stack, state_for

ID = "C11"
RULE = (
    "case = one finite-strain model variant; inside a case: F-lattice x {24 cube rotations + generic rotations} x "
    "{left, right} x stored states: P(QF) = Q P(F), A(QF) = Q.Q: A(F), P(F Q^T) = P(F) Q^T (isotropic models, virgin "
    "or scalar state), P F^T symmetric, P(I, virgin) = 0, A_ijkl = A_klij (hyperelastic). Non-trivial = (state, "
    "rotation, side) triples on lattice members with non-zero stress."
)
ASSUMPTIONS = [
    "Relative tolerance 5e-9 on stresses/tangents (max over the lattice as scale).",
    "Models that regularise coincident principal stretches / the undeformed state by a documented shift (1e-4) are stress-free and isotropic only to the size of that shift: |P(I)| and the isotropy defect are bounded by the stated per-model bound instead of 1e-9 (objectivity is unaffected and judged at 1e-9).",
    "Micro-sphere models are isotropic only up to their 21-point rule and anisotropic models are not isotropic: both are excluded from the right-rotation clause (as the property states).",
    "History models store their state in the reference configuration; the right-rotation clause is judged for them in the virgin state only.",
]
TOL = 5e-9


def BOUNDS(tier):
    return {"rotations": "24 cube + %d generic" % (6 if tier == "thorough" else 2), "sides": ["left", "right"], "F_lattice_points": len(zoo.f_lattice(0, tier)), "buffers": "one out= buffer per model reused over the whole rotation sequence"}


def plan(tier, seed):
    return [dict(key="model/" + e["name"], name=e["name"], seed=seed, tier=tier, cost=e["cost"]) for e in models.catalogue(tier) if e["finite"]] + [
        dict(key=f"special/{b}.MaterialAD(morph_representative_directions)", special="morph-rd", backend=b, seed=seed, tier=tier, cost=8) for b in ("tt", "jax")]


def run_morph_rd(case):
    """MORPH by representative directions (tensortrax and jax back ends, 84 state variables): objectivity of the stress for the
    virgin state and for a stored state reached by one earlier increment, Kirchhoff symmetry, stress-free virgin state.
    (Stress only: the model is not in the shared catalogue because of the cost of its tangent.)"""
    import felupe as fem
    import felupe.constitution as C

    warnings.simplefilter("ignore")
    key = case["key"]
    viol, nontrivial = [], []
    ntrans = 0
    pm = [0.011, 0.408, 0.421, 6.85, 0.0056, 5.54, 5.84, 0.117]
    if case["backend"] == "jax":
        import jax

        jax.config.update("jax_enable_x64", True)
        import felupe.constitution.jax as CJ

        um = CJ.Material(CJ.models.lagrange.morph_representative_directions, p=pm, nstatevars=84)
    else:
        um = C.tensortrax.Material(C.tensortrax.models.lagrange.morph_representative_directions, p=pm, nstatevars=84)
    G = [0.5 * zoo.offarr(case["seed"], 970 + k, (3, 3)) * 2 + np.diag(d_) for k, d_ in enumerate(([0.3, -0.1, 0.0], [0.0, 0.2, -0.15], [-0.2, 0.1, 0.25]))]
    # (admissible states only: the generic part is scaled down until det(1 + 1.6 G) > 0.4 -- under VERIF_SEED=3 the un-scaled
    #  second state had a negative determinant and the model answered NaN, a false alarm of the harness)
    for k in range(len(G)):
        while min(np.linalg.det(np.eye(3) + G[k]), np.linalg.det(np.eye(3) + 1.6 * G[k])) < 0.4:
            G[k] = 0.8 * G[k]
    F = np.ascontiguousarray(np.stack([np.eye(3) + g_ for g_ in G], axis=-1)[..., None])  # (3,3,3,1), non-symmetric
    n = F.shape[2]
    rots = zoo.generic_rotations(case["seed"] + 5, 3) + zoo.cube_rotations()[1:4]
    sv0 = np.zeros((84, n, 1))
    Fprev = np.ascontiguousarray(np.stack([np.eye(3) + 1.6 * g_ for g_ in G], axis=-1)[..., None])
    for slab in ("virgin", "after-call"):
        def state_for(Q):
            # the stored state of a body that went through the (rotated) earlier increment: the state variables are scalars per
            # material direction, a superposed rotation leaves them unchanged
            if slab == "virgin":
                return sv0
            return np.asarray(um.gradient([np.einsum("ij,jknq->iknq", Q, Fprev), sv0])[1], float)

        sv = state_for(np.eye(3))
        P0 = np.asarray(um.gradient([F, sv])[0], float)
        ntrans += 1
        sP = max(np.abs(P0).max(), 1e-9)
        tau = np.einsum("ijnq,kjnq->iknq", P0, F)
        es = np.abs(tau - tau.transpose(1, 0, 2, 3)).max() / sP
        if es > 1e-9:
            viol.append(dict(key=f"{key}/{slab}/kirchhoff-sym", what="Kirchhoff stress P F^T not symmetric", observed=float(es), expected=0, tol=1e-9))
        for iq, Q in enumerate(rots):
            svq = state_for(Q)
            if slab == "after-call" and np.abs(svq - sv).max() > 1e-9 * max(np.abs(sv).max(), 1e-12):
                viol.append(dict(key=f"{key}/{slab}/state/rot{iq}", what="stored state after the rotated earlier increment differs from the un-rotated one (scalars per material direction)", observed=float(np.abs(svq - sv).max()), expected=0, tol=1e-9))
            PQ = np.asarray(um.gradient([np.einsum("ij,jknq->iknq", Q, F), svq])[0], float)
            ntrans += 1
            e = np.abs(PQ - np.einsum("ij,jknq->iknq", Q, P0)).max() / sP
            if not e <= 1e-9:
                viol.append(dict(key=f"{key}/{slab}/objectivity/rot{iq}", what="P(QF) != Q P(F)", observed=float(e), expected=0, tol=1e-9))
            nontrivial.append(f"{slab}/rot{iq}")
    PI = np.asarray(um.gradient([np.ascontiguousarray(np.broadcast_to(np.eye(3)[:, :, None, None], (3, 3, n, 1))), sv0])[0], float)
    if np.abs(PI).max() > 1e-6:
        viol.append(dict(key=f"{key}/virgin/stress-free", what="undeformed virgin state is not stress free", observed=float(np.abs(PI).max()), expected="<= 1e-6", tol=1e-6))
    return dict(viol=viol, states=len(nontrivial), transitions=ntrans, traces=len(nontrivial), nontrivial=nontrivial, outcomes=[], sample=dict(case=key, rotations=len(rots)), notes=[], digest=f"{len(nontrivial)}/{len(viol)}")


def run(case):
    if case.get("special") == "morph-rd":
        return run_morph_rd(case)
    warnings.simplefilter("ignore")
    e = find(case["name"], case["tier"])
    key = case["key"]
    viol, nontrivial, outcomes, notes = [], [], set(), []
    st = dict(trans=0, traces=0, states=0)

    def bad(sub, what, obs, exp, tol=TOL):
        if len(viol) < 60:
            viol.append(dict(key=f"{key}/{sub}", what=what, observed=obs, expected=exp, tol=tol))

    um = e["make"]()
    lat = lattice(e["lattice"], case["seed"], case["tier"], e["name"])
    labels = [l for l, _ in lat]
    F = stack(lat)
    n = F.shape[2]
    rots = [("cube%d" % i, Q) for i, Q in enumerate(zoo.cube_rotations())] + [("gen%d" % i, Q) for i, Q in enumerate(zoo.generic_rotations(case["seed"] + 3, 6 if case["tier"] == "thorough" else 2))]
    iso_bound = e["stressfree"]  # regularised models: isotropy / stress-free bound
    for slab, maker in e["states"]:
        sv = state_for(e, um, slab, maker, n, case["seed"])

        # the stress/tangent result buffers are reused over the whole rotation sequence, the way a SolidBody reuses
        # its result arrays from one evaluation to the next (history: every earlier rotated state is "in" the buffer)
        bufs = {}

        def PA(FF, reuse=False):
            FF = np.ascontiguousarray(FF)
            if reuse:
                res = []
                for fname in ("gradient", "hessian"):
                    fn = getattr(um, fname)
                    if accepts_out(fn):
                        fresh = np.asarray(fn([FF, sv])[0], float)
                        if fname not in bufs or bufs[fname].shape != fresh.shape:
                            bufs[fname] = np.full(fresh.shape, 3.5)
                        r = np.array(fn([FF, sv], out=bufs[fname])[0], dtype=float)
                        st["trans"] += 1
                    else:
                        r = np.asarray(fn([FF, sv])[0], float)
                    st["trans"] += 1
                    res.append(r)
                return res[0], np.broadcast_to(res[1], (3, 3, 3, 3, n, 1))
            P = np.asarray(um.gradient([FF, sv])[0], float)
            A = np.broadcast_to(np.asarray(um.hessian([FF, sv])[0], float), (3, 3, 3, 3, n, 1))
            st["trans"] += 2
            return P, A

        P0, A0 = PA(F)
        if not np.isfinite(P0).all() or not np.isfinite(A0).all():
            badpts = sorted({labels[j] for j in np.argwhere(~np.isfinite(P0))[:, 2]})
            bad(f"{slab}/finite", "non-finite stress/tangent at admissible lattice states", badpts[:6], "finite")
            continue
        sP = max(np.abs(P0).max(), 1e-6)
        sA = max(np.abs(A0).max(), 1e-6)
        # symmetric Kirchhoff stress
        tau = np.einsum("ijnq,kjnq->iknq", P0, F)
        esym = np.abs(tau - tau.transpose(1, 0, 2, 3)).max() / sP
        st["traces"] += 1
        if esym > max(TOL, iso_bound):
            j = int(np.argmax(np.abs(tau - tau.transpose(1, 0, 2, 3)).max((0, 1))[:, 0]))
            bad(f"{slab}/kirchhoff-sym/F={labels[j]}", "Kirchhoff stress P F^T not symmetric", float(esym), 0)
        # major symmetry
        if e["hyper"]:
            emaj = np.abs(A0 - A0.transpose(2, 3, 0, 1, 4, 5)).max() / sA
            st["traces"] += 1
            if emaj > TOL:
                bad(f"{slab}/major-symmetry", "A_ijkl != A_klij for a hyperelastic model", float(emaj), 0)
        # stress-free undeformed virgin state
        if slab == "virgin":
            FI = np.ascontiguousarray(np.broadcast_to(np.eye(3)[:, :, None, None], (3, 3, n, 1)))
            if e["lattice"] != "generic":
                try:
                    PI = np.asarray(um.gradient([FI, sv])[0], float)
                    st["trans"] += 1
                    pi = float(np.abs(PI).max())
                    bound = max(iso_bound, 1e-9) * max(sA, 1.0)
                    st["traces"] += 1
                    outcomes.add("P(I)=%.1e" % pi)
                    if not (pi <= bound):
                        bad("virgin/stress-free", "undeformed virgin state is not stress free", pi, f"<= {bound:.1e}")
                except Exception as ex:  # noqa
                    bad("virgin/stress-free/exception", "model raised at F = I", repr(ex)[:200], "value")
        # one input array re-used in place, results of the earlier evaluations still held by the caller (the way a solid
        # body extracts the kinematics into one array): F > Q F > 1; the stresses handed out earlier must keep their values
        # and each evaluation must answer for the array's current content
        Fw = np.ascontiguousarray(F.copy())
        svw = None if sv is None else np.array(sv, copy=True)
        held = []
        Qh = rots[-1][1]
        for hl, Fnew in (("F", F), ("QF", np.einsum("ij,jknq->iknq", Qh, F)), ("F-again", F)):
            Fw[...] = Fnew
            r_ = um.gradient([Fw, svw])[0]
            st["trans"] += 1
            want = P0 if hl != "QF" else np.einsum("ij,jknq->iknq", Qh, P0)
            eh = np.abs(np.asarray(r_, float) - want).max() / sP
            if not eh <= max(TOL, 10 * iso_bound):
                bad(f"{slab}/inplace-input/{hl}", "stress for the current content of an input array that is re-used in place (superposed rotation)", float(eh), 0)
            held.append((hl, r_, np.array(r_, dtype=float, copy=True)))
        for hl, r_, keep in held:
            st["traces"] += 1
            if not np.array_equal(np.asarray(r_, float), keep, equal_nan=True):
                bad(f"{slab}/held-result/{hl}", "a stress array returned by an earlier evaluation changed when the model was evaluated again", float(np.abs(np.asarray(r_, float) - keep).max() / sP), 0)
        # rotations
        for qlab, Q in rots:
            # left: objectivity
            PL, AL = PA(np.einsum("ij,jknq->iknq", Q, F), reuse=True)
            refP = np.einsum("ij,jknq->iknq", Q, P0)
            refA = np.einsum("ia,kc,ajclnq->ijklnq", Q, Q, A0)
            eP = np.abs(PL - refP).max() / sP
            eA = np.abs(AL - refA).max() / sA
            st["traces"] += 2
            st["states"] += n
            nontrivial.append(f"{slab}/{qlab}/left")
            if not eP <= TOL:
                j = int(np.argmax(np.abs(PL - refP).max((0, 1))[:, 0]))
                bad(f"{slab}/objectivity/{qlab}/F={labels[j]}", "P(QF) != Q P(F)", float(eP), 0)
            if not eA <= TOL * 10:
                bad(f"{slab}/objectivity-tangent/{qlab}", "A(QF) != Q.Q:A(F)", float(eA), 0)
            # right: isotropy
            tensor_state = e["nstate"] > 1
            if e["iso"] and not e["micro"] and (slab == "virgin" or not tensor_state):
                PR, AR = PA(np.einsum("ijnq,kj->iknq", F, Q))
                refP = np.einsum("ijnq,kj->iknq", P0, Q)
                refA = np.einsum("jb,ld,ibkdnq->ijklnq", Q, Q, A0)
                tol_iso = max(TOL, iso_bound)
                eP = np.abs(PR - refP).max() / sP
                eA = np.abs(AR - refA).max() / sA
                st["traces"] += 2
                nontrivial.append(f"{slab}/{qlab}/right")
                if not eP <= tol_iso:
                    j = int(np.argmax(np.abs(PR - refP).max((0, 1))[:, 0]))
                    bad(f"{slab}/isotropy/{qlab}/F={labels[j]}", "P(F Q^T) != P(F) Q^T for an isotropic model", float(eP), 0, tol_iso)
                if not eA <= tol_iso * 10:
                    bad(f"{slab}/isotropy-tangent/{qlab}", "A(F Q^T) != A(F) rotated", float(eA), 0, tol_iso * 10)
    # models written in principal stretches are driven on states with distinct stretches above (their AD eigenvalue routines
    # are regularised at repeated ones); states with two or three EQUAL stretches whose principal axes are inclined to the
    # coordinate axes are judged here at the accuracy the regularisation allows (measured <= 7e-9, threshold 1e-6)
    if e["eigen"] and e["hyper"] and e["nstate"] == 0:
        Ds = [np.diag(v) for v in ((0.8, 0.8, 1.3), (1.3, 0.8, 0.8), (1.3, 1.0, 1.3), (1.2, 1.2, 1.2))]
        Fr = []
        for Qg in zoo.generic_rotations(case["seed"] + 11, 2):
            for D in Ds:
                Fr.append(Qg @ D @ Qg.T)
                Fr.append(zoo.generic_rotations(case["seed"] + 12, 1)[0] @ D @ Qg.T)
        Fr = np.ascontiguousarray(np.stack(Fr, axis=-1)[..., None])
        Pr = np.asarray(um.gradient([Fr, None])[0], float)
        Ar = np.broadcast_to(np.asarray(um.hessian([Fr, None])[0], float), (3, 3, 3, 3, Fr.shape[2], 1))
        st["trans"] += 2
        st["traces"] += 2
        if np.isfinite(Ar).all() and np.isfinite(Pr).all():
            em = np.abs(Ar - Ar.transpose(2, 3, 0, 1, 4, 5)).max() / max(np.abs(Ar).max(), 1e-6)
            if em > 1e-6:
                bad("repeated-stretches/major-symmetry", "A_ijkl != A_klij at states with equal principal stretches and inclined principal axes", float(em), 0, 1e-6)
            taur = np.einsum("ijnq,kjnq->iknq", Pr, Fr)
            es = np.abs(taur - taur.transpose(1, 0, 2, 3)).max() / max(np.abs(Pr).max(), 1e-6)
            if es > 1e-6:
                bad("repeated-stretches/kirchhoff-sym", "Kirchhoff stress not symmetric at states with equal principal stretches", float(es), 0, 1e-6)
            nontrivial.append("repeated-stretches")
        else:
            bad("repeated-stretches/finite", "non-finite stress / tangent at states with equal principal stretches", "nan", "finite")
    sample = dict(case=key, lattice_points=n, rotations=len(rots), states=[s for s, _ in e["states"]], isotropy_clause=bool(e["iso"] and not e["micro"]))
    return dict(viol=viol, states=st["states"], transitions=st["trans"], traces=st["traces"], nontrivial=nontrivial, outcomes=sorted(outcomes), sample=sample, notes=notes,
                digest=f"{st['states']}/{st['traces']}/{len(viol)}")
