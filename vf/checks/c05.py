"""C05 Quadrature schemes integrate polynomials exactly up to their stated degree.

Decision by exhaustive enumeration: every scheme x every supported order x dim x permute is
instantiated from the real code and applied to EVERY monomial of the documented exactness
space (a rule is linear in the integrand, the monomials are a basis: complete, not sampled).
Exact integrals are rationals computed here (fractions), never by another quadrature rule.
"""

import itertools
from fractions import Fraction
from math import factorial

import numpy as np

ID = "C05"
INPROCESS = True
RULE = (
    "case = one (scheme, order, dim, permute) configuration built by the real constructor; "
    "inside a case every monomial of the documented exactness space is integrated and compared "
    "with its exact rational integral; further invariants: points in the closed domain, weights "
    "sum to the measure, boundary variant = (dim-1)-rule on the face r_last=-1, permute=True is a "
    "permutation of the permute=False (point, weight) pairs. A comparison is non-trivial when the "
    "exact integral is non-zero (or, on the sphere, the monomial is even in all exponents)."
)
ASSUMPTIONS = [
    "Tabulated constants are judged to the precision the table carries: 1e-14 for computed rules, "
    "1e-8 for the 8-digit tetrahedron order-2 table, 1e-11 for 12/13-digit tables (triangle order 5, "
    "tetrahedron order 5, sphere).",
    "The 21-point Bazant-Oh rule lives on a half sphere and stands for its antipodally symmetrised "
    "42-point rule (its integrands are even); exactness is judged on the symmetrised rule, so odd "
    "total degrees (incl. 9) vanish identically and the decision is over even degrees <= 8.",
    "Documented degree: Gauss-Legendre with n=order+1 points per axis: 2n-1 per axis; Gauss-Lobatto "
    "with n=order+2 points: 2n-3 per axis; simplex rules: total degree = order.",
]


def BOUNDS(tier):
    return {
        "gauss_legendre_orders": "0..8, dims 1..3, permute on/off",
        "gauss_lobatto_orders": "0..5, dims 1..3",
        "triangle_orders": [1, 2, 3, 5],
        "tetrahedron_orders": [1, 2, 3, 5],
        "sphere": "BazantOh 21, all monomials of total degree <= 9",
        "tier_difference": "none: the space is small enough to be walked completely in both tiers",
    }


def plan(tier, seed):
    cases = []
    for order in range(0, 9):
        for dim in (1, 2, 3):
            for permute in (False, True):
                cases.append(dict(key=f"GaussLegendre/order={order}/dim={dim}/permute={permute}", scheme="GaussLegendre", order=order, dim=dim, permute=permute))
    for order in range(0, 9):
        for dim in (2, 3):
            for permute in (False, True):
                cases.append(dict(key=f"GaussLegendreBoundary/order={order}/dim={dim}/permute={permute}", scheme="GaussLegendreBoundary", order=order, dim=dim, permute=permute))
    for order in range(0, 6):
        for dim in (1, 2, 3):
            cases.append(dict(key=f"GaussLobatto/order={order}/dim={dim}", scheme="GaussLobatto", order=order, dim=dim))
        for dim in (2, 3):
            cases.append(dict(key=f"GaussLobattoBoundary/order={order}/dim={dim}", scheme="GaussLobattoBoundary", order=order, dim=dim))
    for order in (1, 2, 3, 5):
        cases.append(dict(key=f"Triangle/order={order}", scheme="Triangle", order=order))
        cases.append(dict(key=f"Tetrahedron/order={order}", scheme="Tetrahedron", order=order))
    cases.append(dict(key="BazantOh/n=21", scheme="BazantOh", order=21))
    # histories: operations on a long-lived scheme object, and schemes created one after another in one process
    cases.append(dict(key="history/object", scheme="history-object", order=0))
    cases.append(dict(key="history/instances", scheme="history-instances", order=0))
    # user-defined schemes through the base class (nodal Simpson rules on [-1, 1]^d): point / weight tables in every container
    # and dtype a user may write them in
    cases.append(dict(key="user-scheme/simpson", scheme="user-scheme", order=3))
    return cases


def _cube_exact(exps):
    r = Fraction(1)
    for e in exps:
        r *= Fraction(0) if e % 2 else Fraction(2, e + 1)
    return r


def _simplex_exact(exps):
    d = len(exps)
    num = 1
    for e in exps:
        num *= factorial(e)
    return Fraction(num, factorial(sum(exps) + d))


def _dfact(n):
    r = 1
    while n > 1:
        r *= n
        n -= 2
    return r


def _sphere_exact(exps):
    if any(e % 2 for e in exps):
        return Fraction(0)
    num = 1
    for e in exps:
        num *= _dfact(e - 1)
    return Fraction(num, _dfact(sum(exps) + 1))


def _integrate(points, weights, exps):
    v = weights.astype(float).copy()
    for k, e in enumerate(exps):
        if e:
            v = v * points[:, k] ** e
    return float(np.sum(v))


class _DummyPlotter:
    def add_points(self, *a, **k):
        return None


def _make(spec):
    import felupe as fem

    name, kw = spec
    return getattr(fem.quadrature, name)(**kw)


def run_history(case):
    """(object) every sequence (depth <= 2) of {plot(weighted=True), plot(weighted=False), inv()} on one scheme object, after
    which the object must still be the rule a fresh construction gives, and inv() must return the inverted points;
    (instances) every ordered pair of Gauss-Legendre constructions (order 1..4, dim 1..3, permute): the second one must be
    the tensor-product rule of numpy's leggauss as a multiset, whatever was constructed before."""
    import felupe as fem

    key = case["key"]
    viol, nontrivial = [], []
    ntrans = 0

    def bad(sub, what, obs, exp, tol=0):
        if len(viol) < 40:
            viol.append(dict(key=f"{key}/{sub}", what=what, observed=obs, expected=exp, tol=tol))

    if case["scheme"] == "history-object":
        specs = [("GaussLegendre", dict(order=o, dim=d)) for o in (1, 2, 3) for d in (1, 2, 3)] + [("GaussLegendreBoundary", dict(order=2, dim=3)), ("GaussLobatto", dict(order=1, dim=2)),
                 ("GaussLobatto", dict(order=3, dim=3)), ("GaussLobattoBoundary", dict(order=2, dim=3)), ("Triangle", dict(order=3)), ("Triangle", dict(order=5)), ("Tetrahedron", dict(order=3)),
                 ("Tetrahedron", dict(order=5)), ("BazantOh", dict(n=21))]
        for spec in specs:
            fresh = _make(spec)
            P0, W0 = np.array(fresh.points, dtype=float, copy=True), np.array(fresh.weights, dtype=float, copy=True)
            ops = ["plot(weighted=True)", "plot(weighted=False)"] + (["inv()"] if hasattr(fresh, "inv") else [])
            for depth in (1, 2):
                for seq in itertools.product(ops, repeat=depth):
                    q = _make(spec)
                    lab = f"{spec[0]}{spec[1]}/" + " > ".join(seq)
                    for op in seq:
                        if op.startswith("plot"):
                            q.plot(plotter=_DummyPlotter(), weighted=(op == "plot(weighted=True)"))
                        else:
                            qi = q.inv()
                            Pi = np.asarray(qi.points, float)
                            ref = P0.copy()
                            ref[P0 != 0] = 1 / P0[P0 != 0]
                            if not np.array_equal(Pi, ref):
                                bad(lab + "/inv-result", "inv() must return the scheme with the reciprocal non-zero coordinates of the ORIGINAL rule", float(np.abs(Pi - ref).max()), 0)
                        ntrans += 1
                    if not (np.array_equal(np.asarray(q.points, float), P0) and np.array_equal(np.asarray(q.weights, float), W0)):
                        bad(lab + "/object", "points / weights of the scheme object changed by the call history (no longer the rule it was constructed as)",
                            dict(points=float(np.abs(np.asarray(q.points, float) - P0).max()), weights_sum=float(np.sum(q.weights))), dict(points=0, weights_sum=float(W0.sum())))
                    nontrivial.append(lab)
            # a scheme constructed AFTER the histories (default-argument instances are shared process wide)
            again = _make(spec)
            if not (np.array_equal(np.asarray(again.points, float), P0) and np.array_equal(np.asarray(again.weights, float), W0)):
                bad(f"{spec[0]}{spec[1]}/fresh-after", "a scheme constructed after the histories differs from the first construction", "differs", "identical")
        # the region templates' default quadrature objects are shared by all regions of the process
        mesh = fem.Rectangle(n=3)
        for tmpl, m in ((fem.RegionQuad, mesh), (fem.RegionTriangle, mesh.triangulate()), (fem.RegionHexahedron, fem.Cube(n=2)), (fem.RegionTetra, fem.Cube(n=2).triangulate())):
            r1 = tmpl(m)
            v1 = float(r1.dV.sum())
            r1.quadrature.plot(plotter=_DummyPlotter(), weighted=True)
            if hasattr(r1.quadrature, "inv"):
                r1.quadrature.inv()
            v2 = float(tmpl(m).dV.sum())
            ntrans += 2
            if abs(v2 - v1) > 1e-13 or abs(v1 - 1.0) > 1e-13:
                bad(f"template/{tmpl.__name__}", "region created after plotting / inverting another region's default quadrature measures another volume", [v1, v2], [1.0, 1.0], 1e-13)
        return dict(viol=viol, states=len(nontrivial), transitions=ntrans, traces=len(nontrivial), nontrivial=nontrivial, outcomes=[f"object-histories={len(nontrivial)}"], sample=dict(case=key, schemes=len(specs)), digest=f"{len(nontrivial)}/{len(viol)}")
    # every ordered pair of constructions over all scheme classes: the rule constructed FIRST is kept alive and looked at again
    # after the second construction (region templates keep one rule object for the whole process)
    specs = [("GaussLegendre", dict(order=1, dim=2)), ("GaussLegendre", dict(order=2, dim=3)), ("GaussLegendre", dict(order=2, dim=1)), ("GaussLegendreBoundary", dict(order=1, dim=3)), ("GaussLobatto", dict(order=1, dim=2)),
             ("GaussLobatto", dict(order=2, dim=3)), ("GaussLobatto", dict(order=2, dim=1)), ("GaussLobattoBoundary", dict(order=2, dim=2))] + [("Triangle", dict(order=o)) for o in (1, 2, 3, 5)] + [("Tetrahedron", dict(order=o)) for o in (1, 2, 3, 5)] + [("BazantOh", dict(n=21))]
    refs = {}
    for sp in specs:
        q0 = _make(sp)
        refs[repr(sp)] = (np.array(q0.points, dtype=float, copy=True), np.array(q0.weights, dtype=float, copy=True))
    for sa in specs:
        for sb in specs:
            qa = _make(sa)
            Pa, Wa = np.array(qa.points, dtype=float, copy=True), np.array(qa.weights, dtype=float, copy=True)
            _make(sb)
            ntrans += 2
            lab = f"{sa[0]}{sa[1]} then {sb[0]}{sb[1]}"
            if not (np.array_equal(np.asarray(qa.points, float), Pa) and np.array_equal(np.asarray(qa.weights, float), Wa)):
                bad(lab + "/first-changed", "constructing another rule changed the points / weights of an existing rule object", dict(points=float(np.abs(np.asarray(qa.points, float) - Pa).max()), weight_sum=float(np.sum(qa.weights))), "unchanged")
            # the owner of a rule may rescale ITS arrays in place (e.g. map [-1, 1] to [0, 1]); rules constructed afterwards are
            # the tabulated ones
            try:
                qa.weights *= 0.5
                qa.points *= 0.25
            except (ValueError, TypeError):
                pass
            qc = _make(sb)
            ntrans += 1
            Pb, Wb = refs[repr(sb)]
            if not (np.array_equal(np.asarray(qc.points, float), Pb) and np.array_equal(np.asarray(qc.weights, float), Wb)):
                bad(lab + "/after-owner-rescaled", "a rule constructed after the owner of ANOTHER rule object rescaled its arrays in place differs from the tabulated rule", dict(weight_sum=float(np.sum(qc.weights))), dict(weight_sum=float(Wb.sum())))
            nontrivial.append(lab)
    cfgs = [(o, d, pm) for o in (1, 2, 3, 4) for d in (1, 2, 3) for pm in (False, True)]
    for a in cfgs:
        for b in cfgs:
            fem.quadrature.GaussLegendre(order=a[0], dim=a[1], permute=a[2])
            if a[1] > 1:
                fem.quadrature.GaussLegendreBoundary(order=a[0], dim=a[1], permute=a[2])
            q = fem.quadrature.GaussLegendre(order=b[0], dim=b[1], permute=b[2])
            ntrans += 2
            x, w = np.polynomial.legendre.leggauss(b[0] + 1)
            grid = np.array(list(itertools.product(range(len(x)), repeat=b[1])))
            ref = sorted(map(tuple, np.round(np.column_stack([x[grid], np.prod(w[grid], axis=1)]), 13).tolist()))
            got = sorted(map(tuple, np.round(np.column_stack([np.asarray(q.points, float).reshape(len(q.weights), -1), q.weights]), 13).tolist())) if len(q.weights) == len(ref) else None
            if got != ref:
                bad(f"first={a}/then={b}", "Gauss-Legendre rule constructed after another one is not the tensor-product Gauss rule", dict(npoints=int(len(q.weights)), weight_sum=float(np.sum(q.weights))), dict(npoints=len(ref), weight_sum=2.0 ** b[1]))
            nontrivial.append(f"{a}>{b}")
    return dict(viol=viol, states=len(nontrivial), transitions=ntrans, traces=len(nontrivial), nontrivial=nontrivial, outcomes=[f"ordered-pairs={len(nontrivial)}"], sample=dict(case=key, configurations=len(cfgs)), digest=f"{len(nontrivial)}/{len(viol)}")


def run_user(case):
    """Scheme(points, weights) given by the user: the d-dimensional Simpson rule (points -1, 0, 1 per axis, weights 1/3, 4/3, 1/3)
    with the point table as integer array / float64 / float32 array / nested list and the weights as list / array: the scheme
    keeps the weights it was given, they sum to 2^d, the rule integrates every monomial up to degree 3 per axis, and a region
    built with it measures the mesh"""
    import felupe as fem

    key = case["key"]
    viol, nontrivial = [], []
    ntrans = 0

    def bad(sub, what, obs, exp, tol=0):
        viol.append(dict(key=f"{key}/{sub}", what=what, observed=obs, expected=exp, tol=tol))

    w1 = np.array([1.0, 4.0, 1.0]) / 3
    for dim in (1, 2, 3):
        P = np.array(list(itertools.product((-1, 0, 1), repeat=dim)))  # integer table
        W = np.array([np.prod([w1[i + 1] for i in idx]) for idx in P])
        tables = {"int-array": P.astype(int), "float64-array": P.astype(float), "float32-array": P.astype(np.float32), "nested-list": P.tolist(), "fortran-float": np.asfortranarray(P.astype(float))}
        weights = {"array": W.copy(), "list": W.tolist()}
        for (tl, T), (wl, Wg) in itertools.product(tables.items(), weights.items()):
            sub = f"dim={dim}/points={tl}/weights={wl}"
            try:
                q = fem.quadrature.Scheme(T, Wg)
                qp, qw = np.asarray(q.points, dtype=float), np.asarray(q.weights, dtype=float)
            except Exception as ex:  # noqa  (a container the base class refuses loudly is not judged)
                continue
            ntrans += 1
            tol = 1e-6 if tl == "float32-array" else 1e-14
            if qw.shape != W.shape or np.abs(qw - W).max() > 1e-15:
                bad(sub + "/weights", "the scheme's weights are the weights it was given", qw.tolist()[:6], W.tolist()[:6])
                continue
            if abs(qw.sum() - 2.0**dim) > 1e-13:
                bad(sub + "/sum", "weights sum to the measure of [-1, 1]^d", float(qw.sum()), 2.0**dim)
            if np.abs(qp - P).max() > tol or np.abs(qp).max() > 1 + tol:
                bad(sub + "/points", "the scheme's points are the points it was given, inside the closed domain", float(np.abs(qp - P).max()), 0)
            worst = 0.0
            for exps in itertools.product(range(4), repeat=dim):
                worst = max(worst, abs(_integrate(qp, qw, exps) - _cube_exact(exps)))
            if worst > 1e-13:
                bad(sub + "/exactness", "Simpson rule integrates every monomial up to degree 3 per axis", float(worst), 0, 1e-13)
            if dim == 2 and wl == "array" and tl != "nested-list":  # (regions want array tables)
                mesh = fem.Rectangle(b=(3.0, 2.0), n=(3, 2)).add_midpoints_edges().add_midpoints_faces()
                try:
                    r = fem.RegionBiQuadraticQuad(mesh, quadrature=q)
                    ntrans += 1
                    if abs(float(r.dV.sum()) - 6.0) > 1e-12:
                        bad(sub + "/region", "sum of dV of a region built with the user scheme vs the mesh area", float(r.dV.sum()), 6.0, 1e-12)
                except Exception as ex:  # noqa
                    bad(sub + "/region/exception", "region with a user scheme raised", repr(ex)[:120], "a region")
            nontrivial.append(sub)
    return dict(viol=viol, states=len(nontrivial), transitions=ntrans, traces=len(nontrivial), nontrivial=nontrivial, outcomes=[f"user-schemes={len(nontrivial)}"], sample=dict(case=key))


def run(case):
    import felupe as fem

    s = case["scheme"]
    if s.startswith("history"):
        return run_history(case)
    if s == "user-scheme":
        return run_user(case)
    order = case["order"]
    viol, nontrivial, outcomes = [], [], set()
    ntrans = 0
    key = case["key"]

    def bad(sub, what, obs, exp, tol):
        viol.append(dict(key=f"{key}/{sub}", what=what, observed=obs, expected=exp, tol=tol))

    if s in ("GaussLegendre", "GaussLegendreBoundary", "GaussLobatto", "GaussLobattoBoundary"):
        dim = case["dim"]
        kw = {"permute": case["permute"]} if "permute" in case else {}
        q = getattr(fem.quadrature, s)(order=order, dim=dim, **kw)
        boundary = s.endswith("Boundary")
        idim = dim - 1 if boundary else dim
        npts = order + 1 if s.startswith("GaussLegendre") else order + 2
        deg = 2 * npts - 1 if s.startswith("GaussLegendre") else 2 * npts - 3
        tol = 2e-14
        P, W = np.asarray(q.points, float), np.asarray(q.weights, float)
        if q.dim != dim or P.shape != (npts**idim, dim) or W.shape != (npts**idim,):
            bad("shape", "scheme shape", [q.dim, list(P.shape), list(W.shape)], [dim, [npts**idim, dim], [npts**idim]], 0)
            return dict(viol=viol, states=1, transitions=1, traces=1, nontrivial=[], outcomes=["shape"])
        if np.abs(P).max() > 1 + 1e-15:
            bad("inside", "point outside [-1,1]^d", float(np.abs(P).max()), "<= 1", 1e-15)
        if (W <= 0).any():
            bad("positive", "Gauss weights must be positive", float(W.min()), "> 0", 0)
        if abs(W.sum() - 2.0**idim) > tol * 2**idim:
            bad("measure", "weights sum", float(W.sum()), 2.0**idim, tol)
        if boundary and not np.array_equal(P[:, -1], -np.ones(len(P))):
            bad("face", "boundary rule must sit on r_last = -1", P[:, -1].tolist(), -1, 0)
        if boundary:
            base = getattr(fem.quadrature, s[: -len("Boundary")])(order=order, dim=dim - 1, **kw)
            if not (np.array_equal(base.points, P[:, :-1]) and np.array_equal(base.weights, W)):
                bad("lower", "boundary variant differs from the (dim-1)-rule", "differs", "identical pairs", 0)
            ntrans += 1
        if case.get("permute"):
            ref = getattr(fem.quadrature, s)(order=order, dim=dim, permute=False)
            a = sorted(map(tuple, np.round(np.column_stack([ref.points, ref.weights]), 14).tolist()))
            b = sorted(map(tuple, np.round(np.column_stack([P, W]), 14).tolist()))
            if a != b:
                bad("permutation", "permute=True is not a permutation of the (point, weight) pairs", "multisets differ", "equal multisets", 1e-14)
            if not np.array_equal(P, ref.points):
                outcomes.add("reordered")
            ntrans += 1
        # every monomial with per-axis degree <= deg (+ first degree beyond as a record)
        beyond = []
        for exps in itertools.product(range(deg + 2), repeat=idim):
            ex = _cube_exact(exps)
            val = _integrate(P, W, exps)
            ntrans += 1
            err = abs(val - float(ex))
            if max(exps, default=0) <= deg:
                if err > tol * 2**idim:
                    bad("monomial=" + "".join(map(str, exps)), "integral of monomial", val, float(ex), tol)
                if ex != 0:
                    nontrivial.append("m" + "".join(map(str, exps)))
            elif ex != 0:
                beyond.append(err)
        outcomes.add("sharp" if (beyond and min(beyond) > 1e-9) else "exact-beyond-stated-degree")
        sample = dict(case=key, npoints=len(W), degree=deg, monomials=(deg + 1) ** idim, first_degree_beyond_min_err=(min(beyond) if beyond else None))
        return dict(viol=viol, states=(deg + 2) ** idim, transitions=ntrans, traces=1, nontrivial=nontrivial, outcomes=sorted(outcomes), sample=sample, digest=repr((P.tobytes(), W.tobytes())))

    if s in ("Triangle", "Tetrahedron"):
        dim = 2 if s == "Triangle" else 3
        q = getattr(fem.quadrature, s)(order=order)
        P, W = np.asarray(q.points, float), np.asarray(q.weights, float)
        tol = {("Tetrahedron", 2): 1e-8, ("Triangle", 5): 2e-12, ("Tetrahedron", 5): 2e-12}.get((s, order), 2e-15)
        if q.dim != dim or P.shape[1] != dim or W.shape != (len(P),):
            bad("shape", "scheme shape", [q.dim, list(P.shape)], dim, 0)
        measure = 1 / factorial(dim)
        if P.min() < -1e-15 or P.sum(1).max() > 1 + tol + 1e-15:
            bad("inside", "point outside the closed reference simplex", dict(min=float(P.min()), max_sum=float(P.sum(1).max()), points=P.tolist()), "x_i >= 0, sum x_i <= 1", 1e-15)
        if abs(W.sum() - measure) > tol:
            bad("measure", "weights sum", float(W.sum()), measure, tol)
        beyond = []
        n = 0
        for exps in itertools.product(range(order + 2), repeat=dim):
            if sum(exps) > order + 1:
                continue
            ex = _simplex_exact(exps)
            val = _integrate(P, W, exps)
            ntrans += 1
            n += 1
            err = abs(val - float(ex))
            if sum(exps) <= order:
                if err > tol:
                    bad("monomial=" + "".join(map(str, exps)), "integral of monomial over the reference simplex", val, float(ex), tol)
                nontrivial.append("m" + "".join(map(str, exps)))
            else:
                beyond.append(err)
        outcomes.add("sharp" if min(beyond) > 1e-9 else "exact-beyond-stated-degree")
        sample = dict(case=key, npoints=len(W), degree=order, first_degree_beyond_min_err=min(beyond))
        return dict(viol=viol, states=n, transitions=ntrans, traces=1, nontrivial=nontrivial, outcomes=sorted(outcomes), sample=sample, digest=repr((P.tobytes(), W.tobytes())))

    if s == "BazantOh":
        q = fem.quadrature.BazantOh(n=21)
        P, W = np.asarray(q.points, float), np.asarray(q.weights, float)
        tol = 2e-11
        if P.shape != (21, 3) or W.shape != (21,):
            bad("shape", "scheme shape", list(P.shape), [21, 3], 0)
        if np.abs(np.linalg.norm(P, axis=1) - 1).max() > tol:
            bad("inside", "points not on the unit sphere", float(np.abs(np.linalg.norm(P, axis=1) - 1).max()), 0, tol)
        if abs(W.sum() - 1) > tol:
            bad("measure", "weights must sum to one", float(W.sum()), 1.0, tol)
        if (W <= 0).any():
            bad("positive", "weights positive", float(W.min()), ">0", 0)
        # antipodal pairs must not both be present (half sphere convention)
        d = np.abs(P[:, None, :] + P[None, :, :]).max(-1)
        if (d < 1e-9).any():
            bad("half", "both x and -x present: rule is not a half-sphere rule", "antipodal pair", "none", 0)
        Ps = np.vstack([P, -P])
        Ws = np.concatenate([W, W]) / 2
        n = 0
        beyond = []
        for exps in itertools.product(range(11), repeat=3):
            if sum(exps) > 10:
                continue
            ex = _sphere_exact(exps)
            val = _integrate(Ps, Ws, exps)
            ntrans += 1
            n += 1
            err = abs(val - float(ex))
            if sum(exps) <= 9:
                if err > tol:
                    bad("monomial=" + "".join(map(str, exps)), "mean of monomial over the unit sphere", val, float(ex), tol)
                if ex != 0:
                    nontrivial.append("m" + "".join(map(str, exps)))
            elif ex != 0:
                beyond.append(err)
        outcomes.add("sharp" if min(beyond) > 1e-9 else "exact-beyond-stated-degree")
        sample = dict(case=key, npoints=21, degree=9, first_degree_beyond_min_err=min(beyond))
        return dict(viol=viol, states=n, transitions=ntrans, traces=1, nontrivial=nontrivial, outcomes=sorted(outcomes), sample=sample, digest=repr((P.tobytes(), W.tobytes())))

    raise ValueError(s)
