"""C05 Quadrature schemes integrate polynomials exactly up to their stated degree.

Decision by exhaustive enumeration: every scheme x every supported order x dim x permute is
instantiated from the real code and applied to EVERY monomial of the documented exactness
space (a rule is linear in the integrand, the monomials are a basis: complete, not sampled).
Exact integrals are rationals computed here (fractions), never by another quadrature rule.
"""

import itertools
from fractions import Fraction
from math import factorial

import numpy as np

ID = "C05"
INPROCESS = True
RULE = (
    "case = one (scheme, order, dim, permute) configuration built by the real constructor; "
    "inside a case every monomial of the documented exactness space is integrated and compared "
    "with its exact rational integral; further invariants: points in the closed domain, weights "
    "sum to the measure, boundary variant = (dim-1)-rule on the face r_last=-1, permute=True is a "
    "permutation of the permute=False (point, weight) pairs. A comparison is non-trivial when the "
    "exact integral is non-zero (or, on the sphere, the monomial is even in all exponents)."
)
ASSUMPTIONS = [
    "Tabulated constants are judged to the precision the table carries: 1e-14 for computed rules, "
    "1e-8 for the 8-digit tetrahedron order-2 table, 1e-11 for 12/13-digit tables (triangle order 5, "
    "tetrahedron order 5, sphere).",
    "The 21-point Bazant-Oh rule lives on a half sphere and stands for its antipodally symmetrised "
    "42-point rule (its integrands are even); exactness is judged on the symmetrised rule, so odd "
    "total degrees (incl. 9) vanish identically and the decision is over even degrees <= 8.",
    "Documented degree: Gauss-Legendre with n=order+1 points per axis: 2n-1 per axis; Gauss-Lobatto "
    "with n=order+2 points: 2n-3 per axis; simplex rules: total degree = order.",
]


def BOUNDS(tier):
    return {
        "gauss_legendre_orders": "0..8, dims 1..3, permute on/off",
        "gauss_lobatto_orders": "0..5, dims 1..3",
        "triangle_orders": [1, 2, 3, 5],
        "tetrahedron_orders": [1, 2, 3, 5],
        "sphere": "BazantOh 21, all monomials of total degree <= 9",
        "tier_difference": "none: the space is small enough to be walked completely in both tiers",
    }


def plan(tier, seed):
    cases = []
    for order in range(0, 9):
        for dim in (1, 2, 3):
            for permute in (False, True):
                cases.append(dict(key=f"GaussLegendre/order={order}/dim={dim}/permute={permute}", scheme="GaussLegendre", order=order, dim=dim, permute=permute))
    for order in range(0, 9):
        for dim in (2, 3):
            for permute in (False, True):
                cases.append(dict(key=f"GaussLegendreBoundary/order={order}/dim={dim}/permute={permute}", scheme="GaussLegendreBoundary", order=order, dim=dim, permute=permute))
    for order in range(0, 6):
        for dim in (1, 2, 3):
            cases.append(dict(key=f"GaussLobatto/order={order}/dim={dim}", scheme="GaussLobatto", order=order, dim=dim))
        for dim in (2, 3):
            cases.append(dict(key=f"GaussLobattoBoundary/order={order}/dim={dim}", scheme="GaussLobattoBoundary", order=order, dim=dim))
    for order in (1, 2, 3, 5):
        cases.append(dict(key=f"Triangle/order={order}", scheme="Triangle", order=order))
        cases.append(dict(key=f"Tetrahedron/order={order}", scheme="Tetrahedron", order=order))
    cases.append(dict(key="BazantOh/n=21", scheme="BazantOh", order=21))
    return cases


def _cube_exact(exps):
    r = Fraction(1)
    for e in exps:
        r *= Fraction(0) if e % 2 else Fraction(2, e + 1)
    return r


def _simplex_exact(exps):
    d = len(exps)
    num = 1
    for e in exps:
        num *= factorial(e)
    return Fraction(num, factorial(sum(exps) + d))


def _dfact(n):
    r = 1
    while n > 1:
        r *= n
        n -= 2
    return r


def _sphere_exact(exps):
    if any(e % 2 for e in exps):
        return Fraction(0)
    num = 1
    for e in exps:
        num *= _dfact(e - 1)
    return Fraction(num, _dfact(sum(exps) + 1))


def _integrate(points, weights, exps):
    v = weights.astype(float).copy()
    for k, e in enumerate(exps):
        if e:
            v = v * points[:, k] ** e
    return float(np.sum(v))


def run(case):
    import felupe as fem

    s = case["scheme"]
    order = case["order"]
    viol, nontrivial, outcomes = [], [], set()
    ntrans = 0
    key = case["key"]

    def bad(sub, what, obs, exp, tol):
        viol.append(dict(key=f"{key}/{sub}", what=what, observed=obs, expected=exp, tol=tol))

    if s in ("GaussLegendre", "GaussLegendreBoundary", "GaussLobatto", "GaussLobattoBoundary"):
        dim = case["dim"]
        kw = {"permute": case["permute"]} if "permute" in case else {}
        q = getattr(fem.quadrature, s)(order=order, dim=dim, **kw)
        boundary = s.endswith("Boundary")
        idim = dim - 1 if boundary else dim
        npts = order + 1 if s.startswith("GaussLegendre") else order + 2
        deg = 2 * npts - 1 if s.startswith("GaussLegendre") else 2 * npts - 3
        tol = 2e-14
        P, W = np.asarray(q.points, float), np.asarray(q.weights, float)
        if q.dim != dim or P.shape != (npts**idim, dim) or W.shape != (npts**idim,):
            bad("shape", "scheme shape", [q.dim, list(P.shape), list(W.shape)], [dim, [npts**idim, dim], [npts**idim]], 0)
            return dict(viol=viol, states=1, transitions=1, traces=1, nontrivial=[], outcomes=["shape"])
        if np.abs(P).max() > 1 + 1e-15:
            bad("inside", "point outside [-1,1]^d", float(np.abs(P).max()), "<= 1", 1e-15)
        if (W <= 0).any():
            bad("positive", "Gauss weights must be positive", float(W.min()), "> 0", 0)
        if abs(W.sum() - 2.0**idim) > tol * 2**idim:
            bad("measure", "weights sum", float(W.sum()), 2.0**idim, tol)
        if boundary and not np.array_equal(P[:, -1], -np.ones(len(P))):
            bad("face", "boundary rule must sit on r_last = -1", P[:, -1].tolist(), -1, 0)
        if boundary:
            base = getattr(fem.quadrature, s[: -len("Boundary")])(order=order, dim=dim - 1, **kw)
            if not (np.array_equal(base.points, P[:, :-1]) and np.array_equal(base.weights, W)):
                bad("lower", "boundary variant differs from the (dim-1)-rule", "differs", "identical pairs", 0)
            ntrans += 1
        if case.get("permute"):
            ref = getattr(fem.quadrature, s)(order=order, dim=dim, permute=False)
            a = sorted(map(tuple, np.round(np.column_stack([ref.points, ref.weights]), 14).tolist()))
            b = sorted(map(tuple, np.round(np.column_stack([P, W]), 14).tolist()))
            if a != b:
                bad("permutation", "permute=True is not a permutation of the (point, weight) pairs", "multisets differ", "equal multisets", 1e-14)
            if not np.array_equal(P, ref.points):
                outcomes.add("reordered")
            ntrans += 1
        # every monomial with per-axis degree <= deg (+ first degree beyond as a record)
        beyond = []
        for exps in itertools.product(range(deg + 2), repeat=idim):
            ex = _cube_exact(exps)
            val = _integrate(P, W, exps)
            ntrans += 1
            err = abs(val - float(ex))
            if max(exps, default=0) <= deg:
                if err > tol * 2**idim:
                    bad("monomial=" + "".join(map(str, exps)), "integral of monomial", val, float(ex), tol)
                if ex != 0:
                    nontrivial.append("m" + "".join(map(str, exps)))
            elif ex != 0:
                beyond.append(err)
        outcomes.add("sharp" if (beyond and min(beyond) > 1e-9) else "exact-beyond-stated-degree")
        sample = dict(case=key, npoints=len(W), degree=deg, monomials=(deg + 1) ** idim, first_degree_beyond_min_err=(min(beyond) if beyond else None))
        return dict(viol=viol, states=(deg + 2) ** idim, transitions=ntrans, traces=1, nontrivial=nontrivial, outcomes=sorted(outcomes), sample=sample, digest=repr((P.tobytes(), W.tobytes())))

    if s in ("Triangle", "Tetrahedron"):
        dim = 2 if s == "Triangle" else 3
        q = getattr(fem.quadrature, s)(order=order)
        P, W = np.asarray(q.points, float), np.asarray(q.weights, float)
        tol = {("Tetrahedron", 2): 1e-8, ("Triangle", 5): 2e-12, ("Tetrahedron", 5): 2e-12}.get((s, order), 2e-15)
        if q.dim != dim or P.shape[1] != dim or W.shape != (len(P),):
            bad("shape", "scheme shape", [q.dim, list(P.shape)], dim, 0)
        measure = 1 / factorial(dim)
        if P.min() < -1e-15 or P.sum(1).max() > 1 + tol + 1e-15:
            bad("inside", "point outside the closed reference simplex", dict(min=float(P.min()), max_sum=float(P.sum(1).max()), points=P.tolist()), "x_i >= 0, sum x_i <= 1", 1e-15)
        if abs(W.sum() - measure) > tol:
            bad("measure", "weights sum", float(W.sum()), measure, tol)
        beyond = []
        n = 0
        for exps in itertools.product(range(order + 2), repeat=dim):
            if sum(exps) > order + 1:
                continue
            ex = _simplex_exact(exps)
            val = _integrate(P, W, exps)
            ntrans += 1
            n += 1
            err = abs(val - float(ex))
            if sum(exps) <= order:
                if err > tol:
                    bad("monomial=" + "".join(map(str, exps)), "integral of monomial over the reference simplex", val, float(ex), tol)
                nontrivial.append("m" + "".join(map(str, exps)))
            else:
                beyond.append(err)
        outcomes.add("sharp" if min(beyond) > 1e-9 else "exact-beyond-stated-degree")
        sample = dict(case=key, npoints=len(W), degree=order, first_degree_beyond_min_err=min(beyond))
        return dict(viol=viol, states=n, transitions=ntrans, traces=1, nontrivial=nontrivial, outcomes=sorted(outcomes), sample=sample, digest=repr((P.tobytes(), W.tobytes())))

    if s == "BazantOh":
        q = fem.quadrature.BazantOh(n=21)
        P, W = np.asarray(q.points, float), np.asarray(q.weights, float)
        tol = 2e-11
        if P.shape != (21, 3) or W.shape != (21,):
            bad("shape", "scheme shape", list(P.shape), [21, 3], 0)
        if np.abs(np.linalg.norm(P, axis=1) - 1).max() > tol:
            bad("inside", "points not on the unit sphere", float(np.abs(np.linalg.norm(P, axis=1) - 1).max()), 0, tol)
        if abs(W.sum() - 1) > tol:
            bad("measure", "weights must sum to one", float(W.sum()), 1.0, tol)
        if (W <= 0).any():
            bad("positive", "weights positive", float(W.min()), ">0", 0)
        # antipodal pairs must not both be present (half sphere convention)
        d = np.abs(P[:, None, :] + P[None, :, :]).max(-1)
        if (d < 1e-9).any():
            bad("half", "both x and -x present: rule is not a half-sphere rule", "antipodal pair", "none", 0)
        Ps = np.vstack([P, -P])
        Ws = np.concatenate([W, W]) / 2
        n = 0
        beyond = []
        for exps in itertools.product(range(11), repeat=3):
            if sum(exps) > 10:
                continue
            ex = _sphere_exact(exps)
            val = _integrate(Ps, Ws, exps)
            ntrans += 1
            n += 1
            err = abs(val - float(ex))
            if sum(exps) <= 9:
                if err > tol:
                    bad("monomial=" + "".join(map(str, exps)), "mean of monomial over the unit sphere", val, float(ex), tol)
                if ex != 0:
                    nontrivial.append("m" + "".join(map(str, exps)))
            elif ex != 0:
                beyond.append(err)
        outcomes.add("sharp" if min(beyond) > 1e-9 else "exact-beyond-stated-degree")
        sample = dict(case=key, npoints=21, degree=9, first_degree_beyond_min_err=min(beyond))
        return dict(viol=viol, states=n, transitions=ntrans, traces=1, nontrivial=nontrivial, outcomes=sorted(outcomes), sample=sample, digest=repr((P.tobytes(), W.tobytes())))

    raise ValueError(s)
