"""C02 Integral forms assemble exactly the sums they denote, on every code path.

Assembly is linear in the integrand: for every configuration (field kinds, grad flags, block
mode, absent blocks, region path, parallel flag) EVERY unit integrand e_(tensor index, q, c)
is assembled by the real code and compared with the defining sum, whose test tensors
G_(a,i) are constructed from their definition (value: h_a e_i; gradient: e_i (x) dh_a/dX,
padded to 3x3 for plane strain; axisymmetric: + G_33 = h_a delta_i1 / R, weight 2 pi R) and placed
by the checker's own dof model offset_f + dim * point + comp.  Thread seams are explored with
the controlled schedulers of vf/sched.py.
"""

import itertools

import numpy as np

from .. import sched, zoo

ID = "C02"
RULE = (
    "case = one configuration (form kind, field kinds, grad flags, block mode, mesh, region path); inside "
    "a case every unit integrand (all tensor indices x quadrature points x cells) is assembled and compared "
    "entry by entry with the defining-sum reference; additionally generic full integrands (all blocks at "
    "once, absent blocks in every position), parallel=True under every einsumt task order (FakePool 2,3,5), "
    "the Form expression API against the equivalent array form, and every interleaving of Form(parallel=True) "
    "threads up to the preemption bound. Non-trivial = unit integrands whose reference vector/matrix is non-zero."
)
ASSUMPTIONS = [
    "Region arrays h, dhdX, dV are taken as given here (they are decided by C04/C06); only contraction and placement are judged.",
    "Value-type test/trial spaces on an axisymmetric field have two components (v_z, v_r); the integrand carries a third (zero) component because the code path demands it, unit integrands are enumerated over the two meaningful components.",
    "Expression API: sym=True is only driven with symmetric weak forms (its documented domain).",
    "Threads exchange whole arrays at task boundaries; memory ordering inside numpy's C loops is outside the scheduler. Line-granular preemption inside the thread bodies of felupe.assembly.expression._linear/_bilinear and inside the user's weak form.",
    "Tolerance 1e-13 * (1 + max|reference|); schedules must agree with the sequential result to 1e-14.",
]
TOL = 1e-12


def BOUNDS(tier):
    return {"meshes": "<= 4 cells", "tensor_order": "<= 4", "preemption_bound": 2 if tier == "thorough" else 1, "pool_sizes": [2, 3, 5],
            "thread_models": "Line 1/2 cells scalar+vector, Quad 1 cell scalar (4-16 threads): all schedules up to the preemption bound; join(t) waits for t only",
            "many_thread_models": "triangle 1 cell 2-vector (36 threads), quad 1 cell 3-vector (144); thorough: quad8 (256), hexahedron (576): delay-bounded, 1 delay, at thread boundaries (quick) / every yield point, capped 900 (thorough)",
            "reuse_histories": "3 geometries x ordered pairs x {dual kept, displacement kept} x {assembled before or not}, (u,p,J) 3d / plane strain / axisymmetric"}


# ----------------------------------------------------------------------------- reference
def fkind(field):
    return type(field).__name__


def test_tensors(field, grad):
    """returns tshape, rows (c, nloc), G (c, q, nloc, prod(tshape)) built from the definition"""
    r = field.region
    cells = r.mesh.cells
    nc, na = cells.shape
    dim = field.dim
    q = r.quadrature.npoints
    h = np.broadcast_to(np.asarray(r.h, float), (na, q, nc))
    kind = fkind(field)
    if grad:
        dh = np.asarray(r.dhdX, float)
        d = dh.shape[1]
        dh = np.broadcast_to(dh, (na, d, q, nc))
    if kind in ("FieldPlaneStrain", "FieldAxisymmetric"):
        tshape = (3, 3) if grad else (3,)
    elif grad:
        tshape = (dim, d)
    else:
        tshape = (dim,) if dim > 1 else ()
    nt = int(np.prod(tshape)) if tshape else 1
    G = np.zeros((nc, q, na * dim, nt))
    rows = np.zeros((nc, na * dim), dtype=int)
    R = np.asarray(field.radius, float) if kind == "FieldAxisymmetric" else None
    for a in range(na):
        for i in range(dim):
            loc = a * dim + i
            rows[:, loc] = dim * cells[:, a] + i
            T = np.zeros(tshape + (q, nc))
            if not grad:
                if tshape == ():
                    T[...] = h[a]
                else:
                    T[i] = h[a]
            else:
                T[i, :d] = dh[a]
                if kind == "FieldAxisymmetric" and i == 1:
                    T[2, 2] = h[a] / R
            G[:, :, loc, :] = T.reshape(nt, q, nc).transpose(2, 1, 0)
    return tshape, rows, G


def weight(field0, dV):
    dV = np.asarray(dV, float)
    r = field0.region
    w = np.broadcast_to(dV, (r.quadrature.npoints, r.mesh.ncells)).copy()
    if fkind(field0) == "FieldAxisymmetric":
        w = w * 2 * np.pi * np.asarray(field0.radius, float)
    return w


def ref_vector(fun, field, grad, w, size):
    tshape, rows, G = test_tensors(field, grad)
    nt = G.shape[-1]
    f = np.asarray(fun, float)
    q, nc = w.shape
    f = np.broadcast_to(f.reshape((nt,) + f.shape[len(tshape):]) if tshape else f.reshape((1,) + f.shape[-2:]), (nt, q, nc))
    vec = np.zeros(size)
    val = np.einsum("cqlt,tqc,qc->cl", G, f, w)
    np.add.at(vec, rows.ravel(), val.ravel())
    return vec


def ref_matrix(fun, v, u, gv, gu, w, shape):
    tv, rv, Gv = test_tensors(v, gv)
    tu, ru, Gu = test_tensors(u, gu)
    nv, nu = Gv.shape[-1], Gu.shape[-1]
    q, nc = w.shape
    f = np.asarray(fun, float)
    f = np.broadcast_to(f.reshape((nv, nu) + f.shape[len(tv) + len(tu):]), (nv, nu, q, nc))
    K = np.zeros(shape)
    val = np.einsum("cqls,stqc,cqmt,qc->clm", Gv, f, Gu, w)
    for c in range(nc):
        np.add.at(K, (rv[c][:, None], ru[c][None, :]), val[c])
    return K


def offsets(container):
    sizes = [f.values.size for f in container.fields]
    return np.concatenate([[0], np.cumsum(sizes)])


# ----------------------------------------------------------------------------- configurations
def make_container(spec, seed):
    """spec = (mesh kind, member, field kind)"""
    import felupe as fem

    mk, member, fk = spec
    mesh = zoo.make(mk, member, seed)
    if fk.startswith("axi"):
        mesh = fem.Mesh(mesh.points + np.array([0.0, 0.6]), mesh.cells, mesh.cell_type)
    if "@" in fk:  # the same model in another length unit (nanometre / micrometre sized parts given in metres)
        fk, unit = fk.split("@")
        if unit == "Fcells":  # a connectivity table held column-major (cells[:, [0, 1, 3, 2]]-style re-ordering, transposed stacks)
            mesh = fem.Mesh(mesh.points, np.asfortranarray(mesh.cells), mesh.cell_type)
            assert not mesh.cells.flags["C_CONTIGUOUS"] or mesh.cells.shape[0] == 1
        else:
            mesh = fem.Mesh(mesh.points * dict(nm=1e-9, um=1e-6, km=1e3)[unit], mesh.cells, mesh.cell_type)
    uniform = fk.endswith("+uniform")
    fk = fk.replace("+uniform", "")
    kw = dict(uniform=True) if uniform else {}
    region = zoo.region(mk, mesh, **kw)
    d = mesh.dim
    if fk == "scalar":
        c = fem.FieldContainer([fem.Field(region, dim=1)])
    elif fk == "vector":
        c = fem.FieldContainer([fem.Field(region, dim=d)])
    elif fk == "vector3":
        c = fem.FieldContainer([fem.Field(region, dim=3)])
    elif fk == "planestrain":
        c = fem.FieldContainer([fem.FieldPlaneStrain(region, dim=2)])
    elif fk == "axi":
        c = fem.FieldContainer([fem.FieldAxisymmetric(region, dim=2)])
    elif fk == "mixed2":
        c = fem.FieldsMixed(region, n=2)
    elif fk == "mixed3":
        c = fem.FieldsMixed(region, n=3)
    elif fk == "ps-mixed3":
        c = fem.FieldsMixed(region, n=3, planestrain=True)
    elif fk == "axi-mixed3":
        c = fem.FieldsMixed(region, n=3, axisymmetric=True)
    elif fk == "vector+scalar":
        c = fem.FieldContainer([fem.Field(region, dim=d), fem.Field(region, dim=1)])
    else:
        raise ValueError(fk)
    return mesh, region, c


SPECS_QUICK = [
    ("line", "block", "scalar"), ("quad", "renum", "scalar"), ("quad", "renum", "vector"), ("quad", "renum", "vector3"),
    ("quad", "renum", "planestrain"), ("quad", "renum", "axi"), ("hexahedron", "strip", "vector"), ("triangle", "renum", "vector"),
    ("quad", "strip", "vector+uniform"), ("quad", "renum", "mixed3"), ("quad", "renum", "axi-mixed3"), ("quad", "renum", "ps-mixed3"),
    ("quad9", "ref", "mixed3"), ("triangle6", "ref", "mixed2"), ("quad", "renum", "vector+scalar"), ("tetra", "ref", "vector"),
    ("hexahedron", "strip", "scalar"), ("tetra", "ref", "scalar"),
    # other length units (radii / coordinates far from one): nanometre-sized axisymmetric and plane parts, kilometre-sized 3D
    ("quad", "renum", "axi@nm"), ("quad", "renum", "axi-mixed3@nm"), ("quad", "renum", "axi@um"), ("quad", "renum", "planestrain@nm"), ("tetra", "ref", "vector@km"),
    # connectivity tables in another memory layout
    ("quad", "renum", "vector@Fcells"), ("quad", "renum", "mixed3@Fcells"), ("triangle", "renum", "vector@Fcells"),
]
SPECS_MORE = [
    ("hexahedron", "strip", "mixed3"), ("hexahedron", "strip", "vector+uniform"), ("quad8", "ref", "vector"),
    ("quad", "block", "scalar+uniform"), ("tetra10", "ref", "scalar"), ("quad", "distorted", "axi"), ("triangle-mini", "ref", "mixed2"),
]


def plan(tier, seed):
    cases = []
    specs = SPECS_QUICK + (SPECS_MORE if tier == "thorough" else [])
    for sp in specs:
        lab = "/".join(sp)
        cases.append(dict(key=f"linear/{lab}", kind="linear", spec=sp, seed=seed, tier=tier, cost=2))
        cases.append(dict(key=f"bilinear/{lab}", kind="bilinear", spec=sp, seed=seed, tier=tier, cost=30 if "hexa" in lab or "mixed" in lab else 5))
    for sp in [("quad", "renum", "vector"), ("quad", "renum", "mixed3"), ("quad", "renum", "axi"), ("hexahedron", "strip", "vector+uniform")]:
        cases.append(dict(key="parallel/" + "/".join(sp), kind="parallel", spec=sp, seed=seed, tier=tier, cost=10))
    for name in ("laplace-scalar", "mass-vector", "elastic-vector", "linear-load", "mixed-up", "hess-scalar", "planestrain-vector"):
        cases.append(dict(key=f"form/{name}", kind="form", name=name, seed=seed, tier=tier, cost=5))
    # call histories on ONE IntegralForm object whose integrated values are held, re-used as buffers and modified by the caller
    for name in ("elastic-vector", "linear-load", "mixed-up", "planestrain-vector"):
        cases.append(dict(key=f"integralform-history/{name}", kind="ifhist", name=name, seed=seed, tier=tier, cost=4))
    for model in ("line1-scalar-bilinear", "line2-scalar-bilinear", "line1-scalar-linear", "line2-vector2-linear", "line1-sym-bilinear") + (("quad1-scalar-bilinear",) if tier == "thorough" else ()):
        cases.append(dict(key=f"threads/{model}", kind="threads", model=model, seed=seed, tier=tier, cost=60))
    # test and trial fields on DIFFERENT regions over the same cells (quadratic vs linear shape functions, same quadrature)
    for order in ("quadratic-linear", "linear-quadratic"):
        for dim in (1, 2):
            cases.append(dict(key=f"form2/{order}/dim={dim}", kind="form2", order=order, dim=dim, seed=seed, tier=tier, cost=3))
    # several bilinear forms that share ONE test field object, with trial fields of the same block layout but another
    # connectivity (the field itself, a cell-wise disconnected field, a field on a re-numbered mesh): every creation order
    for dim in (1, 2):
        cases.append(dict(key=f"formpairs/dim={dim}", kind="formpairs", dim=dim, seed=seed, tier=tier, cost=3))
    # field objects with a history: dual fields used in one container / geometry and then re-used in another one
    for fk in ("axi-mixed3", "ps-mixed3", "mixed3"):
        cases.append(dict(key=f"reuse/quad/{fk}", kind="reuse", fk=fk, seed=seed, tier=tier, cost=5))
    # models with many threads (one per (a, i, b, j) basis pair): delay-bounded exploration, 1 delay
    for model in ("quad1-vector3-bilinear", "tri1-vector2-bilinear") + (("quad8-vector2-bilinear", "hex1-vector3-bilinear") if tier == "thorough" else ()):
        cases.append(dict(key=f"threads-delay/{model}", kind="threads", model=model, delay=True, seed=seed, tier=tier, cost=60))
    return cases


class Ctx:
    def __init__(self, key):
        self.key = key
        self.viol, self.nontrivial, self.outcomes, self.notes = [], [], set(), []
        self.trans = self.traces = self.states = 0

    def bad(self, sub, what, obs, exp, tol=TOL):
        if len(self.viol) < 200:
            self.viol.append(dict(key=f"{self.key}/{sub}", what=what, observed=obs, expected=exp, tol=tol))

    def cmp(self, sub, what, got, ref, tol=TOL, count=True):
        self.traces += 1
        got, ref = np.asarray(got, float), np.asarray(ref, float)
        if got.shape != ref.shape:
            self.bad(sub, what + " (shape)", list(got.shape), list(ref.shape))
            return False
        scale = 1 + (np.abs(ref).max() if ref.size else 0)
        err = (np.abs(got - ref).max() if ref.size else 0) / scale
        if count and ref.size and np.abs(ref).max() > 0:
            self.nontrivial.append(sub)
        if not np.isfinite(err) or err > tol:
            idx = np.unravel_index(np.argmax(np.abs(got - ref)), ref.shape)
            self.bad(sub, what, dict(err=float(err), at=[int(i) for i in idx], got=float(got[idx]), ref=float(ref[idx])), "equal", tol)
            return False
        return True

    def result(self, sample):
        return dict(viol=self.viol, states=self.states, transitions=self.trans, traces=self.traces, nontrivial=self.nontrivial, outcomes=sorted(self.outcomes),
                    sample=sample, notes=self.notes, digest=f"{self.states}/{self.traces}/{len(self.viol)}")


def block_tshape(field, grad):
    return test_tensors(field, grad)[0]


def unit_indices(tshape, field, grad):
    """tensor indices to enumerate for unit integrands (axisymmetric value space: two meaningful components)"""
    idx = list(itertools.product(*[range(n) for n in tshape])) if tshape else [()]
    if fkind(field) == "FieldAxisymmetric" and not grad:
        idx = [i for i in idx if i[0] < 2]
    return idx


def grad_flag_sets(container, bilinear):
    n = len(container.fields)
    k0 = fkind(container.fields[0])
    if n > 1:
        if n == 2 and bilinear and k0 == "Field" and fkind(container.fields[1]) == "Field":
            # two plain fields (vector + scalar): also all-value spaces (mass-like coupling blocks: scalar test x vector trial
            # and the reverse) and value test x gradient trial
            return [None, ([False, False], [False, False]), ([False, False], [True, False])]
        return [None]  # default: gradient of the first field, values of the others
    if k0 == "FieldAxisymmetric":
        return [[True], [False]] if not bilinear else [([True], [True]), ([False], [True])]
    if not bilinear:
        return [[True], [False]]
    return [([a], [b]) for a in (True, False) for b in (True, False)]


def run_linear(case):
    import felupe as fem

    c = Ctx(case["key"])
    mesh, region, cont = make_container(case["spec"], case["seed"])
    off = offsets(cont)
    N = int(off[-1])
    w = weight(cont.fields[0], region.dV)
    q, nc = w.shape
    nf = len(cont.fields)
    for gf in grad_flag_sets(cont, False):
        flags = [True] + [False] * (nf - 1) if gf is None else gf
        kw = {} if gf is None else dict(grad_v=gf)
        tsh = [block_tshape(f, g) for f, g in zip(cont.fields, flags)]
        # unit integrands, block by block (the other blocks absent = None)
        for b, f in enumerate(cont.fields):
            for I in unit_indices(tsh[b], f, flags[b]):
                for q0 in range(q):
                    for c0 in range(nc):
                        fun = [None] * nf
                        e = np.zeros(tsh[b] + (q, nc))
                        e[I + (q0, c0)] = 1.0
                        fun[b] = e
                        got = fem.IntegralForm(fun, cont, region.dV, **kw).assemble().toarray()[:, 0]
                        c.trans += 1
                        c.states += 1
                        ref = np.zeros(N)
                        ref[off[b]:off[b + 1]] = ref_vector(e, f, flags[b], w, off[b + 1] - off[b])
                        if not c.cmp(f"flags={flags}/block={b}/unit={I},{q0},{c0}", "assembled vector for a unit integrand", got, ref):
                            break
        # generic full integrand, all blocks at once, and every pattern of absent blocks
        full = [zoo.offarr(case["seed"], 600 + b, t + (q, nc)) for b, t in enumerate(tsh)]
        if fkind(cont.fields[0]) == "FieldAxisymmetric" and not flags[0]:
            full[0][2] = 0.0
        refs = [ref_vector(full[b], f, flags[b], w, off[b + 1] - off[b]) for b, f in enumerate(cont.fields)]
        for pattern in itertools.product((True, False), repeat=nf):
            fun = [full[b] if pattern[b] else None for b in range(nf)]
            got = fem.IntegralForm(fun, cont, region.dV, **kw).assemble().toarray()[:, 0]
            c.trans += 1
            ref = np.concatenate([refs[b] if pattern[b] else np.zeros(off[b + 1] - off[b]) for b in range(nf)])
            c.cmp(f"flags={flags}/present={pattern}", "assembled vector, generic integrand with absent blocks", got, ref)
            # integrate + assemble(values) path
            form = fem.IntegralForm(fun, cont, region.dV, **kw)
            vals = form.integrate()
            got2 = form.assemble(values=vals).toarray()[:, 0]
            c.cmp(f"flags={flags}/present={pattern}/values", "assemble(values=integrate())", got2, ref, count=False)
        # a scalar field with a gradient test space takes the flux integrand in both tensor orders, (1, J, q, c) and (J, q, c)
        if nf == 1 and cont.fields[0].dim == 1 and flags[0] and fkind(cont.fields[0]) == "Field" and tsh[0][0] == 1:
            for par in (False, True):
                got = fem.IntegralForm([full[0][0]], cont, region.dV, **kw).assemble(parallel=par).toarray()[:, 0]
                c.trans += 1
                c.cmp(f"flags={flags}/flux-order-1/parallel={par}", "scalar field, gradient test space: flux integrand given as (J, q, c)", got, refs[0])
    return c.result(dict(case=case["key"], unknowns=N, quadrature_points=q, cells=nc))


def block_modes(nf, cartesian=True):
    """yield (mode, list of (i, j)) for the bilinear block layouts"""
    if nf == 1:
        return [(3, [(0, 0)])]
    iu, ju = np.triu_indices(nf)
    out = [(2, list(zip(iu.tolist(), ju.tolist())))]
    if cartesian:
        # the full layout with a dual test field and a plane-strain / axisymmetric trial field raises before a
        # value exists (no such branch in the axisymmetric form, no trimming of the 3x3 integrand): observation
        out.append((3, [(i, j) for i in range(nf) for j in range(nf)]))
    return out


def run_bilinear(case):
    import felupe as fem

    c = Ctx(case["key"])
    mesh, region, cont = make_container(case["spec"], case["seed"])
    off = offsets(cont)
    N = int(off[-1])
    w = weight(cont.fields[0], region.dV)
    q, nc = w.shape
    nf = len(cont.fields)
    axi = fkind(cont.fields[0]) == "FieldAxisymmetric"
    quick = case["tier"] == "quick"
    for gf in grad_flag_sets(cont, True):
        fv = [True] + [False] * (nf - 1) if gf is None else gf[0]
        fu = [True] + [False] * (nf - 1) if gf is None else gf[1]
        kw = {} if gf is None else dict(grad_v=gf[0], grad_u=gf[1])
        tv = [block_tshape(f, g) for f, g in zip(cont.fields, fv)]
        tu = [block_tshape(f, g) for f, g in zip(cont.fields, fu)]
        for mode, blocks in block_modes(nf, fkind(cont.fields[0]) in ('Field', 'FieldDual')):
            def shape_of(i, j):
                return tv[i] + tu[j] + (q, nc)

            def zeros_list():
                return [None for (i, j) in blocks]

            def given(arr, i, j):
                # value x value block with a scalar test and a vector trial space: felupe takes the integrand with an explicit
                # size-one test axis, (1, k, q, c) (a bare (k, q, c) array is read as vector test x scalar trial)
                if not fv[i] and not fu[j] and tv[i] == () and tu[j] != ():
                    return arr.reshape((1,) + arr.shape)
                return arr

            # unit integrands block by block
            for bi, (i, j) in enumerate(blocks):
                Iv = unit_indices(tv[i], cont.fields[i], fv[i])
                Iu = unit_indices(tu[j], cont.fields[j], fu[j])
                qs = range(q) if (not quick or len(Iv) * len(Iu) <= 16) else (0, q - 1)
                stop = False
                for I in Iv:
                    for J in Iu:
                        for q0 in qs:
                            for c0 in range(nc):
                                e = np.zeros(shape_of(i, j))
                                e[I + J + (q0, c0)] = 1.0
                                fun = zeros_list()
                                fun[bi] = given(e, i, j)
                                got = fem.IntegralForm(fun, cont, region.dV, cont, **kw).assemble().toarray()
                                c.trans += 1
                                c.states += 1
                                ref = np.zeros((N, N))
                                blk = ref_matrix(e, cont.fields[i], cont.fields[j], fv[i], fu[j], w, (off[i + 1] - off[i], off[j + 1] - off[j]))
                                ref[off[i]:off[i + 1], off[j]:off[j + 1]] = blk
                                if mode == 2 and i != j:
                                    ref[off[j]:off[j + 1], off[i]:off[i + 1]] = blk.T
                                if not c.cmp(f"flags={fv},{fu}/mode={mode}/block={i}{j}/unit={I},{J},{q0},{c0}", "assembled matrix for a unit integrand", got, ref):
                                    stop = True
                                    break
                            if stop:
                                break
                        if stop:
                            break
                    if stop:
                        break
            # generic integrand on all blocks + absent-block patterns
            full = [zoo.offarr(case["seed"], 700 + 10 * i + j, shape_of(i, j)) for (i, j) in blocks]
            if axi and not fv[0]:
                full[0][2] = 0.0  # value-type axisymmetric test space: two meaningful components
            blks = [ref_matrix(full[bi], cont.fields[i], cont.fields[j], fv[i], fu[j], w, (off[i + 1] - off[i], off[j + 1] - off[j])) for bi, (i, j) in enumerate(blocks)]
            patterns = list(itertools.product((True, False), repeat=len(blocks))) if len(blocks) <= 6 else (
                [tuple(True for _ in blocks)] + [tuple(k != m for k in range(len(blocks))) for m in range(len(blocks))] + [tuple(k == m for k in range(len(blocks))) for m in range(len(blocks))])
            for pattern in patterns:
                fun = [given(full[bi], *blocks[bi]) if pattern[bi] else None for bi in range(len(blocks))]
                got = fem.IntegralForm(fun, cont, region.dV, cont, **kw).assemble().toarray()
                c.trans += 1
                ref = np.zeros((N, N))
                for bi, (i, j) in enumerate(blocks):
                    if pattern[bi]:
                        ref[off[i]:off[i + 1], off[j]:off[j + 1]] += blks[bi]
                        if mode == 2 and i != j:
                            ref[off[j]:off[j + 1], off[i]:off[i + 1]] += blks[bi].T
                c.cmp(f"flags={fv},{fu}/mode={mode}/present={pattern}", "assembled matrix, generic integrand with absent blocks", got, ref)
    return c.result(dict(case=case["key"], unknowns=N, quadrature_points=q, cells=nc))


def run_parallel(case):
    import felupe as fem

    c = Ctx(case["key"])
    mesh, region, cont = make_container(case["spec"], case["seed"])
    off = offsets(cont)
    N = int(off[-1])
    w = weight(cont.fields[0], region.dV)
    q, nc = w.shape
    nf = len(cont.fields)
    flags = [True] + [False] * (nf - 1)
    tsh = [block_tshape(f, g) for f, g in zip(cont.fields, flags)]
    fun = [zoo.offarr(case["seed"], 800 + b, t + (q, nc)) for b, t in enumerate(tsh)]
    iu, ju = np.triu_indices(nf)
    funm = [zoo.offarr(case["seed"], 820 + a, tsh[i] + tsh[j] + (q, nc)) for a, (i, j) in enumerate(zip(iu, ju))]
    serial_v = fem.IntegralForm(fun, cont, region.dV).assemble(parallel=False).toarray()
    serial_m = fem.IntegralForm(funm, cont, region.dV, cont).assemble(parallel=False).toarray()
    refv = np.concatenate([ref_vector(fun[b], f, flags[b], w, off[b + 1] - off[b]) for b, f in enumerate(cont.fields)])
    c.cmp("serial/vector", "serial vector vs defining sum", serial_v[:, 0], refv)
    for lab, fn, serial in (("vector", lambda: fem.IntegralForm(fun, cont, region.dV).assemble(parallel=True).toarray(), serial_v),
                            ("matrix", lambda: fem.IntegralForm(funm, cont, region.dV, cont).assemble(parallel=True).toarray(), serial_m)):
        runs, capped = sched.explore_pool(fn, sizes=(2, 3, 5), cap=300)
        outs = set()
        for size, orders, r in runs:
            c.trans += 1
            c.states += 1
            outs.add(np.round(r, 12).tobytes())
            e = np.abs(r - serial).max() / (1 + np.abs(serial).max())
            if e > 1e-13:
                c.bad(f"{lab}/pool={size}/orders={orders}", "parallel=True differs from parallel=False", float(e), 0)
            c.traces += 1
        c.nontrivial.append(lab)
        c.outcomes.add(f"{lab}:schedules={len(runs)}/classes={len(outs)}/capped={capped}")
        if capped:
            c.notes.append(f"{case['key']}/{lab}: task-order product capped; one-batch-deviation orders enumerated instead")
    return c.result(dict(case=case["key"], unknowns=N))


# ----------------------------------------------------------------------------- expression API
def form_models(name, seed):
    """returns (container, weakform list / callable, equivalent IntegralForm builder, bilinear?, sym-able)"""
    import felupe as fem
    from felupe.math import ddot, dot, grad, hess, trace, dya, sym as symm

    if name == "laplace-scalar":
        mesh = zoo.make("quad", "renum", seed)
        r = fem.RegionQuad(mesh)
        cont = fem.FieldContainer([fem.Field(r, dim=1)])
        wf = [lambda v, u, **kw: ddot(grad(v), grad(u))]
        q, nc = r.dV.shape
        A = np.einsum("ik,jl->ijkl", np.eye(1), np.eye(2))[..., None, None] * np.ones((q, nc))
        return cont, wf, lambda: fem.IntegralForm([A], cont, r.dV, cont, [True], [True]), True, True
    if name == "mass-vector":
        mesh = zoo.make("triangle", "renum", seed)
        r = fem.RegionTriangle(mesh, quadrature=fem.TriangleQuadrature(order=2))
        cont = fem.FieldContainer([fem.Field(r, dim=2)])
        rho = 1.7
        wf = [lambda v, u, **kw: rho * dot(v, u, mode=(1, 1))]
        q, nc = r.dV.shape
        A = rho * np.eye(2)[..., None, None] * np.ones((q, nc))
        return cont, wf, lambda: fem.IntegralForm([A], cont, r.dV, cont, [False], [False]), True, True
    if name == "elastic-vector":
        mesh = zoo.make("quad", "distorted", seed)
        r = fem.RegionQuad(mesh)
        cont = fem.FieldContainer([fem.Field(r, dim=2)])
        lmbda, mu = 1.3, 0.8
        wf = [lambda v, u, **kw: 2 * mu * ddot(symm(grad(v)), symm(grad(u))) + lmbda * trace(grad(v)) * trace(grad(u))]
        q, nc = r.dV.shape
        I = np.eye(2)
        C4 = mu * (np.einsum("ik,jl->ijkl", I, I) + np.einsum("il,jk->ijkl", I, I)) + lmbda * np.einsum("ij,kl->ijkl", I, I)
        A = C4[..., None, None] * np.ones((q, nc))
        return cont, wf, lambda: fem.IntegralForm([A], cont, r.dV, cont), True, True
    if name == "planestrain-vector":
        mesh = zoo.make("quad", "renum", seed)
        r = fem.RegionQuad(mesh)
        cont = fem.FieldContainer([fem.FieldPlaneStrain(r, dim=2)])
        K = zoo.offarr(seed, 900, (2, 2))
        wf = [lambda v, u, **kw: ddot(grad(v), dot(K[..., None, None] * np.ones(r.dV.shape), grad(u)))]
        q, nc = r.dV.shape
        A = np.zeros((3, 3, 3, 3, q, nc))
        A[:2, :2, :2, :2] = np.einsum("ik,jl->ijkl", K, np.eye(2))[..., None, None]
        return cont, wf, lambda: fem.IntegralForm([A], cont, r.dV, cont), True, False
    if name == "linear-load":
        mesh = zoo.make("hexahedron", "strip", seed)
        r = fem.RegionHexahedron(mesh)
        cont = fem.FieldContainer([fem.Field(r, dim=3)])
        q, nc = r.dV.shape
        P = zoo.offarr(seed, 910, (3, 3, q, nc))
        wf = [lambda v, **kw: ddot(P, grad(v))]
        return cont, wf, lambda: fem.IntegralForm([P], cont, r.dV), False, False
    if name == "mixed-up":
        mesh = zoo.make("quad", "renum", seed)
        r = fem.RegionQuad(mesh)
        cont = fem.FieldsMixed(r, n=2)
        q, nc = r.dV.shape
        mu, kappa = 0.9, 3.0
        wf = [lambda v, u, **kw: 2 * mu * ddot(symm(grad(v)), symm(grad(u))), lambda v, p, **kw: trace(grad(v)) * p, lambda q_, p, **kw: -1.0 / kappa * q_ * p]
        I = np.eye(2)
        A = (mu * (np.einsum("ik,jl->ijkl", I, I) + np.einsum("il,jk->ijkl", I, I)))[..., None, None] * np.ones((q, nc))
        B = I[..., None, None] * np.ones((q, nc))
        C = -1.0 / kappa * np.ones((q, nc))
        return cont, wf, lambda: fem.IntegralForm([A, B, C], cont, r.dV, cont), True, True
    if name == "hess-scalar":
        mesh = zoo.make("quad", "distorted", seed)
        r = fem.RegionQuad(mesh, hess=True)
        cont = fem.FieldContainer([fem.Field(r, dim=1)])
        wf = [lambda v, u, **kw: dot(v, u, mode=(1, 1)) + 0.3 * np.einsum("ijkqc,ijkqc->qc", hess(v), hess(u))]
        return cont, wf, None, True, True
    raise ValueError(name)


def run_form(case):
    import felupe as fem

    c = Ctx(case["key"])
    cont, wf, arrform, bilinear, symmable = form_models(case["name"], case["seed"])
    F = fem.Form(v=cont, u=cont if bilinear else None)(lambda: wf)
    base = F.assemble(parallel=False).toarray()
    c.trans += 1
    if arrform is not None:
        ref = arrform().assemble().toarray()
        c.cmp("vs-array-form", "Form expression assembles to the same matrix/vector as the equivalent array form", base, ref)
    else:
        # hessian weak form: defining sum by explicit loops over basis functions
        r = cont.fields[0].region
        h = np.broadcast_to(r.h, (r.h.shape[0],) + r.dV.shape)
        H2 = r.d2hdXdX
        cells = r.mesh.cells
        K = np.zeros_like(base)
        for cc in range(len(cells)):
            for a in range(cells.shape[1]):
                for b in range(cells.shape[1]):
                    K[cells[cc, a], cells[cc, b]] += ((h[a, :, cc] * h[b, :, cc] + 0.3 * np.einsum("jkq,jkq->q", H2[a, :, :, :, cc], H2[b, :, :, :, cc])) * r.dV[:, cc]).sum()
        c.cmp("vs-defining-sum", "Form with hessian bases vs explicit loops", base, K)
    variants = [dict(parallel=True)]
    if bilinear and symmable:
        variants += [dict(sym=True), dict(sym=True, parallel=True)]
    for kw in variants:
        got = F.assemble(**kw).toarray()
        c.trans += 1
        c.cmp(f"variant={kw}", "Form variant equals the plain assembly", got, base, 1e-14)
    # call histories on ONE form object: every sequence (depth <= 3) of assemble calls over {parallel} x {sym}; each
    # result must be the plain assembly (nothing may be remembered from one call to the next)
    opts = [dict(parallel=False), dict(parallel=True)]
    if bilinear and symmable:
        opts += [dict(sym=True), dict(sym=True, parallel=True), dict(sym=False, parallel=True)]
    nseq = 0
    for depth in (2, 3):
        for seq in itertools.product(range(len(opts)), repeat=depth):
            Fh = fem.Form(v=cont, u=cont if bilinear else None)(lambda: wf)
            for step, k in enumerate(seq):
                got = Fh.assemble(**opts[k]).toarray()
                c.trans += 1
                e = np.abs(got - base).max() / (1 + np.abs(base).max())
                if e > 1e-13:
                    c.bad("history=" + " > ".join(str(opts[i]) for i in seq[: step + 1]), "assemble() on a form object with a call history differs from the plain assembly", float(e), 0, 1e-13)
                    break
            nseq += 1
    c.traces += nseq
    c.outcomes.add(f"form-call-histories={nseq}")
    # geometry histories on ONE form object: every sequence (depth <= 4) over {assemble with the fields given, assemble
    # without arguments, move the mesh points in place and reload the region}; an assembly with the fields given must be that
    # of a form created on the current geometry (no-argument calls are judged while the geometry is the one the form was
    # last given: the documented way to pick up a changed region is to pass the fields again)
    reg = cont.fields[0].region
    P0 = reg.mesh.points.copy()
    P1 = P0 + 0.04 * zoo.offarr(case["seed"], 920, P0.shape) * (P0.max(0) - P0.min(0)).min()
    kwf = dict(v=cont, u=cont) if bilinear else dict(v=cont)
    fresh = {}
    for g, Pg in ((0, P0), (1, P1)):
        reg.mesh.update(points=Pg.copy(), callback=reg.reload)
        fresh[g] = fem.Form(v=cont, u=cont if bilinear else None)(lambda: wf).assemble().toarray()
        if arrform is not None:
            c.cmp(f"geometry{g}/vs-array-form", "Form on the moved mesh vs the equivalent array form", fresh[g], arrform().assemble().toarray())
    ngeo = 0
    for depth in (1, 2, 3, 4):
        for seq in itertools.product("anm", repeat=depth):
            if seq[-1] == "m":
                continue
            reg.mesh.update(points=P0.copy(), callback=reg.reload)
            Fg = fem.Form(v=cont, u=cont if bilinear else None)(lambda: wf)
            geo, known = 0, 0
            for step, op in enumerate(seq):
                if op == "m":
                    geo = 1 - geo
                    reg.mesh.update(points=(P1 if geo else P0).copy(), callback=reg.reload)
                    continue
                got = (Fg.assemble(**kwf) if op == "a" else Fg.assemble()).toarray()
                c.trans += 1
                if op == "a":
                    known = geo
                elif known != geo:
                    continue
                e = np.abs(got - fresh[geo]).max() / (1 + np.abs(fresh[geo]).max())
                if e > 1e-13:
                    c.bad("geometry-history=" + "".join(seq[: step + 1]), "assembly on a form object after this history (a = fields given, n = no arguments, m = points moved in place + region.reload) differs from a form created on the current geometry", float(e), 0, 1e-13)
                    break
            ngeo += 1
    reg.mesh.update(points=P0.copy(), callback=reg.reload)
    c.traces += ngeo
    c.outcomes.add(f"form-geometry-histories={ngeo}")
    Fp = fem.Form(v=cont, u=cont if bilinear else None, parallel=True)(lambda: wf)
    with sched.use_pool(sched.FakePool(3)):
        got = Fp.assemble().toarray()
    c.cmp("basis-parallel", "Form(parallel=True) (threaded basis evaluation) equals the plain assembly", got, base, 1e-14)
    return c.result(dict(case=case["key"], shape=list(base.shape)))


def run_form2(case):
    """Form(v=field on one region, u=field on another region over the same cells): the expression API must take the test
    basis from v and the trial basis from u.  Reference: explicit loops over cells, quadrature points and both sets of
    shape functions; serial, threaded and sym-free variants; plus the mixed container [quadratic w, linear p] with a weak
    form that uses the gradient of the trial function of the off-diagonal block."""
    import felupe as fem
    from felupe.math import ddot, dot, grad

    c = Ctx(case["key"])
    seed, dim = case["seed"], case["dim"]
    m8 = zoo.make("quad8", "distorted", seed)
    rQ = fem.RegionQuadraticQuad(m8)
    mL = fem.Mesh(m8.points, m8.cells[:, :4], "quad")
    rL = fem.RegionQuad(mL, quadrature=fem.GaussLegendre(order=2, dim=2))
    if not np.allclose(rQ.dV, rL.dV, rtol=1e-12, atol=0):
        c.bad("setup", "the two regions do not share the geometry", float(np.abs(rQ.dV - rL.dV).max()), 0)
    fQ, fL = fem.Field(rQ, dim=dim), fem.Field(rL, dim=dim)
    (rv, fv_), (ru, fu_) = ((rQ, fQ), (rL, fL)) if case["order"] == "quadratic-linear" else ((rL, fL), (rQ, fQ))
    q, nc = rQ.dV.shape
    coef = 1.0 + np.arange(q * nc, dtype=float).reshape(q, nc) / 7

    def wf(v, u, **kw):
        return coef * ddot(grad(v), grad(u)) + 0.5 * dot(v, u, mode=(1, 1))

    n_v, n_u = rv.mesh.npoints, ru.mesh.npoints
    ref = np.zeros((n_v * dim, n_u * dim))
    hv = np.broadcast_to(rv.h, (rv.h.shape[0], q, nc))
    hu = np.broadcast_to(ru.h, (ru.h.shape[0], q, nc))
    for cc in range(nc):
        for a in range(rv.mesh.cells.shape[1]):
            for b in range(ru.mesh.cells.shape[1]):
                val = ((coef[:, cc] * np.einsum("Jq,Jq->q", rv.dhdX[a, :, :, cc], ru.dhdX[b, :, :, cc]) + 0.5 * hv[a, :, cc] * hu[b, :, cc]) * rQ.dV[:, cc]).sum()
                for i in range(dim):
                    ref[dim * rv.mesh.cells[cc, a] + i, dim * ru.mesh.cells[cc, b] + i] += val
    for kw in (dict(), dict(parallel=True)):
        F = fem.Form(v=fem.FieldContainer([fv_]), u=fem.FieldContainer([fu_]))(lambda: [wf])
        try:
            got = F.assemble(**kw).toarray()
        except Exception as ex:  # noqa
            c.bad(f"assemble{kw}/exception", "Form with test and trial fields on different regions raised", repr(ex)[:160], "a matrix")
            continue
        c.trans += 1
        c.states += 1
        c.cmp(f"assemble{kw}", "Form(v, u) with test and trial fields on different regions vs the defining sum (test basis from v, trial basis from u)", got, ref, 1e-12)
    return c.result(dict(case=case["key"], shape=list(ref.shape)))


def run_formpairs(case):
    """forms (v, u_k) created one after another on ONE test field object v; u_k in {v's own field, a field on the cell-wise
    disconnected mesh, a field on a mesh whose points were re-numbered}: same points per cell and dimension, other global
    columns.  Every ordered sequence (length 2 and 3) of creations, earlier forms kept alive; each form is assembled when it
    is created and again after all were created; value-value and gradient-gradient integrands.  Reference: explicit loops."""
    import felupe as fem

    c = Ctx(case["key"])
    seed, dim = case["seed"], case["dim"]
    m = zoo.make("quad", "distorted", seed)
    perm = np.arange(m.npoints)[::-1].copy()
    inv = np.argsort(perm)
    meshes = {"same": m, "disconnected": m.disconnect(), "renumbered": fem.Mesh(m.points[perm], inv[m.cells], "quad")}
    regs = {k_: fem.RegionQuad(v_) for k_, v_ in meshes.items()}
    rT = regs["same"]
    q, nc = rT.dV.shape
    coef = 1.0 + np.arange(q * nc, dtype=float).reshape(q, nc) / 5
    A = zoo.offarr(seed, 930, (dim, dim))
    hT = np.broadcast_to(rT.h, (rT.h.shape[0], q, nc))

    def reference(name, grad_):
        ru = regs[name]
        hu = np.broadcast_to(ru.h, (ru.h.shape[0], q, nc))
        ref = np.zeros((m.npoints * dim, ru.mesh.npoints * dim))
        for cc in range(nc):
            for a in range(4):
                for b in range(4):
                    if grad_:
                        val = (coef[:, cc] * np.einsum("Jq,Jq->q", rT.dhdX[a, :, :, cc], ru.dhdX[b, :, :, cc]) * rT.dV[:, cc]).sum()
                        blk = val * np.eye(dim)
                    else:
                        blk = (coef[:, cc] * hT[a, :, cc] * hu[b, :, cc] * rT.dV[:, cc]).sum() * A
                    ref[dim * m.cells[cc, a]: dim * m.cells[cc, a] + dim, dim * ru.mesh.cells[cc, b]: dim * ru.mesh.cells[cc, b] + dim] += blk
        return ref

    refs = {(n_, g_): reference(n_, g_) for n_ in meshes for g_ in (False, True)}
    nseq = 0
    for grad_ in (False, True):
        if grad_:
            fun = np.einsum("ij,JL,qc->iJjLqc", np.eye(dim), np.eye(2), coef)
        else:
            fun = A[:, :, None, None] * coef
        for depth in (2, 3):
            for seq in itertools.permutations(meshes, depth):
                vT = fem.FieldContainer([fem.Field(rT, dim=dim)])  # ONE test container / field object for the whole sequence
                trial = {"same": vT}
                forms = []
                ok = True
                for name in seq:
                    if name not in trial:
                        trial[name] = fem.FieldContainer([fem.Field(regs[name], dim=dim)])
                    lab = f"grad={grad_}/order={'>'.join(seq)}/{name}"
                    try:
                        f_ = fem.IntegralForm([fun], v=vT, dV=rT.dV, u=trial[name], grad_v=[grad_], grad_u=[grad_])
                        got = f_.assemble().toarray()
                    except Exception as ex:  # noqa
                        c.bad(lab + "/exception", "a bilinear form on a test field that already carries other forms raised", repr(ex)[:160], "a matrix")
                        ok = False
                        break
                    c.trans += 1
                    forms.append((name, f_))
                    c.cmp(lab + "/at-creation", "bilinear form (v, u) created after other forms on the same test field object: defining sum at the global columns of ITS trial field", got, refs[(name, grad_)], 1e-12)
                if ok:
                    for name, f_ in forms:
                        c.cmp(f"grad={grad_}/order={'>'.join(seq)}/{name}/afterwards", "earlier form assembled again after later forms were created on the same test field", f_.assemble().toarray(), refs[(name, grad_)], 1e-12)
                        c.trans += 1
                nseq += 1
    c.traces += nseq
    c.outcomes.add(f"form-creation-orders={nseq}")
    return c.result(dict(case=case["key"], orders=nseq))


def run_reuse(case):
    """(p, J) dual field objects that were assembled in a container on geometry 1 are re-used, together with a new
    displacement field, in a container on geometry 2 (same topology, other position / shape); and the other way round
    (displacement field kept, new dual fields).  Every assembly must equal the one of a freshly created container with
    the same values on the current geometry -- every order of the steps is walked."""
    import felupe as fem

    c = Ctx(case["key"])
    fk, seed = case["fk"], case["seed"]
    base = zoo.make("quad", "renum", seed)
    kw = dict(axisymmetric=True) if fk.startswith("axi") else (dict(planestrain=True) if fk.startswith("ps") else {})
    geoms = {"g1": base.points + np.array([0.0, 0.6]), "g2": base.points * np.array([1.3, 0.8]) + np.array([0.3, 3.1]), "g3": base.points + np.array([0.0, 1.9])}

    def container(g):
        mesh = fem.Mesh(geoms[g], base.cells, base.cell_type)
        region = fem.RegionQuad(mesh)
        return region, fem.FieldsMixed(region, n=3, **kw)

    def forms(cont, region):
        nf = len(cont.fields)
        flags = [True] + [False] * (nf - 1)
        q, nc = region.dV.shape
        tsh = [block_tshape(f, g) for f, g in zip(cont.fields, flags)]
        fun = [zoo.offarr(seed, 800 + b, t + (q, nc)) for b, t in enumerate(tsh)]
        iu, ju = np.triu_indices(nf)
        funm = [zoo.offarr(seed, 820 + a, tsh[i] + tsh[j] + (q, nc)) for a, (i, j) in enumerate(zip(iu, ju))]
        v = fem.IntegralForm(fun, cont, region.dV).assemble().toarray()
        m = fem.IntegralForm(funm, cont, region.dV, cont).assemble().toarray()
        return v, m

    ref = {}
    for g in geoms:
        region, cont = container(g)
        ref[g] = forms(cont, region)
    for order in itertools.permutations(list(geoms), 2):
        for keep in ("dual", "displacement"):
            for first_assembled in (True, False):
                ra, ca = container(order[0])
                if first_assembled:
                    forms(ca, ra)
                rb, cb = container(order[1])
                if keep == "dual":
                    # new geometry, new displacement field, old dual fields
                    mixed = fem.FieldContainer([cb.fields[0], *ca.fields[1:]])
                    got = forms(mixed, rb)
                    want = ref[order[1]]
                else:
                    # displacement field (and its geometry) kept, dual fields taken from the other container
                    if first_assembled:
                        forms(cb, rb)
                    mixed = fem.FieldContainer([ca.fields[0], *cb.fields[1:]])
                    got = forms(mixed, ra)
                    want = ref[order[0]]
                c.trans += 2
                sub = f"{order[0]}->{order[1]}/keep={keep}/assembled-before={first_assembled}"
                c.cmp(sub + "/vector", "vector of a container with re-used field objects vs a fresh container on the same geometry", got[0], want[0], 1e-13)
                c.cmp(sub + "/matrix", "matrix of a container with re-used field objects vs a fresh container on the same geometry", got[1], want[1], 1e-13)
                c.states += 1
    return c.result(dict(case=case["key"], geometries=len(geoms)))


def thread_model(model, seed):
    import felupe as fem
    from felupe.math import ddot, dot, grad

    if model.startswith("line"):
        n = 2 if model.startswith("line1") else 3
        mesh = fem.mesh.Line(n=n)
        r = fem.Region(mesh, fem.Line(), fem.GaussLegendre(order=1, dim=1))
    elif model.startswith("tri1"):
        mesh = fem.Mesh(np.array([[0.0, 0.0], [1.0, 0.1], [0.2, 0.9]]), np.array([[0, 1, 2]]), "triangle")
        r = fem.RegionTriangle(mesh)
    elif model.startswith("quad8"):
        mesh = fem.Rectangle(n=2).add_midpoints_edges()
        r = fem.RegionQuadraticQuad(mesh)
    elif model.startswith("hex1"):
        mesh = fem.Cube(n=2)
        r = fem.RegionHexahedron(mesh)
    else:
        mesh = fem.Rectangle(n=2)
        r = fem.RegionQuad(mesh)
    dim = 3 if "vector3" in model else (2 if "vector2" in model else 1)
    cont = fem.FieldContainer([fem.Field(r, dim=dim)])
    q, nc = r.dV.shape
    coef = 1.0 + np.arange(q * nc, dtype=float).reshape(q, nc) / 7
    if model.endswith("bilinear"):
        def wfb(v, u, **kw):
            a = ddot(grad(v), grad(u))
            b = dot(v, u, mode=(1, 1))
            return coef * a + 0.5 * b
        return cont, [wfb], True, "sym" in model
    def wfl(v, **kw):
        s = v.sum(0)
        return coef * s
    return cont, [wfl], False, False


def run_threads(case):
    import felupe as fem
    import felupe.assembly.expression._bilinear as mb
    import felupe.assembly.expression._linear as ml

    c = Ctx(case["key"])
    cont, wf, bilinear, symflag = thread_model(case["model"], case["seed"])
    bound = 2 if case["tier"] == "thorough" else 1
    F = fem.Form(v=cont, u=cont if bilinear else None)(lambda: wf)
    kw = dict(sym=True) if symflag else {}
    base = F.assemble(parallel=False, **kw).toarray()
    free = F.assemble(parallel=True, **kw).toarray()
    c.cmp("free-running", "Form(parallel=True) with real threads equals sequential", free, base, 1e-14)

    def go():
        return F.assemble(parallel=True, **kw).toarray()

    cap = 25000 if case["tier"] == "thorough" else 4000
    if case.get("delay"):
        # many threads: all schedules with at most one delay; at thread boundaries in the quick tier, at every yield
        # point (capped) in the thorough tier
        bound = 1
        results, stats = sched.explore_delays(go, [mb, ml], ("_bilinear.py", "_linear.py", "c02.py"), bound=1, cap=900 if case["tier"] == "thorough" else 400, free_only=case["tier"] != "thorough")
        c.outcomes.add(f"unjoined-threads-at-return={stats['max_unjoined']}")
        results = [(a, b) for a, b, _ in results]
    else:
        results, stats = sched.explore_threads(go, [mb, ml], ("_bilinear.py", "_linear.py", "c02.py"), bound=bound, cap=cap)
    outs = {}
    for choices, r in results:
        c.trans += 1
        k = np.round(r, 13).tobytes()
        outs.setdefault(k, choices)
        e = np.abs(r - base).max() / (1 + np.abs(base).max())
        if e > 1e-14:
            c.bad("schedule=" + ",".join(map(str, choices)), "Form(parallel=True) result depends on the thread interleaving", dict(err=float(e), schedule=choices), "equals the sequential result")
            break
    c.traces += len(results)
    c.states = len(results)
    # replay determinism: the first non-trivial schedule twice
    if len(results) > 1:
        ch = results[1][0]
        s = sched.CoopScheduler(("_bilinear.py", "_linear.py", "c02.py"), ch, delay_mode=bool(case.get("delay")))
        with sched.use_threads(s, [mb, ml]):
            r2 = go()
            s.drive(record=False)
        if not np.array_equal(r2, results[1][1]) or s.taken != ch:
            c.bad("replay", "replaying a recorded schedule gave a different execution", "diverged", "identical")
    c.nontrivial += [f"schedule{i}" for i in range(min(len(results), 3))]
    c.outcomes.add(f"executions={stats['executions']}/classes={len(outs)}/threads={stats['max_threads']}/decisions={stats['max_decisions']}/bound={bound}/capped={stats['capped']}")
    res = c.result(dict(case=case["key"], threads=stats["max_threads"], decisions=stats["max_decisions"], executions=stats["executions"], preemption_bound=bound, first_schedules=[r[0] for r in results[:3]]))
    res["capped"] = bool(stats["capped"])
    return res


def run_ifhist(case):
    """one long-lived IntegralForm F (and a second form G of the same layout, other integrand): every sequence (<= 3) over
    I: vals = F.integrate()            (the caller holds vals)          O: F.integrate(out=vals)  (re-used as output buffer)
    G: G.integrate(out=vals)           (the buffer re-used by another form)  X: the caller scales the held arrays in place
    A: F.assemble()                    V: F.assemble(values=vals)       B: F.assemble(block=False) summed by hand
    every A / B must be the defining sum of F's own integrand (reference: a fresh form), every V the assembly of whatever
    the held arrays contain at that moment (reference: fresh form assembling a copy)"""
    import felupe as fem
    from scipy.sparse import bmat

    c = Ctx(case["key"])
    cont, wf, arrform, bilinear, symmable = form_models(case["name"], case["seed"])
    F = arrform()
    base = arrform().assemble().toarray()
    # G: same layout, integrands scaled per block (another form writing into the same buffers)
    Gf = arrform()
    for k_, fm_ in enumerate(Gf.forms):
        if fm_.fun is not None:
            fm_.fun = fm_.fun * (1.7 + k_)
    # linearity in the integrand over many magnitudes (other stress / length units: a density of 7.85e-9 t/mm^3, micrometre
    # geometry in metres): the form of s x integrand assembles to s x matrix, also when all cell values are below 1e-8
    for sc in (1e-6, 1e-9, 1e-13, 1e-20, 1e7):
        Fs = arrform()
        for fm_ in Fs.forms:
            if fm_.fun is not None:
                fm_.fun = fm_.fun * sc
        for kw_ in (dict(), dict(parallel=True)):
            got = Fs.assemble(**kw_).toarray()
            c.trans += 1
            c.cmp(f"scaled-integrand/s={sc}/{kw_}", "form of s x integrand assembles to s x (matrix of the integrand)", got / sc, base, 1e-12)
    # ... and in the measure dV (the same body in another length unit)
    for sc in (1e-9, 1e-18):
        Fs = arrform()
        for fm_ in Fs.forms:
            fm_.dV = fm_.dV * sc
        got = Fs.assemble().toarray()
        c.trans += 1
        c.cmp(f"scaled-dV/s={sc}", "form with s x dV assembles to s x matrix", got / sc, base, 1e-12)
    ops = "IOGXAVB"
    nseq = 0
    for depth in (1, 2, 3):
        for seq in itertools.product(ops, repeat=depth):
            if seq[-1] not in "AVB":
                continue
            F = arrform()
            held = None
            for step, op in enumerate(seq):
                lab = "history=" + "".join(seq[: step + 1])
                if op == "I":
                    held = F.integrate()
                elif op in "OGXV" and held is None:
                    break  # (needs held values)
                elif op == "O":
                    held = F.integrate(out=held)
                elif op == "G":
                    Gf.integrate(out=held)
                elif op == "X":
                    for a_ in held:
                        if a_ is not None:
                            a_ *= 2.0
                elif op == "A":
                    got = F.assemble().toarray()
                    c.trans += 1
                    c.cmp(lab, "assemble() of an integral form whose integrated values were handed out before (I integrate, O integrate(out=held), G another form integrates into the held buffers, X caller scales them): the defining sum of its own integrand", got, base, 1e-13)
                elif op == "B":
                    blocks = F.assemble(block=False)
                    c.trans += 1
                    if len(blocks) != len(F.forms):
                        c.bad(lab + "/count", "assemble(block=False) returns one entry per form", len(blocks), len(F.forms))
                    elif len(blocks) == 1:
                        c.cmp(lab, "assemble(block=False) of a form with a history", blocks[0].toarray(), base, 1e-13)
                elif op == "V":
                    keep = [None if a_ is None else a_.copy() for a_ in held]
                    got = F.assemble(values=held).toarray()
                    want = arrform().assemble(values=keep).toarray()
                    c.trans += 2
                    c.cmp(lab, "assemble(values=held) assembles the held arrays as they are", got, want, 1e-13)
                    for a_, k__ in zip(held, keep):
                        if a_ is not None and not np.array_equal(a_, k__):
                            c.bad(lab + "/values-modified", "assemble(values=...) modified the caller's arrays", "modified", "unchanged")
            else:
                nseq += 1
    c.traces += nseq
    c.outcomes.add(f"integralform-histories={nseq}")
    return c.result(dict(case=case["key"], shape=list(base.shape), histories=nseq))


def run(case):
    if case["kind"] == "ifhist":
        return run_ifhist(case)
    if case["kind"] == "formpairs":
        return run_formpairs(case)
    return {"linear": run_linear, "bilinear": run_bilinear, "parallel": run_parallel, "form": run_form, "threads": run_threads, "reuse": run_reuse, "form2": run_form2}[case["kind"]](case)
