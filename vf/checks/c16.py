"""C16 Mesh generators and transformations preserve geometry and orientation.

Explicit-state breadth-first search over MESH PROGRAMS: start states are generators over an
argument lattice, transitions are every applicable transformation (with a small argument
lattice each), all sequences up to the depth bound.  A reference model tracks the abstract state
(dimension, cell type, expected measure); the concrete invariants are evaluated in every
visited state; states are canonicalised (sorted cell-corner coordinates) for de-duplication, so
programs that must commute are recognised as reaching the same state.
"""

import itertools
import warnings

import numpy as np

from .. import zoo

ID = "C16"
RULE = (
    "case = one generator instance; BFS over all programs (sequences of applicable transformations) from it up to "
    "the depth bound; in every state: measured volume (template region of the cell type) = analytically tracked "
    "measure, all differential volumes positive without warning, no unused points, (generators: no duplicate points), "
    "operation-specific post-conditions (inserted mid-points are centroids, merged meshes keep every cell corner and "
    "leave no two points closer than the rounding tolerance, flip o flip = identity, rotations / translations / "
    "mirrors invertible). Non-trivial = transitions whose result differs from the source state."
)
ASSUMPTIONS = [
    "Volumes are measured with the template region of the cell type (decided by C06).",
    "'merge_duplicate_points neither moves any cell corner' is judged at the rounding tolerance the caller asked for (the function returns the rounded coordinates by design).",
    "revolve: expected measure = sum_k sin(dphi_k) * int r dA of the 2D mesh (exact for chord-sided cells); applied to meshes with r > 0 only.",
    "The BFS is capped per generator (cap reported in the evidence); below the cap the exploration is exhaustive.",
]
TOL = 1e-10


def BOUNDS(tier):
    return {"depth": 3 if tier == "thorough" else 2, "state_cap_per_generator": 3000 if tier == "thorough" else 1600,
            "merge_decimals": [None, 0, 1, 2, 8], "revolve": "scalar angles, angle arrays (4 / 16 / 13 closed), axis 0 and 1"}


# ----------------------------------------------------------------------------- measuring
def measure(mesh, base=None):
    """(sum dV, min dV, warnings) with the template region of the cell type (base: linear ancestor type for None-typed meshes)"""
    import felupe as fem

    ct = mesh.cell_type
    npc = mesh.cells.shape[1]
    with warnings.catch_warnings(record=True) as wl:
        warnings.simplefilter("always")
        if ct == "line":
            r = fem.Region(mesh, fem.Line(), fem.GaussLegendre(order=1, dim=1))
        elif (ct == "quad" or (ct is None and base == "quad")) and mesh.dim == 2 and npc in (4, 5):
            r = fem.RegionQuad(mesh)
        elif ct == "quad8":
            r = fem.RegionQuadraticQuad(mesh)
        elif ct == "quad9":
            r = fem.RegionBiQuadraticQuad(mesh)
        elif (ct == "hexahedron" or (ct is None and base == "hexahedron")) and mesh.dim == 3 and npc in (8, 9, 14):
            r = fem.RegionHexahedron(fem.Mesh(mesh.points, mesh.cells[:, :8], "hexahedron"))
        elif ct == "hexahedron20":
            r = fem.RegionQuadraticHexahedron(mesh)
        elif ct == "hexahedron26":
            r = fem.RegionQuadraticHexahedron(fem.Mesh(mesh.points, mesh.cells[:, :20], "hexahedron20"))
        elif ct == "hexahedron27":
            r = fem.RegionTriQuadraticHexahedron(mesh)
        elif (ct == "triangle" or (ct is None and base == "triangle")) and mesh.dim == 2 and npc in (3, 4):
            r = fem.RegionTriangle(fem.Mesh(mesh.points, mesh.cells[:, :3], "triangle"))
        elif ct is None and mesh.dim == 2 and npc == 4 and False:
            r = None
        elif ct in ("triangle6", "triangle7"):
            r = fem.RegionQuadraticTriangle(fem.Mesh(mesh.points, mesh.cells[:, :6], "triangle6"))
        elif (ct == "tetra" or (ct is None and base == "tetra")) and mesh.dim == 3 and npc in (4, 5):
            r = fem.RegionTetra(fem.Mesh(mesh.points, mesh.cells[:, :4], "tetra"))
        elif ct in ("tetra10", "tetra14", "tetra15"):
            r = fem.RegionQuadraticTetra(fem.Mesh(mesh.points, mesh.cells[:, :10], "tetra10"))
        elif ct == "VTK_LAGRANGE_QUADRILATERAL":
            order = round(npc ** 0.5) - 1
            r = fem.RegionLagrange(mesh, order=order, dim=2)
        elif ct == "VTK_LAGRANGE_HEXAHEDRON":
            order = round(npc ** (1 / 3)) - 1
            r = fem.RegionLagrange(mesh, order=order, dim=3)
        else:
            return None
    wl = [w for w in wl if issubclass(w.category, UserWarning)]
    return float(r.dV.sum()), float(r.dV.min()), len(wl)


def canon(mesh):
    pts = np.round(mesh.points, 9) + 0.0
    cells = sorted(tuple(map(tuple, pts[c])) for c in mesh.cells)
    return (mesh.cell_type, mesh.cells.shape, hash(tuple(cells)))


def tri_mesh_from_quadlike(mesh):
    return mesh


# ----------------------------------------------------------------------------- generators
def generators(tier, seed):
    import felupe as fem

    G = []

    def add(label, make, meas, nodup=True):
        G.append(dict(label=label, make=make, measure=meas, nodup=nodup))

    for n in (2, 3, 4):
        add(f"Line(a=0.5,b=2.0,n={n})", lambda n=n: fem.mesh.Line(a=0.5, b=2.0, n=n), 1.5)
    for n in ((2, 2), (3, 2), (4, 3)):
        add(f"Rectangle(n={n})", lambda n=n: fem.Rectangle(a=(0.2, 0.5), b=(2.0, 1.5), n=n), 1.8)
    add("Rectangle(n=3,scalar)", lambda: fem.Rectangle(a=(0.0, 0.5), b=(1.0, 1.5), n=3), 1.0)
    for n in ((2, 2, 2), (3, 2, 2), (2, 3, 4)):
        add(f"Cube(n={n})", lambda n=n: fem.Cube(a=(0.2, 0.5, -0.3), b=(2.0, 1.5, 0.4), n=n), 1.8 * 0.7)
    # integer lattices: merging with decimals=0 (rounding to whole numbers) is meaningful here
    add("Rectangle(lattice 2x3)", lambda: fem.Rectangle(a=(1, 2), b=(3, 5), n=(3, 4)), 6.0)
    add("Cube(lattice 2x1x2)", lambda: fem.Cube(a=(1, 2, 0), b=(3, 3, 2), n=(3, 2, 3)), 4.0)
    # meshes whose point table has an INTEGER dtype (hand-written coordinates: felupe's own tests build such meshes)
    add("Mesh(int quad lattice 2x3)", lambda: (lambda m: fem.Mesh(np.rint(m.points).astype(int), m.cells, m.cell_type))(fem.Rectangle(a=(1, 2), b=(3, 5), n=(3, 4))), 6.0)
    add("Mesh(int triangle)", lambda: fem.Mesh(np.array([[0, 0], [2, 0], [0, 1], [2, 1]]), np.array([[0, 1, 2], [1, 3, 2]]), "triangle"), 2.0)
    add("Mesh(int hexahedron lattice)", lambda: (lambda m: fem.Mesh(np.rint(m.points).astype(int), m.cells, m.cell_type))(fem.Cube(a=(1, 2, 0), b=(3, 3, 2), n=(3, 2, 3))), 4.0)
    add("Grid(2d)", lambda: fem.Grid(np.array([0.0, 1.0, 3.0]), np.array([0.5, 0.7, 2.0])), 3.0 * 1.5)
    add("Grid(3d)", lambda: fem.Grid(np.array([0.0, 1.0, 3.0]), np.array([0.5, 2.0]), np.array([0.0, 0.3, 0.4])), 3.0 * 1.5 * 0.4)
    add("Grid(1d)", lambda: fem.Grid(np.array([0.0, 1.0, 3.0, 3.5])), 3.5)
    for n in (2, 3, 5):
        for sec in ([0, 90, 180, 270], [0, 90], [0]):
            if n == 5 and len(sec) > 1 and tier != "thorough":
                continue
            add(f"Circle(n={n},sections={sec})", lambda n=n, sec=sec: fem.Circle(radius=1.3, centerpoint=[0.2, 2.0], n=n, sections=sec), "circle:1.3:%d" % len(sec))
    for n in (2, 3, 4):
        for k, (a, b, c) in enumerate((((0, 0), (1, 0), (0, 1)), ((0, 0), (2, 0.3), (0.4, 1.5)), ((1.0, 1.0), (3.0, 1.5), (1.5, 2.5)))):
            add(f"Triangle(n={n},corners={k})", lambda n=n, a=a, b=b, c=c: fem.mesh.Triangle(a=a, b=b, c=c, n=n), 0.5 * abs((b[0] - a[0]) * (c[1] - a[1]) - (b[1] - a[1]) * (c[0] - a[0])))
    for order in (2, 3, 4):
        add(f"RectangleArbitraryOrderQuad(order={order})", lambda order=order: fem.mesh.RectangleArbitraryOrderQuad(a=(0.0, 0.5), b=(2.0, 1.5), order=order), 2.0)
    for order in (2, 3):
        add(f"CubeArbitraryOrderHexahedron(order={order})", lambda order=order: fem.mesh.CubeArbitraryOrderHexahedron(a=(0.0, 0.5, 0.0), b=(2.0, 1.5, 0.5), order=order), 1.0)
    return G


def plan(tier, seed):
    return [dict(key="gen/" + g["label"], gen=g["label"], seed=seed, tier=tier, cost=5) for g in generators(tier, seed)] + [dict(key="scaling", gen="scaling", seed=seed, tier=tier, cost=3), dict(key="unattached-points", gen="unattached", seed=seed, tier=tier, cost=3),
                                                                                                                                         dict(key="large-index-dtypes", gen="large", seed=seed, tier=tier, cost=8)]


def run_scaling(case):
    """generators in other length units: the mesh generated with all lengths multiplied by s is s times the mesh generated
    with unit lengths (same cells, no points merged or split), s in {1e-9, 1e-6, 1e-3, 1e3, 1e7}"""
    import felupe as fem

    key = case["key"]
    viol, nontrivial = [], []
    ntrans = 0
    gens = {
        "Circle(n=3)": lambda s: fem.Circle(radius=1.3 * s, centerpoint=[0.0, 0.0], n=3),
        "Circle(n=6,sections=[0,90,180])": lambda s: fem.Circle(radius=0.7 * s, centerpoint=[0.0, 0.0], n=6, sections=[0, 90, 180]),
        "Circle(n=4,center)": lambda s: fem.Circle(radius=2.0 * s, centerpoint=[0.5 * s, -1.0 * s], n=4),
        "Rectangle": lambda s: fem.Rectangle(a=(0.2 * s, 0.5 * s), b=(2.0 * s, 1.5 * s), n=(4, 3)),
        "Cube": lambda s: fem.Cube(a=(0.2 * s, 0.5 * s, -0.3 * s), b=(2.0 * s, 1.5 * s, 0.4 * s), n=(3, 2, 4)),
        "Line": lambda s: fem.mesh.Line(a=0.5 * s, b=2.0 * s, n=5),
        "Grid": lambda s: fem.Grid(np.array([0.0, 1.0, 3.0]) * s, np.array([0.5, 0.7, 2.0]) * s),
    }
    for lab, g in gens.items():
        ref = g(1.0)
        for sc in (1e-9, 1e-6, 1e-3, 1e3, 1e7):
            try:
                m = g(sc)
            except Exception as ex:  # noqa
                viol.append(dict(key=f"{key}/{lab}/s={sc}/exception", what="generator raised for a valid size", observed=repr(ex)[:160], expected="a mesh", tol=0))
                continue
            ntrans += 1
            sub = f"{lab}/s={sc}"
            if m.points.shape != ref.points.shape or not np.array_equal(m.cells, ref.cells):
                viol.append(dict(key=f"{key}/{sub}/topology", what="mesh generated in other length units has another number of points / other cells (points merged or left duplicate)",
                                 observed=[list(m.points.shape), list(m.cells.shape)], expected=[list(ref.points.shape), list(ref.cells.shape)], tol=0))
                continue
            e = np.abs(m.points / sc - ref.points).max() / np.abs(ref.points).max()
            if e > 1e-9:
                viol.append(dict(key=f"{key}/{sub}/points", what="points of the mesh generated with lengths x s differ from s x (unit mesh)", observed=float(e), expected=0, tol=1e-9))
            if len(np.unique(m.points / sc, axis=0)) != m.npoints:
                viol.append(dict(key=f"{key}/{sub}/duplicates", what="duplicate points in a generated mesh", observed=int(m.npoints - len(np.unique(m.points / sc, axis=0))), expected=0, tol=0))
            nontrivial.append(sub)
    return dict(viol=viol, states=len(nontrivial), transitions=ntrans, traces=len(nontrivial), nontrivial=nontrivial, outcomes=[f"scaled-generators={len(nontrivial)}"], sample=dict(case=key, generators=list(gens)),
                digest=f"{len(nontrivial)}/{len(viol)}", capped=False)


def run_unattached(case):
    """meshes that carry points without cells (an added centre point of a constraint, the meshes of a container sharing one
    point array, cropped cells) at the start / in the middle / at the END of the point array: order conversion and mid-point
    insertion keep the vertices and the connectivity of the vertices, insert centroids, keep volume and orientation and leave
    the unattached points unattached"""
    import felupe as fem

    key = case["key"]
    viol, nontrivial = [], []
    ntrans = 0

    def bad(sub, what, obs, exp, tol=0):
        viol.append(dict(key=f"{key}/{sub}", what=what, observed=obs, expected=exp, tol=tol))

    bases = {"quad": fem.Rectangle(b=(2.0, 1.0), n=(3, 2)), "hexahedron": fem.Cube(b=(2.0, 1.0, 1.0), n=(3, 2, 2)),
             "triangle": fem.Rectangle(b=(2.0, 1.0), n=(3, 2)).triangulate(), "tetra": fem.Cube(b=(2.0, 1.0, 1.0), n=(3, 2, 2)).triangulate()}
    opsets = {"quad": ["add_midpoints_edges", "add_midpoints_faces", "convert2", "convert2-faces"], "hexahedron": ["add_midpoints_edges", "add_midpoints_faces", "add_midpoints_volumes", "convert2", "convert2-all"],
              "triangle": ["add_midpoints_edges", "add_midpoints_faces", "convert2"], "tetra": ["add_midpoints_edges", "add_midpoints_volumes", "convert2"]}
    for ct, base in bases.items():
        d = base.dim
        far = np.array([[5.0, 6.0, 7.0][:d], [-3.0, 2.5, 1.5][:d], [4.0, -4.0, 0.5][:d]])
        variants = {}
        for k in (1, 3):
            variants[f"{k} trailing"] = fem.Mesh(np.vstack([base.points, far[:k]]), base.cells, base.cell_type)
            variants[f"{k} leading"] = fem.Mesh(np.vstack([far[:k], base.points]), base.cells + k, base.cell_type)
        variants["cropped cells"] = fem.Mesh(base.points, base.cells[: max(1, base.ncells // 2)], base.cell_type)
        cont = fem.MeshContainer([base, base.translate(3.0, axis=0)], merge=True)
        variants["container mesh 0"] = cont.meshes[0]
        variants["container mesh 1"] = cont.meshes[1]
        for vlab, m in variants.items():
            v0 = measure(m)
            un0 = np.setdiff1d(np.arange(len(m.points)), np.unique(m.cells))
            for oname in opsets[ct]:
                sub = f"{ct}/{vlab}>{oname}"
                try:
                    if oname == "convert2":
                        new = m.convert(order=2)
                    elif oname == "convert2-faces":
                        new = m.convert(order=2, calc_midfaces=True)
                    elif oname == "convert2-all":
                        new = m.convert(order=2, calc_midfaces=True, calc_midvolumes=True)
                    else:
                        new = getattr(m, oname)()
                except Exception as ex:  # noqa
                    bad(sub + "/exception", "operation raised on a valid mesh with unattached points", repr(ex)[:160], "a mesh")
                    continue
                ntrans += 1
                nv = m.cells.shape[1]
                if not np.array_equal(new.cells[:, :nv], m.cells) or not np.array_equal(new.points[: len(m.points)], m.points):
                    bad(sub + "/vertices", "vertices / vertex connectivity changed by inserting mid-points", "changed", "unchanged")
                    continue
                _midpoint_check(bad, sub, m, new)
                v1 = measure(new)
                if v0 is not None and v1 is not None:
                    if abs(v1[0] - v0[0]) > 1e-12 * max(abs(v0[0]), 1.0) or v1[1] <= 0:
                        bad(sub + "/volume", "covered volume / orientation after inserting mid-points", list(v1[:2]), list(v0[:2]), 1e-12)
                un1 = np.setdiff1d(np.arange(len(new.points)), np.unique(new.cells))
                if not np.array_equal(un1, un0):
                    bad(sub + "/unattached", "points without cells after the operation (the inserted points are all used, the unattached ones stay)", un1.tolist()[:8], un0.tolist()[:8])
                nontrivial.append(sub)
    return dict(viol=viol, states=len(nontrivial), transitions=ntrans, traces=len(nontrivial), nontrivial=nontrivial, outcomes=[f"unattached-variants={len(nontrivial)}"], sample=dict(case=key),
                digest=f"{len(nontrivial)}/{len(viol)}", capped=False)


def run_large(case):
    """meshes with more than 46341 points (npoints squared exceeds 2^31) whose connectivity is stored as 64-bit or 32-bit integers
    (files with 32-bit connectivity, explicit astype): mid-point insertion and order conversion keep the vertices, insert the
    edge centroids, leave no duplicate points, keep volume and orientation"""
    import felupe as fem

    key = case["key"]
    viol, nontrivial = [], []
    ntrans = 0

    def bad(sub, what, obs, exp, tol=0):
        if len(viol) < 40:
            viol.append(dict(key=f"{key}/{sub}", what=what, observed=obs, expected=exp, tol=tol))

    bases = {"quad": fem.Rectangle(n=218), "triangle": fem.Rectangle(n=218).triangulate()}
    if case["tier"] == "thorough":
        bases["hexahedron"] = fem.Cube(n=37)
    for ct, base in bases.items():
        for dt in (np.int64, np.int32):
            m = fem.Mesh(base.points, base.cells.astype(dt), base.cell_type)
            v0 = measure(m)
            for oname in ("add_midpoints_edges", "convert2"):
                sub = f"{ct}/npoints={m.npoints}/cells={np.dtype(dt).name}>{oname}"
                try:
                    new = m.convert(order=2) if oname == "convert2" else m.add_midpoints_edges()
                except Exception as ex:  # noqa
                    bad(sub + "/exception", "operation raised on a valid large mesh", repr(ex)[:160], "a mesh")
                    continue
                ntrans += 1
                nv = m.cells.shape[1]
                if not np.array_equal(new.cells[:, :nv], m.cells) or not np.array_equal(new.points[: len(m.points)], m.points):
                    bad(sub + "/vertices", "vertices / vertex connectivity changed by inserting mid-points", "changed", "unchanged")
                    continue
                nb = len(viol)
                _midpoint_check(bad, sub, m, new)
                if len(viol) > nb:
                    continue
                u = np.unique(np.round(new.points, 9), axis=0)
                if len(u) != new.npoints:
                    bad(sub + "/duplicate-points", "duplicate points after inserting mid-points", int(new.npoints - len(u)), 0)
                v1 = measure(new)
                if v0 is not None and v1 is not None and (abs(v1[0] - v0[0]) > 1e-10 * max(abs(v0[0]), 1.0) or v1[1] <= 0):
                    bad(sub + "/volume", "covered volume / orientation after inserting mid-points", list(v1[:2]), list(v0[:2]), 1e-10)
                nontrivial.append(sub)
    return dict(viol=viol, states=len(nontrivial), transitions=ntrans, traces=len(nontrivial), nontrivial=nontrivial, outcomes=[f"large-variants={len(nontrivial)}"], sample=dict(case=key),
                digest=f"{len(nontrivial)}/{len(viol)}", capped=False)


# ----------------------------------------------------------------------------- operations
LINEAR = ("line", "quad", "hexahedron", "triangle", "tetra")


def r_integral(mesh, rcol=1):
    """int r dA of a 2D quad mesh with r = coordinate `rcol` (checker-side, 3x3 Gauss per cell)"""
    import felupe as fem

    q = fem.GaussLegendre(order=2, dim=2)
    el = fem.Quad()
    tot = 0.0
    for cell in mesh.cells[:, :4]:
        X = mesh.points[cell]
        for p, w in zip(q.points, q.weights):
            h = el.function(p)
            dh = el.gradient(p)
            J = X.T @ dh
            tot += (h @ X[:, rcol]) * np.linalg.det(J) * w
    return tot


def operations(mesh, tier):
    """yield (label, apply, measure_factor_or_fn, postcheck)"""
    import felupe as fem

    ct, dim = mesh.cell_type, mesh.dim
    ops = []

    def op(label, fn, meas=lambda m, mesh: m, post=None):
        ops.append((label, fn, meas, post))

    # rigid motions / mirror (all types for rotate & translate; mirror/flip only where felupe defines face tables)
    angles = (30, 90, -135)
    if dim == 2:
        for a in angles:
            op(f"rotate({a})", lambda m, a=a: m.rotate(a, axis=2))
        op("rotate(90,center)", lambda m: m.rotate(90, axis=2, center=[0.3, 0.4]))
    elif dim == 3:
        for a, ax in ((30, 0), (90, 1), (-135, 2)):
            op(f"rotate({a},axis={ax})", lambda m, a=a, ax=ax: m.rotate(a, axis=ax))
    for ax in range(dim):
        op(f"translate(0.7,{ax})", lambda m, ax=ax: m.translate(0.7, axis=ax))
    if ct in LINEAR and dim > 1:
        normals = ([1, 0, 0], [0, 1, 0], [1, 1, 0]) if dim == 2 else ([1, 0, 0], [0, 0, 1], [1, 2, 3])
        for nrm in normals:
            op(f"mirror({nrm})", lambda m, nrm=nrm: m.mirror(normal=nrm, centerpoint=[0.1, 0.2, 0.3]))
        for ax in range(dim):
            op(f"mirror(axis={ax},centerpoint=0.25)", lambda m, ax=ax: m.mirror(axis=ax, centerpoint=[0.25, 0.25, 0.25]))
        op("flip.flip", lambda m: m.flip().flip(), post="identity-cells")
        mask = np.arange(mesh.ncells) % 2 == 0
        op("flip(mask).flip(mask)", lambda m, mask=mask: m.flip(mask).flip(mask), post="identity-cells")
        # one masked flip (the repair the region's negative-volume warning recommends): the selected cells -- and only they --
        # get the connectivity of the fully flipped mesh, whose covered volume has the opposite sign
        for mlab_, mk_ in (("even", mask), ("first", np.arange(mesh.ncells) == 0), ("all", np.ones(mesh.ncells, dtype=bool)), ("list", list(np.arange(mesh.ncells) % 3 == 1))):
            op(f"flip(mask={mlab_})", lambda m, mk_=mk_: (m.flip(mk_), m.flip(), np.asarray(mk_, dtype=bool)), post="flip-mask")
    # dual meshes (the meshes of the pressure / volume-ratio fields of mixed formulations): connectivity only, judged for what
    # they leave behind on the mesh they were derived from
    for ppc in (None, 1):
        for disc in (True, False):
            for off in (0, 3):
                op(f"dual(points_per_cell={ppc},disconnect={disc},offset={off})", lambda m, ppc=ppc, disc=disc, off=off: m.dual(points_per_cell=ppc, disconnect=disc, offset=off), post="input-only")
    if ct == "quad":
        op("triangulate", lambda m: m.triangulate())
        op("expand(n=3,z=1.5)", lambda m: m.expand(n=3, z=1.5), lambda v, m: v * 1.5)
        op("expand(z=[0,.5,2])", lambda m: m.expand(z=np.array([0.0, 0.5, 2.0])), lambda v, m: v * 2.0)
        if mesh.points[:, 1].min() > 1e-6:
            for n, phi in ((4, 90), (3, 180), (7, 360)):
                op(f"revolve(n={n},phi={phi})", lambda m, n=n, phi=phi: m.revolve(n=n, phi=phi), lambda v, m, n=n, phi=phi: (n - 1) * np.sin(np.deg2rad(phi / (n - 1))) * r_integral(m), post="revolve")
            # angle arrays (non-uniform, lengths different from the default n): sum_k sin(dphi_k) * int r dA
            for lab, phis in (("4 angles", np.array([0.0, 10.0, 50.0, 90.0])), ("16 angles", np.linspace(0.0, 240.0, 16)), ("13 angles, closed", np.linspace(0.0, 360.0, 13))):
                op(f"revolve(phi={lab})", lambda m, phis=phis: m.revolve(phi=phis), lambda v, m, phis=phis: np.sin(np.deg2rad(np.diff(phis))).sum() * r_integral(m), post="revolve")
        if mesh.points[:, 0].min() > 1e-6:
            op("revolve(n=4,phi=90,axis=1)", lambda m: m.revolve(n=4, phi=90, axis=1), lambda v, m: 3 * np.sin(np.deg2rad(30.0)) * r_integral(m, 0), post="revolve")
            # full turns about the second axis (closed ring: the last layer IS the first one), scalar angle and angle array
            op("revolve(n=7,phi=360,axis=1)", lambda m: m.revolve(n=7, phi=360, axis=1), lambda v, m: 6 * np.sin(np.deg2rad(60.0)) * r_integral(m, 0), post="revolve")
            op("revolve(phi=13 angles, closed,axis=1)", lambda m: m.revolve(phi=np.linspace(0.0, 360.0, 13), axis=1), lambda v, m: 12 * np.sin(np.deg2rad(30.0)) * r_integral(m, 0), post="revolve")
        op("convert(order=2)", lambda m: m.convert(order=2), post="midpoints")
        op("convert(order=2,midfaces)", lambda m: m.convert(order=2, calc_midfaces=True), post="midpoints")
        op("add_midpoints_edges", lambda m: m.add_midpoints_edges(), post="midpoints")
        op("add_midpoints_faces", lambda m: m.add_midpoints_faces(), post="midpoints")
        op("add_runouts", lambda m: m.add_runouts(values=[0.0], centerpoint=[0, 0], axis=0), post="same-points")
    if ct == "quad8":
        op("add_midpoints_faces", lambda m: m.add_midpoints_faces(), post="midpoints")
    if ct == "line":
        op("expand(n=3,z=1.5)", lambda m: m.expand(n=3, z=1.5), lambda v, m: v * 1.5)
        pass
    if ct in ("line", "quad") and mesh.points.shape[1] == mesh.dim and dim in (1, 2):
        # fill the gap between the mesh (embedded in one more dimension at height 0) and its copy at height 0.8, sheared by 0.3:
        # default, integer and array-valued relative layer positions (reference interval [-1, 1]): complete, non-uniform and
        # PARTIAL fills cover (n[-1] - n[0]) / 2 of the gap
        op("fill_between(n=3)", lambda m: _fill(m, 3), lambda v, m: v * 0.8)
        for nlab, narr in (("[-1,-.6,.3,1]", [-1.0, -0.6, 0.3, 1.0]), ("[-1,-.5,0]", [-1.0, -0.5, 0.0]), ("[.2,.6,1]", [0.2, 0.6, 1.0]), ("[-.5,0,.5]", [-0.5, 0.0, 0.5])):
            op(f"fill_between(n={nlab})", lambda m, narr=narr: _fill(m, np.array(narr)), lambda v, m, narr=narr: v * 0.8 * (narr[-1] - narr[0]) / 2)
    if ct == "hexahedron":
        op("triangulate(mode=3)", lambda m: m.triangulate(mode=3))
        op("triangulate(mode=0)", lambda m: m.triangulate(mode=0), post="mode0")
        op("convert(order=2)", lambda m: m.convert(order=2), post="midpoints")
        op("convert(order=2,faces,volumes)", lambda m: m.convert(order=2, calc_midfaces=True, calc_midvolumes=True), post="midpoints")
        op("add_midpoints_volumes", lambda m: m.add_midpoints_volumes(), post="midpoints")
        op("add_midpoints_faces", lambda m: m.add_midpoints_faces(), post="midpoints")
    if ct == "hexahedron20":
        op("add_midpoints_faces", lambda m: m.add_midpoints_faces(), post="midpoints")
    if ct == "hexahedron26":
        op("add_midpoints_volumes", lambda m: m.add_midpoints_volumes(), post="midpoints")
    if ct == "triangle":
        op("convert(order=2)", lambda m: m.convert(order=2), post="midpoints")
        op("add_midpoints_faces", lambda m: m.add_midpoints_faces(), post="midpoints")
    if ct == "triangle6":
        op("add_midpoints_faces", lambda m: m.add_midpoints_faces(), post="midpoints")
    if ct == "tetra":
        op("convert(order=2)", lambda m: m.convert(order=2), post="midpoints")
        op("add_midpoints_volumes", lambda m: m.add_midpoints_volumes(), post="midpoints")
    if ct == "tetra10":
        op("add_midpoints_faces", lambda m: m.add_midpoints_faces(), post="midpoints")
        op("add_midpoints_volumes", lambda m: m.add_midpoints_volumes(), post="midpoints")
    if ct == "tetra14":
        op("add_midpoints_volumes", lambda m: m.add_midpoints_volumes(), post="midpoints")
    if ct is not None and not str(ct).startswith("VTK"):
        ext = mesh.points[:, 0].max() - mesh.points[:, 0].min()
        op("concatenate(copy shifted)", lambda m, ext=ext: fem.mesh.concatenate([m, m.translate(ext, axis=0)]), lambda v, m: 2 * v, post="duplicates-expected")
        op("concatenate+merge(decimals=None)", lambda m, ext=ext: fem.mesh.concatenate([m, m.translate(ext, axis=0)]).merge_duplicate_points(), lambda v, m: 2 * v, post="merge:None")
        op("concatenate+merge(decimals=8)", lambda m, ext=ext: fem.mesh.concatenate([m, m.translate(ext, axis=0)]).merge_duplicate_points(decimals=8), lambda v, m: 2 * v, post="merge:8")
        if ct in ("quad", "hexahedron"):
            # parts with DIFFERENT numbers of points (a coarse block placed beyond the mesh, in both orders, and three parts)
            def coarse(m):
                lo, hi = m.points.min(0), m.points.max(0)
                a = lo.copy()
                a[0] = hi[0] + 0.5
                b = a + 1.0
                return (fem.Rectangle(a=tuple(a), b=tuple(b), n=2) if m.dim == 2 else fem.Cube(a=tuple(a), b=tuple(b), n=2))

            op("concatenate(self, coarse block)", lambda m: fem.mesh.concatenate([m, coarse(m)]), lambda v, m: v + 1.0, post="duplicates-expected")
            op("concatenate(coarse block, self)", lambda m: fem.mesh.concatenate([coarse(m), m]), lambda v, m: v + 1.0, post="duplicates-expected")
            op("concatenate(self, coarse block, shifted copy)", lambda m, ext=ext: fem.mesh.concatenate([m, coarse(m), m.translate(ext + 2.0, axis=0)]), lambda v, m: 2 * v + 1.0, post="duplicates-expected")
        op("container(merge=True).stack", lambda m, ext=ext: fem.MeshContainer([m, m.translate(ext, axis=0)], merge=True).stack(), lambda v, m: 2 * v, post="merge:None")
        op("stack(self,self)+merge_cells", lambda m: fem.mesh.stack([m, m]).merge_duplicate_cells(), post="same-cells-set")
        op("disconnect", lambda m: m.disconnect(), post="disconnect")
        # a COPY that is changed and then merged through the documented alias `sweep` (and by the full name): the copy's own
        # geometry is merged, the mesh it was copied from is left alone
        def _copy_scaled(m, how):
            src_pts = m.points.copy()
            new = m.copy(points=m.points * 2.0) if how.startswith("copy(points)") else m.copy()
            if not how.startswith("copy(points)"):
                new.points[:] = new.points * 2.0
            out = new.sweep() if how.endswith("sweep") else new.merge_duplicate_points()
            if not np.array_equal(m.points, src_pts):
                raise AssertionError("the mesh a copy was taken from was modified by merging the copy")
            return out

        for how in ("copy>scale>sweep", "copy(points)>sweep", "copy>scale>merge_duplicate_points"):
            op(how, lambda m, how=how: _copy_scaled(m, how), lambda v, m: v * 2.0 ** m.dim)
        op("merge(decimals=2)", lambda m: m.merge_duplicate_points(decimals=2), post="merge:2")
        if dim in (2, 3) and ct in LINEAR and np.abs(mesh.points - np.round(mesh.points)).max() < 1e-9:
            # integer lattice + its copy rotated by 90 degrees about its lower corner (coordinates equal only up to
            # round-off): merged at the rounding tolerance the caller asks for
            for dec in (0, 1, None):
                op(f"concatenate(rot90 copy)+merge(decimals={dec})", lambda m, dec=dec: fem.mesh.concatenate([m, _rot90(m)]).merge_duplicate_points(decimals=dec), lambda v, m: 2 * v, post=f"merge:{dec}:rot90" if dec is not None else "duplicates-expected")
            op("container(rot90 copy, merge=True, decimals=0).stack", lambda m: fem.MeshContainer([m, _rot90(m)], merge=True, decimals=0).stack(), lambda v, m: 2 * v, post="merge:0:rot90")
        op("dual(calc_points)", lambda m: m.dual(points_per_cell=None, disconnect=True, calc_points=True), post="disconnect")
    return ops


def _rot90(m):
    c = np.zeros(3)
    c[: m.dim] = m.points.min(0)
    return m.rotate(90, axis=2, center=c[: m.dim] if m.dim == 2 else c)


def _fill(m, n):
    import felupe as fem

    bottom = fem.Mesh(np.column_stack([m.points, np.zeros(m.npoints)]), m.cells, m.cell_type)
    P = np.column_stack([m.points, np.full(m.npoints, 0.8)])
    P[:, 0] += 0.3
    return fem.mesh.fill_between(bottom, fem.Mesh(P, m.cells, m.cell_type), n=n)


def run(case):
    import felupe as fem

    warnings.simplefilter("default")
    if case["gen"] == "scaling":
        return run_scaling(case)
    if case["gen"] == "unattached":
        return run_unattached(case)
    if case["gen"] == "large":
        return run_large(case)
    tier, seed = case["tier"], case["seed"]
    key = case["key"]
    gen = [g for g in generators(tier, seed) if g["label"] == case["gen"]][0]
    viol, nontrivial, outcomes, notes = [], [], set(), []
    st = dict(trans=0, traces=0)
    depth = 3 if tier == "thorough" else 2
    cap = 3000 if tier == "thorough" else 1600

    def bad(sub, what, obs, exp, tol=TOL):
        if len(viol) < 60:
            viol.append(dict(key=f"{key}/{sub}", what=what, observed=obs, expected=exp, tol=tol))

    mesh0 = gen["make"]()
    exp0 = gen["measure"]
    if isinstance(exp0, str) and exp0.startswith("circle"):
        _, rad, nsec = exp0.split(":")
        rad = float(rad)
        # shoelace area of the boundary polygon (edges that belong to one cell), all outer vertices on the radius
        edges = {}
        for cell in mesh0.cells:
            for i in range(4):
                a, b = int(cell[i]), int(cell[(i + 1) % 4])
                edges[(a, b)] = edges.get((a, b), 0) + 1
        area = 0.0
        for (a, b) in edges:
            if (b, a) not in edges:
                pa, pb = mesh0.points[a], mesh0.points[b]
                area += 0.5 * (pa[0] * pb[1] - pb[0] * pa[1])
        exp0 = area
        rr = np.linalg.norm(mesh0.points - np.array([0.2, 2.0]), axis=1)
        if abs(rr.max() - rad) > 1e-9 * rad:  # the generator rounds to 10 decimals before scaling
            bad("start/radius", "outermost points of a circle mesh must lie on the given radius", float(rr.max()), rad)
        exact = int(nsec) / 4 * np.pi * rad**2
        if not (0.8 * exact < area <= exact * (1 + 1e-12)):
            bad("start/area", "polygon area of the circle mesh vs the disc sector", area, f"(0.8..1] * {exact}")
    # generator invariants
    def check_state(sub, mesh, expected, nodup=False, unused=True, base=None, mtol=TOL):
        ms = measure(mesh, base)
        st["traces"] += 1
        if ms is None:
            notes.append(f"no template for cell type {mesh.cell_type} ({mesh.cells.shape[1]} points per cell)")
            return
        vol, dvmin, nw = ms
        if expected is not None and mtol is not None and abs(vol - expected) > mtol * max(abs(expected), 1.0):
            bad(sub + "/measure", "covered volume", vol, expected)
        if dvmin <= 0 or nw:
            bad(sub + "/orientation", "all cells must be positively oriented (min dV, warnings)", [dvmin, nw], "> 0, no warning")
        if unused:
            used = np.unique(mesh.cells)
            if len(used) != mesh.npoints:
                bad(sub + "/unused-points", "points that belong to no cell", int(mesh.npoints - len(used)), 0)
        if nodup:
            u = np.unique(np.round(mesh.points, 10), axis=0)
            if len(u) != mesh.npoints:
                bad(sub + "/duplicate-points", "duplicate points in a generated mesh", int(mesh.npoints - len(u)), 0)

    base0 = mesh0.cell_type if mesh0.cell_type in LINEAR else None
    check_state("start", mesh0, exp0, nodup=gen["nodup"], base=base0)
    seen = {canon(mesh0): ()}
    frontier = [((), mesh0, exp0, base0, TOL)]
    capped = False
    maxdepth = 0
    for d in range(depth):
        nxt = []
        for prog, mesh, expected, base, mtol in frontier:
            for (label, fn, meas, post) in operations(mesh, tier):
                pts_before, cells_before = mesh.points.copy(), mesh.cells.copy()
                try:
                    with warnings.catch_warnings():
                        warnings.simplefilter("ignore")
                        new = fn(mesh)
                        newexp = meas(expected, mesh) if expected is not None else None
                except Exception as e:  # noqa
                    bad("prog=" + ">".join(prog + (label,)) + "/exception", "transformation raised on an applicable mesh", repr(e)[:160], "a mesh")
                    continue
                st["trans"] += 1
                sub = "prog=" + ">".join(prog + (label,))
                # a transformation returns a NEW mesh: the mesh it was applied to still covers what it covered before
                st["traces"] += 1
                if not (np.array_equal(mesh.cells, cells_before) and np.array_equal(mesh.points, pts_before)):
                    bad(sub + "/input-mesh-changed", "the mesh a transformation was applied to was modified (points / cells), i.e. what it covers changed", "modified", "unchanged")
                    mesh.points[...] = pts_before
                    mesh.cells[...] = cells_before
                if post == "input-only":
                    continue
                if post == "flip-mask":
                    fm_, fa_, mk_ = new
                    st["traces"] += 2
                    if not (np.array_equal(fm_.cells[mk_], fa_.cells[mk_]) and np.array_equal(fm_.cells[~mk_], mesh.cells[~mk_]) and np.array_equal(fm_.points, mesh.points)):
                        bad(sub + "/selected-cells", "flip(mask): the selected cells get the flipped connectivity, all other cells and the points are untouched", "differs", "selected rows of flip(), other rows unchanged")
                    if mk_.any() and np.array_equal(fa_.cells, mesh.cells):
                        bad(sub + "/flip-changes-nothing", "flip() returned the connectivity it was given", "unchanged", "reversed orientation")
                    va_, v0_ = measure(fa_, base), measure(mesh, base)
                    if va_ is not None and v0_ is not None and abs(va_[0] + v0_[0]) > 1e-10 * max(abs(v0_[0]), 1e-300):
                        bad(sub + "/flipped-volume", "covered volume of the fully flipped mesh = - covered volume", float(va_[0]), float(-v0_[0]))
                    continue
                nbase = new.cell_type if new.cell_type in LINEAR else base
                ntol = mtol
                if post and post.startswith("merge") and post != "merge:None":
                    dec = int(post.split(":")[1])
                    ntol = None if (dec < 6 or mtol is None) else max(mtol, 50 * 10.0 ** (-dec))  # rounded coordinates: the measure moves with them
                    if post.endswith("rot90"):
                        ntol = mtol  # lattice coordinates: rounding moves nothing but round-off
                check_state(sub, new, newexp, unused=(post not in ("merge:2",)), base=nbase, mtol=ntol)
                # operation-specific post-conditions
                if post == "identity-cells":
                    if not (np.array_equal(new.cells, mesh.cells) and np.array_equal(new.points, mesh.points)):
                        bad(sub + "/identity", "double flip must be the identity", "differs", "identical")
                elif post == "midpoints":
                    nold = mesh.npoints
                    if not np.array_equal(new.points[:nold], mesh.points) or not np.array_equal(new.cells[:, : mesh.cells.shape[1]], mesh.cells):
                        bad(sub + "/kept", "existing points / cell columns must be kept", "changed", "kept")
                    else:
                        _midpoint_check(bad, sub, mesh, new)
                elif post and post.startswith("merge"):
                    dec = post.split(":")[1]
                    src = fem.mesh.concatenate([mesh, mesh.translate(mesh.points[:, 0].max() - mesh.points[:, 0].min(), axis=0)]) if "concatenate" in label or "container" in label else mesh
                    if post.endswith("rot90"):
                        src = fem.mesh.concatenate([mesh, _rot90(mesh)])
                    tolm = 0.0 if dec == "None" else 0.5 * 10 ** (-int(dec)) * (1 + 1e-6)
                    if new.cells.shape == src.cells.shape:
                        dmax = np.abs(new.points[new.cells] - src.points[src.cells]).max()
                        if dmax > tolm:
                            bad(sub + "/corner-moved", "merging must not move any cell corner (beyond the rounding tolerance)", float(dmax), tolm)
                    else:
                        bad(sub + "/cells-shape", "merging must keep the cells", list(new.cells.shape), list(src.cells.shape))
                    # no two points closer than the tolerance
                    P = new.points
                    if len(np.unique(P if dec == "None" else np.round(new.points, int(dec)), axis=0)) != len(P):
                        bad(sub + "/close-points", "two points closer than the rounding tolerance remain after merging", "duplicates", "none")
                    if "concatenate" in label or "container" in label:
                        shared = len(np.unique(src.points if dec == "None" else np.round(src.points, int(dec)), axis=0))
                        if new.npoints != shared:
                            bad(sub + "/count", "number of points after merging the shared face", int(new.npoints), int(shared))
                elif post == "disconnect":
                    if new.npoints != new.cells.size or len(np.unique(new.cells)) != new.cells.size:
                        bad(sub + "/disconnect", "every cell must own its points", [int(new.npoints), int(new.cells.size)], "equal")
                    elif not np.array_equal(new.points[new.cells], mesh.points[mesh.cells]):
                        bad(sub + "/disconnect-geometry", "disconnecting must keep every cell's corner coordinates", "changed", "kept")
                elif post == "same-cells-set":
                    a = sorted(map(tuple, new.cells.tolist()))
                    b = sorted(map(tuple, mesh.cells.tolist()))
                    if a != b:
                        bad(sub + "/cells", "merging duplicate cells of a doubled mesh must give the original cells", len(a), len(b))
                elif post == "same-points":
                    if np.abs(new.points - mesh.points).max() > 1e-14:
                        bad(sub + "/points", "run-outs with zero amplitude must not move points", float(np.abs(new.points - mesh.points).max()), 0)
                elif post == "mode0":
                    pass
                elif post == "revolve":
                    # a body of revolution off the axis has no coincident points; a full turn is a closed ring (no seam layer)
                    u_ = np.unique(np.round(new.points, 9), axis=0)
                    st["traces"] += 1
                    # (only for plane meshes that have no coincident points themselves: concatenated copies keep theirs)
                    if len(np.unique(np.round(mesh.points, 9), axis=0)) == mesh.npoints and len(u_) != new.npoints:
                        bad(sub + "/coincident-points", "coincident points in a revolved mesh (seam of a full turn not closed)", int(new.npoints - len(u_)), 0)
                k = canon(new)
                if k not in seen:
                    seen[k] = prog + (label,)
                    nontrivial.append(sub)
                    if len(seen) >= cap:
                        capped = True
                    else:
                        nxt.append((prog + (label,), new, newexp, nbase, ntol))
                    maxdepth = max(maxdepth, d + 1)
                else:
                    outcomes.add("revisit")
        frontier = nxt
        if capped:
            break
    # inverse pairs (differential): r(a) o r(-a), t o t^-1, mirror o mirror, 4 x rotate(90)
    m = mesh0
    dim = m.dim
    pairs = [("translate", lambda x: x.translate(0.7, axis=0).translate(-0.7, axis=0), 1e-15)]
    if dim >= 2:
        ax = 2
        pairs.append(("rotate", lambda x: x.rotate(37, axis=ax).rotate(-37, axis=ax), 1e-14))
        pairs.append(("rotate4x90", lambda x: x.rotate(90, axis=ax).rotate(90, axis=ax).rotate(90, axis=ax).rotate(90, axis=ax), 1e-14))
        pairs.append(("rotate-center", None, 1e-14))
        if m.cell_type in LINEAR:
            pairs.append(("mirror", lambda x: x.mirror(normal=[1, 2, 3], centerpoint=[0.1, 0.2, 0.3]).mirror(normal=[1, 2, 3], centerpoint=[0.1, 0.2, 0.3]), 1e-14))
    for lab, fn, tol in pairs:
        if lab == "rotate-center":
            cpt = [0.3, 0.4, 0.0][:dim]
            a = m.rotate(90, axis=2, center=cpt)
            b = fem.Mesh(m.points - np.array(cpt), m.cells, m.cell_type).rotate(90, axis=2)
            b = fem.Mesh(b.points + np.array(cpt), b.cells, b.cell_type)
        else:
            a, b = fn(m), m
        st["trans"] += 1
        st["traces"] += 1
        if not np.array_equal(a.cells, b.cells) or np.abs(a.points - b.points).max() > tol * 10:
            bad("inverse/" + lab, "inverse pair of transformations must be the identity", float(np.abs(a.points - b.points).max()) if a.points.shape == b.points.shape else "shape", 0, tol)
    sample = dict(case=key, states=len(seen), depth=maxdepth, example_program=list(list(seen.values())[-1]))
    return dict(viol=viol, states=len(seen), transitions=st["trans"], traces=st["traces"], nontrivial=nontrivial, outcomes=sorted(outcomes), sample=sample, notes=sorted(set(notes)),
                capped=capped, digest=f"{len(seen)}/{st['trans']}/{len(viol)}")


def _midpoint_check(bad, sub, mesh, new):
    """every appended point is the centroid of the vertices of the edge / face / cell it belongs to"""
    nold = mesh.npoints
    ncol_old = mesh.cells.shape[1]
    ct = mesh.cell_type
    nvert = {"quad": 4, "quad8": 4, "hexahedron": 8, "hexahedron20": 8, "hexahedron26": 8, "triangle": 3, "triangle6": 3, "tetra": 4, "tetra10": 4, "tetra14": 4}.get(ct)
    if nvert is None:
        return
    X = new.points
    import felupe as fem

    el = {4: fem.Quad, 8: fem.Hexahedron, 3: fem.Triangle}.get(nvert if mesh.dim != 3 or nvert != 4 else -1)
    # every new point must be the mean of a subset of its cell's vertices (edge: 2, face: 3 or 4, cell: all); it is attributed
    # to the LARGEST such vertex set.  An edge / face shared by several cells gets ONE mid-point whatever the local numbering
    # (winding) of the neighbouring cells is: no vertex set (global point ids) may own two different points.  (Geometrically
    # coincident mid-points of DIFFERENT entities -- the two diagonals of a non-conforming triangulate(mode=0) split -- are
    # not duplicates in this sense.)
    combos = []
    for k in sorted({nvert, 4, 3, 2}, reverse=True):
        if k <= nvert:
            combos += [cb_ for cb_ in itertools.combinations(range(nvert), k)]
    newcols = list(range(ncol_old, new.cells.shape[1]))
    owner = {}
    if newcols:
        W = np.zeros((len(combos), nvert))
        for r_, cb_ in enumerate(combos):
            W[r_, list(cb_)] = 1.0 / len(cb_)
        Vall = X[new.cells[:, :nvert]]  # (c, nvert, dim)
        Pall = X[new.cells[:, newcols]]  # (c, ncol, dim)
        means = np.einsum("rv,cvd->crd", W, Vall)  # (c, ncomb, dim)
        hit = np.abs(means[:, :, None, :] - Pall[:, None, :, :]).max(-1) < 1e-13  # (c, ncomb, ncol)
        if not hit.any(1).all():
            cc_, kk_ = np.argwhere(~hit.any(1))[0]
            bad(sub + "/centroid", "inserted mid-point is not the centroid of an edge, face or the cell", Pall[cc_, kk_].tolist(), "mean of 2, 3, 4 or all vertices of its cell")
            return
        first = hit.argmax(1)  # index of the first (= largest) matching vertex set per (cell, new column)
        for cc_ in range(new.cells.shape[0]):
            cell = new.cells[cc_]
            for kk_, col in enumerate(newcols):
                ent = frozenset(int(cell[i]) for i in combos[first[cc_, kk_]])
                owner.setdefault(ent, set()).add(int(cell[col]))
    dups = [e_ for e_, ids in owner.items() if len(ids) > 1]
    if dups:
        bad(sub + "/duplicate-midpoints", "an edge / face shared by several cells received more than one mid-point", dict(entities=len(dups), example=sorted(dups[0])), 0)
    # cell (volume) mid-points specifically: last column after add_midpoints_volumes / faces of 2D cells = mean of ALL vertices
    if "volumes" in sub.split(">")[-1] or (mesh.dim == 2 and "faces" in sub.split(">")[-1]):
        col = new.cells.shape[1] - 1
        cen = X[new.cells[:, :nvert]].mean(1)
        e = np.abs(X[new.cells[:, col]] - cen).max()
        if e > 1e-13:
            bad(sub + "/cell-centroid", "cell mid-point must be the centroid of all vertices of the cell", float(e), 0)
