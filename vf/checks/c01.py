"""C01 Assembled tangent matrix is the exact derivative of the assembled vector.

Bounded-exhaustive exploration of the real assembly: item kind x field kind x element family x
zoo member x material x state lattice x load magnitude.  For every configuration the
derivative is decided along ALL N unit dof directions of all fields (a matrix is decided by
its columns): Richardson central finite difference of the real tools.fun_items (what Newton
sums, including multipliers) against the real tools.jac_items.
"""

import itertools
import warnings

import numpy as np

from .. import zoo

ID = "C01"
RULE = (
    "case = one configuration (items, field kind, element family, zoo member, material, state amplitude / (p, J) "
    "state, load magnitude, contact pattern); inside a case the derivative of the assembled system vector is taken "
    "along every unit dof direction of every field and compared column by column with the assembled system matrix; "
    "symmetry of the matrix for hyperelastic bodies and conservative constraints. Non-trivial = columns with a "
    "non-zero reference."
)
ASSUMPTIONS = [
    "FD: central differences with steps h and h/2 (h = 2e-5 * mesh size) with Richardson extrapolation; measured floor 1e-11..1e-10 relative to max|K|, threshold 2e-6.",
    "Nearly-incompressible body: judged in the settled state (vector assembled twice at the same field, so that p = K (v/V - 1) and the stored configuration equals the current one), additionally against the checker's own mean-dilatation residual.",
    "Contact: states at distance >= 0.05 from the open/closed switching point by construction; all 2^k open/closed patterns are enumerated.",
    "Pseudo-elasticity away from W = W_max (stored 0 or 5), plasticity with sy = 1e3 / 1e-3 (away from the yield surface).",
]
TOL = 2e-6


def BOUNDS(tier):
    return {"dofs_per_configuration": "<= ~140", "amplitudes": [0.0, 0.05, 0.15], "pJ": [[0.0, 1.0], [0.3, 1.1], [-0.3, 0.9]], "contact_points": 3, "materials": MATERIALS}


SOLID_FIELDS = [
    # (label, mesh kind, member, field kind)
    ("3d/hexahedron", "hexahedron", "renum", "3d"), ("3d/hexahedron20", "hexahedron20", "strip", "3d"), ("3d/hexahedron27", "hexahedron27", "ref", "3d"),
    ("3d/tetra", "tetra", "renum", "3d"), ("3d/tetra10", "tetra10", "ref", "3d"), ("3d/tetra-mini", "tetra-mini", "ref", "3d"),
    ("ps/quad", "quad", "renum", "ps"), ("ps/quad8", "quad8", "curved", "ps"), ("ps/quad9", "quad9", "distorted", "ps"),
    ("ps/triangle", "triangle", "renum", "ps"), ("ps/triangle6", "triangle6", "curved", "ps"), ("ps/triangle-mini", "triangle-mini", "block", "ps"),
    ("axi/quad", "quad", "renum", "axi"), ("axi/quad8", "quad8", "distorted", "axi"),
    ("2d/quad", "quad", "distorted", "2d"), ("3d/lagrange2", "lagrange3o2", "curved", "3d"), ("ps/lagrange3", "lagrange2o3", "curved", "ps"),
]
MATERIALS = ["NeoHooke", "NeoHooke-mu", "NeoHookeCompressible", "LELS", "OgdenRoxburgh-virgin", "OgdenRoxburgh-softened", "tt-mooney", "tt-visco", "Composite", "plastic-elastic", "plastic-plastic",
             "user-nonconservative", "ad-nonconservative", "NeoHooke-bulk", "Volumetric"]
MIXED_FIELDS = [("mixed/hexahedron", "hexahedron", "renum", "3d"), ("mixed/ps-quad", "quad", "renum", "ps"), ("mixed/axi-quad", "quad", "renum", "axi"), ("mixed/quad9", "quad9", "ref", "ps"), ("mixed/tetra10", "tetra10", "ref", "3d")]


def plan(tier, seed):
    cases = []
    quick = tier == "quick"
    for (lab, mk, mem, fk) in SOLID_FIELDS:
        mats = MATERIALS if (not quick or lab in ("3d/hexahedron", "ps/quad", "axi/quad")) else ["NeoHooke", "tt-mooney", "user-nonconservative"]
        if fk == "2d":
            mats = ["LinearElasticPlaneStress"]
        for mat in mats:
            if mat.startswith("plastic") and fk not in ("3d",):
                continue
            for amp in ((0.0, 0.15) if quick else (0.0, 0.05, 0.15)):
                cases.append(dict(key=f"solid/{lab}/{mem}/{mat}/amp={amp}", kind="solid", mesh=mk, member=mem, fk=fk, mat=mat, amp=amp, seed=seed, tier=tier, cost=8 if "27" in lab or "20" in lab or "10" in lab else 2))
    # uniform-grid regions (uniform=True: compressed storage) with materials whose tangent is the same in every cell
    for dimu in (2, 3):
        cases.append(dict(key=f"uniform-region/linear-elastic/dim={dimu}", kind="uniform-linear", dim=dimu, seed=seed, tier=tier, cost=3))
    # what Newton sums over SEVERAL items with scale factors: matrix = sum m_i K_i = derivative of sum m_i r_i, for every
    # factor a caller may set (None, +-1, a general factor, exactly zero as float / int: a de-activated item)
    for mlab, mval in (("None", None), ("1.0", 1.0), ("-1.0", -1.0), ("2.5", 2.5), ("0.0", 0.0), ("0", 0), ("1e-12", 1e-12)):
        for order in ("scaled-last", "scaled-first"):
            for via in ("init", "attribute"):
                cases.append(dict(key=f"itemsum/multiplier={mlab}/{order}/{via}", kind="itemsum", mval=mval, order=order, via=via, seed=seed, tier=tier, cost=2))
    for (lab, mk, mem, fk) in MIXED_FIELDS:
        for mat in ("ThreeFieldVariation", "NearlyIncompressible", "user-full-blocks"):
            # (full non-symmetric block lists: 3D hexahedra only -- on plane-strain / axisymmetric mixed containers and with
            #  dual fields of more than one shape function per cell the pinned integral form raises a shape error before any
            #  value exists; observation in DESIGN.md, not judged)
            if mat == "user-full-blocks" and lab != "mixed/hexahedron":
                continue
            for k, (p, J) in enumerate([(0.0, 1.0), (0.3, 1.1), (-0.3, 0.9)]):
                cases.append(dict(key=f"{lab}/{mem}/{mat}/pJ={p},{J}", kind="mixed", mesh=mk, member=mem, fk=fk, mat=mat, p=p, J=J, amp=0.1, seed=seed, tier=tier, cost=6))
    for fk, mk in (("3d", "hexahedron"), ("ps", "quad"), ("axi", "quad"), ("ps", "quad8")):
        for bulk in (5.0, 500.0):
            for amp in (0.0, 0.12):
                cases.append(dict(key=f"nearly-incompressible/{fk}/{mk}/bulk={bulk}/amp={amp}", kind="ni", mesh=mk, member="renum" if mk != "quad8" else "distorted", fk=fk, bulk=bulk, amp=amp, seed=seed, tier=tier, cost=4))
    for fk, mk in (("3d", "hexahedron"), ("3d", "hexahedron20"), ("ps", "quad"), ("axi", "quad"), ("ps", "quad9")):
        for item in ("pressure", "cauchy", "cauchy-nonsym"):  # (-nonsym: a prescribed stress array WITHOUT symmetry, as a ramp of single components produces)
            for mag in (0.7, -1.3, 0.0):
                for face in ("all", "one"):
                    if item == "cauchy" and fk != "3d":
                        continue
                    cases.append(dict(key=f"{item}/{fk}/{mk}/mag={mag}/faces={face}", kind="surface", item=item, mesh=mk, fk=fk, mag=mag, face=face, amp=0.1, seed=seed, tier=tier, cost=4))
    for fk, mk in (("3d", "hexahedron"), ("ps", "quad")):
        for skip in itertools.product((0, 1), repeat=3 if fk == "3d" else 2):
            if all(skip):
                continue
            cases.append(dict(key=f"mpc/{fk}/skip={skip}", kind="mpc", mesh=mk, fk=fk, skip=skip, amp=0.1, seed=seed, tier=tier))
        cases.append(dict(key=f"mpc/{fk}/mixed-container", kind="mpc", mesh=mk, fk=fk, skip=(0,) * (3 if fk == "3d" else 2), amp=0.1, mixed=True, seed=seed, tier=tier))
    # the same configurations in other unit systems (length x ls, stresses x ms): millimetre-sized soft bodies in SI, and large stiff ones
    for units in ((1e-3, 1e-6), (1e-4, 1e-9), (1e3, 1e6)):
        for (lab, mk, mem, fk), mat in ((("3d/hexahedron", "hexahedron", "renum", "3d"), "NeoHooke"), (("axi/quad", "quad", "renum", "axi"), "NeoHooke"), (("ps/quad", "quad", "renum", "ps"), "tt-mooney")):
            cases.append(dict(key=f"solid/{lab}/{mem}/{mat}/amp=0.15/units={units}", kind="solid", mesh=mk, member=mem, fk=fk, mat=mat, amp=0.15, units=units, seed=seed, tier=tier, cost=2))
        for fk, mk in (("3d", "hexahedron"), ("axi", "quad")):
            cases.append(dict(key=f"nearly-incompressible/{fk}/{mk}/bulk=5.0/amp=0.12/units={units}", kind="ni", mesh=mk, member="renum", fk=fk, bulk=5.0, amp=0.12, units=units, seed=seed, tier=tier, cost=4))
            cases.append(dict(key=f"pressure/{fk}/{mk}/mag=0.7/faces=one/units={units}", kind="surface", item="pressure", mesh=mk, fk=fk, mag=0.7, face="one", amp=0.1, units=units, seed=seed, tier=tier, cost=4))
    for fk, mk in (("3d", "hexahedron"), ("ps", "quad")):
        nd = 3 if fk == "3d" else 2
        for axis in range(nd):
            for pattern in itertools.product((0, 1), repeat=3):
                cases.append(dict(key=f"contact/{fk}/axis={axis}/closed={pattern}", kind="contact", mesh=mk, fk=fk, axis=axis, pattern=pattern, amp=0.02, seed=seed, tier=tier))
                if pattern in ((1, 1, 1), (1, 0, 1), (0, 0, 0)):
                    cases.append(dict(key=f"contact/{fk}/axis={axis}/closed={pattern}/touching", kind="contact", mesh=mk, fk=fk, axis=axis, pattern=pattern, offset=0.0, amp=0.02, seed=seed, tier=tier))
    # contact with SEVERAL connected axes (a rigid corner): every subset of >= 2 axes x every open / closed pattern of two target
    # points per connected axis (points may touch along two or three axes at once)
    for fk, mk in (("3d", "hexahedron"), ("ps", "quad")):
        nd_ = 3 if fk == "3d" else 2
        for axes in [a_ for r_ in range(2, nd_ + 1) for a_ in itertools.combinations(range(nd_), r_)]:
            cases.append(dict(key=f"contact-corner/{fk}/axes={list(axes)}", kind="contact-corner", mesh=mk, fk=fk, axes=list(axes), amp=0.02, seed=seed, tier=tier, cost=4))
    for fk, mk in (("3d", "hexahedron"), ("ps", "quad"), ("axi", "quad"), ("mixed3d", "hexahedron")):
        for item in ("pointload", "force", "gravity"):
            cases.append(dict(key=f"{item}/{fk}", kind="load", item=item, mesh=mk, fk=fk, amp=0.1, seed=seed, tier=tier))
    for name in ("form-penalty", "form-penalty/triangle", "form-penalty/quad9", "form-hyperelastic", "form-mixed"):
        cases.append(dict(key=f"formitem/{name}", kind="form", name=name, seed=seed, tier=tier, cost=5))
    return cases


# ----------------------------------------------------------------------------- builders
def make_field(mk, member, fk, seed, mixed=False, scale=1.0):
    import felupe as fem

    if mk.startswith("lagrange"):
        mesh = zoo.lagrange_mesh(int(mk[8]), int(mk[10:]), member, seed)
    else:
        mesh = zoo.make(mk, member, seed)
    if fk == "axi":
        mesh = fem.Mesh(mesh.points + np.array([0.0, 0.7]), mesh.cells, mesh.cell_type)
    if scale != 1.0:  # the same body in another length unit
        mesh = fem.Mesh(mesh.points * scale, mesh.cells, mesh.cell_type)
    region = zoo.region(mk, mesh)
    if mixed:
        kw = dict(axisymmetric=True) if fk == "axi" else (dict(planestrain=True) if fk == "ps" else {})
        field = fem.FieldsMixed(region, n=3, **kw)
    else:
        F = {"3d": fem.Field, "2d": fem.Field, "ps": fem.FieldPlaneStrain, "axi": fem.FieldAxisymmetric}[fk]
        field = fem.FieldContainer([F(region, dim=mesh.dim)])
    return mesh, region, field


def set_state(field, mesh, amp, seed, p=None, J=None):
    h = (mesh.points.max(0) - mesh.points.min(0)).min() / 2
    u = field.fields[0]
    # node spacing: half the cell size for quadratic families, cell size / order for Lagrange cells
    nper = {4: 1, 8: 1, 3: 1, 2: 1}.get(mesh.cells.shape[1], 2)
    if mesh.cell_type is not None and "LAGRANGE" in str(mesh.cell_type):
        nper = round(mesh.cells.shape[1] ** (1 / mesh.dim)) - 1
        h = h * 2
    U = amp * h / nper * zoo.offarr(seed, 1000, u.values.shape) * 2
    for _ in range(6):
        u.values = U
        Fm = np.moveaxis(np.asarray(u.extract() if hasattr(u, "extract") else field.extract()[0]), (0, 1), (-2, -1))
        if np.linalg.det(Fm).min() > 0.4:
            break
        U = U * 0.6
    if len(field.fields) > 1:
        field.fields[1].values = p + 0.05 * zoo.offarr(seed, 1001, field.fields[1].values.shape)
        if len(field.fields) > 2:
            field.fields[2].values = J + 0.02 * zoo.offarr(seed, 1002, field.fields[2].values.shape)
    return h


def material(name, region, ms=1.0):
    import felupe as fem
    import felupe.constitution as C

    q, nc = (region.quadrature.npoints, region.mesh.ncells) if region is not None else (1, 1)
    sv = None
    if ms != 1.0:  # another stress unit: all moduli x ms (implemented for the materials of the unit-system cases)
        if name == "NeoHooke":
            return fem.NeoHooke(mu=1.3 * ms, bulk=4.1 * ms), None
        if name == "tt-mooney":
            return fem.Hyperelastic(C.mooney_rivlin, C10=0.4 * ms, C01=0.2 * ms) & C.Volumetric(bulk=5.0 * ms), None
        raise ValueError(name)
    if name == "NeoHooke":
        um = fem.NeoHooke(mu=1.3, bulk=4.1)
    elif name == "NeoHooke-mu":
        um = fem.NeoHooke(mu=1.3)
    elif name == "NeoHooke-bulk":
        um = fem.NeoHooke(bulk=4.1)
    elif name == "Volumetric":
        um = C.Volumetric(bulk=4.1)
    elif name == "NeoHookeCompressible":
        um = fem.NeoHookeCompressible(mu=1.3, lmbda=2.2)
    elif name == "LELS":
        um = fem.LinearElasticLargeStrain(E=2.0, nu=0.3)
    elif name.startswith("OgdenRoxburgh"):
        um = fem.OgdenRoxburgh(fem.NeoHooke(mu=1.0, bulk=2.0), r=3.0, m=1.0, beta=0.1)
        sv = np.full((1, q, nc), 0.0 if name.endswith("virgin") else 5.0)
    elif name == "tt-mooney":
        um = fem.Hyperelastic(C.mooney_rivlin, C10=0.4, C01=0.2) & C.Volumetric(bulk=5.0)
    elif name == "tt-visco":
        um = fem.Hyperelastic(C.finite_strain_viscoelastic, mu=1.0, eta=1.0, dtime=1.0, nstatevars=6)
        Fp = np.eye(3) + 0.2 * zoo.offarr(3, 1003, (3, 3))
        sv = np.asarray(um.gradient([np.ascontiguousarray(np.broadcast_to(Fp[:, :, None, None], (3, 3, q, nc))), np.zeros((6, q, nc))])[-1], float)
    elif name == "Composite":
        um = fem.NeoHooke(mu=1.1) & C.Volumetric(bulk=3.0)
    elif name.startswith("plastic"):
        um = fem.LinearElasticPlasticIsotropicHardening(E=2.0, nu=0.3, sy=1e3 if name.endswith("elastic") else 1e-3, K=0.4)
    elif name == "user-nonconservative":
        # user functions, stress law without a potential: P = mu F + a F.F + b (F:F) F^T  ->  dP/dF has no major symmetry,
        # so that nothing in the assembly may rely on A_ijkl = A_klij
        mu, a, b = 1.0, 0.35, 0.2
        I = np.eye(3)

        def stress(x):
            F = x[0]
            FF = np.einsum("ik...,kj...->ij...", F, F)
            n2 = np.einsum("ij...,ij...->...", F, F)
            return [mu * F + a * FF + b * n2 * F.transpose(1, 0, 2, 3), x[-1]]

        def elasticity(x):
            F = x[0]
            sh = F.shape[2:]
            A = mu * np.einsum("ik,jl->ijkl", I, I)[..., None, None] * np.ones(sh)
            A = A + a * (np.einsum("ik,lj...->ijkl...", I, F) + np.einsum("ik...,jl->ijkl...", F, I))
            n2 = np.einsum("ij...,ij...->...", F, F)
            A = A + b * (2 * np.einsum("ji...,kl...->ijkl...", F, F) + n2 * np.einsum("il,jk->ijkl", I, I)[..., None, None])
            return [A]

        um = fem.Material(stress=stress, elasticity=elasticity)
    elif name == "ad-nonconservative":
        import tensortrax.math as tm

        def P_of_F(F, mu, a, b):
            return mu * F + a * (F @ F) + b * tm.trace(F @ tm.transpose(F)) * tm.transpose(F)

        um = fem.MaterialAD(P_of_F, mu=1.0, a=0.35, b=0.2)
    elif name == "LinearElasticPlaneStress":
        um = C.LinearElasticPlaneStress(E=2.0, nu=0.3)
    else:
        raise ValueError(name)
    return um, sv


class FullBlocksUPJ:
    """P = mu F + a p dJ/dF + c Jb F,  g = b (J - 1) + e F:F - p / k + d Jb,  h = m p + n (Jb - 1) + r tr F   (Jb: third field)"""

    def __init__(self):
        self.mu, self.a, self.c, self.b, self.e, self.k, self.d, self.m, self.n, self.r = 1.0, 0.7, 0.15, 1.3, 0.2, 5.0, 0.4, -0.6, 2.0, 0.25

    def gradient(self, x):
        F, p, Jb, sv = x[0], x[1], x[2], x[-1]
        Fm = np.moveaxis(F, (0, 1), (-2, -1))
        J = np.linalg.det(Fm)
        dJdF = np.moveaxis(J[..., None, None] * np.linalg.inv(Fm).transpose(0, 1, 3, 2), (-2, -1), (0, 1))
        P = self.mu * F + self.a * p[0] * dJdF + self.c * Jb[0] * F
        g = self.b * (J - 1) + self.e * (F * F).sum((0, 1)) - p[0] / self.k + self.d * Jb[0]
        h = self.m * p[0] + self.n * (Jb[0] - 1) + self.r * (F[0, 0] + F[1, 1] + F[2, 2])
        return [P, g[None], h[None], sv]

    def hessian(self, x):
        F, p, Jb = x[0], x[1], x[2]
        Fm = np.moveaxis(F, (0, 1), (-2, -1))
        J = np.linalg.det(Fm)
        iFT = np.moveaxis(np.linalg.inv(Fm).transpose(0, 1, 3, 2), (-2, -1), (0, 1))
        dJdF = J * iFT
        d2J = J * (np.einsum("ij...,kl...->ijkl...", iFT, iFT) - np.einsum("il...,kj...->ijkl...", iFT, iFT))
        I4 = np.einsum("ik,jl->ijkl", np.eye(3), np.eye(3))[..., None, None]
        one = np.ones((1, 1) + F.shape[-2:])
        I2 = np.eye(3)[..., None, None] * np.ones(F.shape[-2:])
        return [(self.mu + self.c * Jb[0]) * I4 + self.a * p[0] * d2J, self.a * dJdF, self.c * F,
                self.b * dJdF + 2 * self.e * F, -one / self.k, self.d * one,
                self.r * I2, self.m * one, self.n * one]


class Settled:
    """adapter: a nearly-incompressible body evaluated in its settled state (vector assembled twice)"""

    def __init__(self, body):
        from felupe.mechanics._helpers import Assemble

        self.body = body
        self.field = body.field
        self.results = body.results
        self.assemble = Assemble(vector=self._vector, matrix=body.assemble.matrix)

    def _vector(self, field=None, parallel=False):
        self.body.assemble.vector(field, parallel=parallel)
        return self.body.assemble.vector(field, parallel=parallel)


# ----------------------------------------------------------------------------- FD engine
def values_of(x):
    return np.concatenate([f.values.ravel() for f in x.fields]).astype(float)


def set_values(x, v):
    off = 0
    for f in x.fields:
        n = f.values.size
        f.values = v[off:off + n].reshape(f.values.shape).copy()
        off += n


def fd_check(c, sub, items, x, h, symmetric=None, dofs=None):
    import felupe as fem

    x0 = values_of(x)
    N = x0.size

    def R(v):
        set_values(x, v)
        return np.asarray(fem.tools.fun(items, x), float)

    r0 = R(x0)
    K = fem.tools.jac(items, x).toarray()
    c.trans += 2
    if not np.isfinite(K).all() or not np.isfinite(r0).all():
        c.bad(sub + "/finite", "non-finite entries in the assembled vector/matrix", "nan/inf", "finite")
        return None
    Kfd = np.zeros((N, N))
    for j in (range(N) if dofs is None else dofs):
        e = np.zeros(N)
        e[j] = 1.0
        d1 = (R(x0 + h * e) - R(x0 - h * e)) / (2 * h)
        d2 = (R(x0 + h / 2 * e) - R(x0 - h / 2 * e)) / h
        Kfd[:, j] = (4 * d2 - d1) / 3
        c.trans += 4
    set_values(x, x0)
    cols = list(range(N)) if dofs is None else list(dofs)
    scale = max(np.abs(K).max(), np.abs(Kfd).max(), 1e-300)
    err = np.abs(K[:, cols] - Kfd[:, cols]).max() / scale
    c.traces += len(cols)
    c.states += len(cols)
    c.nontrivial += [f"{sub}/col{j}" for j in cols if np.abs(Kfd[:, j]).max() > 1e-9 * scale][:400]
    if not err <= TOL:
        d = np.abs(K[:, cols] - Kfd[:, cols])
        i, jj = np.unravel_index(np.argmax(d), d.shape)
        c.bad(sub + f"/col={cols[jj]}", "assembled matrix column differs from the derivative of the assembled vector along that unknown",
              dict(rel_err=float(err), row=int(i), col=int(cols[jj]), matrix=float(K[i, cols[jj]]), fd=float(Kfd[i, cols[jj]]), unknowns=int(N)), "equal")
    if symmetric:
        es = np.abs(K - K.T).max() / scale
        c.traces += 1
        if es > 1e-10:
            c.bad(sub + "/symmetry", "matrix of a hyperelastic body / conservative constraint is not symmetric", float(es), 0)
    # the system is a function of the values it is given: a separate container with the same values (the pattern of a top-level
    # field x0) yields the same vector and matrix as the items' own container
    if hasattr(x, "copy") and hasattr(x, "fields"):
        try:
            x2 = x.copy()
            r2 = np.asarray(fem.tools.fun(items, x2), float)
            K2 = fem.tools.jac(items, x2).toarray()
            c.trans += 2
            c.traces += 1
            if np.abs(K2 - K).max() > 1e-12 * scale or np.abs(r2 - r0).max() > 1e-12 * max(np.abs(r0).max(), 1e-300):
                c.bad(sub + "/separate-container", "vector / matrix assembled for a separate container holding the same values differ from those of the items' own container", dict(matrix=float(np.abs(K2 - K).max() / scale), vector=float(np.abs(r2 - r0).max())), 0, 1e-12)
        finally:
            set_values(x, x0)
            fem.tools.fun(items, x)
    return K


def item_history(c, sub, make_item, field, states, depth=3, start=None):
    """call histories on ONE item object: every sequence (<= depth) over {vector, matrix} x {field at state A, field at state B,
    no field argument}; each returned vector / matrix must equal that of a FRESH item evaluated at the state the item was last
    given (items are functions of the state, nothing about earlier states may be remembered).  `states`: dict name -> values
    of the first field; the item is created while the field holds the first state."""
    names = list(states)
    ref = {}
    for nm in names:
        field.fields[0].values[:] = states[nm]
        ref[nm] = (make_item().assemble.vector(field).toarray(), make_item().assemble.matrix(field).toarray())
    # (`start`: the state a new item is in before it was ever given a field, if that is not the state the field holds at
    #  construction -- items on their own boundary field start undeformed; it is not part of the call alphabet)
    ops = [(w, X) for w in ("vector", "matrix") for X in [n_ for n_ in names if n_ != start] + [None]]
    nh = 0
    for d_ in range(1, depth + 1):
        for seq in itertools.product(range(len(ops)), repeat=d_):
            field.fields[0].values[:] = states[names[0]]
            item = make_item()
            cur = names[0] if start is None else start
            for step, k in enumerate(seq):
                w, X = ops[k]
                if X is not None:
                    field.fields[0].values[:] = states[X]
                    cur = X
                got = (getattr(item.assemble, w)(field) if X is not None else getattr(item.assemble, w)()).toarray()
                c.trans += 1
                want = ref[cur][0 if w == "vector" else 1]
                sc = max(np.abs(want).max(), np.abs(ref[cur][1]).max() * 1e-6, 1e-300)
                if got.shape != want.shape or np.abs(got - want).max() > 1e-12 * sc:
                    lab = " > ".join(f"{ops[i][0]}({'field@' + ops[i][1] if ops[i][1] else ''})" for i in seq[: step + 1])
                    c.bad(f"{sub}/history={lab}", f"{w} returned after this call history on one item differs from a fresh item at the last given state", float(np.abs(got - want).max() / sc) if got.shape == want.shape else list(got.shape), 0, 1e-12)
                    break
            nh += 1
    c.traces += nh
    c.outcomes.add(f"{sub}-histories={nh}")
    field.fields[0].values[:] = states[names[0]]


class Ctx:
    def __init__(self, key):
        self.key = key
        self.viol, self.nontrivial, self.outcomes, self.notes = [], [], set(), []
        self.trans = self.traces = self.states = 0

    def bad(self, sub, what, obs, exp, tol=TOL):
        if len(self.viol) < 40:
            self.viol.append(dict(key=f"{self.key}/{sub}", what=what, observed=obs, expected=exp, tol=tol))

    def result(self, sample):
        return dict(viol=self.viol, states=self.states, transitions=self.trans, traces=self.traces, nontrivial=self.nontrivial, outcomes=sorted(self.outcomes),
                    sample=sample, notes=self.notes, digest=f"{self.states}/{self.traces}/{len(self.viol)}")


def boundary_field(mk, mesh, fk, field, mask=None):
    import felupe as fem
    from .c13 import BREGION

    kw = dict(ensure_3d=True) if fk in ("ps", "axi") else {}
    rb = getattr(fem, BREGION[mk])(mesh, mask=mask, **kw)
    F = {"3d": fem.Field, "ps": fem.FieldPlaneStrain, "axi": fem.FieldAxisymmetric}[fk]
    fb = fem.FieldContainer([F(rb, dim=mesh.dim)])
    return rb, fb


def run(case):
    import felupe as fem
    import felupe.constitution as C

    warnings.simplefilter("ignore")
    c = Ctx(case["key"])
    kind, seed = case["kind"], case["seed"]
    if kind == "solid":
        ls, ms = case.get("units", (1.0, 1.0))
        mesh, region, field = make_field(case["mesh"], case["member"], case["fk"], seed, scale=ls)
        hm = set_state(field, mesh, case["amp"], seed)
        um, sv = material(case["mat"], region, ms)
        body = fem.SolidBody(um, field, statevars=sv)
        hyper = case["mat"] in ("NeoHooke", "NeoHooke-mu", "NeoHooke-bulk", "Volumetric", "NeoHookeCompressible", "LELS", "tt-mooney", "Composite", "LinearElasticPlaneStress")
        fd_check(c, "K", [body], field, 2e-5 * hm, symmetric=hyper)
        # the assembled matrix must not depend on how often the vector was assembled before (reused result buffers)
        K1 = body.assemble.matrix(field).toarray()
        body.assemble.vector(field)
        body.assemble.vector(field)
        K2 = body.assemble.matrix().toarray()
        if np.abs(K1 - K2).max() > 1e-12 * max(np.abs(K1).max(), 1e-12):
            c.bad("buffers", "matrix changes when vector/matrix are re-assembled at the same state (stale result buffer)", float(np.abs(K1 - K2).max()), 0)
        r1 = fem.SolidBody(um, field, statevars=sv).assemble.vector(field).toarray()
        r2 = body.assemble.vector(field).toarray()
        if np.abs(r1 - r2).max() > 1e-12 * max(np.abs(r1).max(), 1e-12):
            c.bad("buffers-vector", "vector of a body with a call history differs from the vector of a fresh body at the same state (stale result buffer)", float(np.abs(r1 - r2).max()), 0)
        return c.result(dict(case=case["key"], unknowns=int(values_of(field).size)))
    if kind == "uniform-linear":
        if case["dim"] == 2:
            mesh = fem.Rectangle(b=(2.0, 1.0), n=(4, 3))
            region = fem.RegionQuad(mesh, uniform=True)
            um = C.LinearElasticPlaneStress(E=2.0, nu=0.3)
        else:
            mesh = fem.Cube(b=(2.0, 1.0, 1.5), n=(3, 3, 2))
            region = fem.RegionHexahedron(mesh, uniform=True)
            um = fem.LinearElastic(E=2.0, nu=0.3)
        field = fem.FieldContainer([fem.Field(region, dim=mesh.dim)])
        field[0].values[:] = 0.05 * zoo.offarr(seed, 1160, field[0].values.shape)
        body = fem.SolidBody(um, field)
        K = fd_check(c, "K", [body], field, 1e-4, symmetric=True)
        # the same body on a general region of the same mesh
        rg = type(region)(mesh)
        fg = fem.FieldContainer([fem.Field(rg, dim=mesh.dim, values=field[0].values.copy())])
        Kg = fem.SolidBody(um, fg).assemble.matrix(fg).toarray()
        c.trans += 1
        c.traces += 1
        if K is not None and np.abs(K - Kg).max() > 1e-12 * np.abs(Kg).max():
            c.bad("vs-general-region", "matrix on the uniform region vs the general region of the same mesh", float(np.abs(K - Kg).max() / np.abs(Kg).max()), 0, 1e-12)
        return c.result(dict(case=case["key"], unknowns=int(values_of(field).size)))
    if kind == "itemsum":
        mesh, region, field = make_field("hexahedron", "renum", "3d", seed)
        hm = set_state(field, mesh, 0.12, seed)
        umA, _ = material("NeoHooke", region, 1.0)
        umB, _ = material("tt-mooney", region, 1.0)
        m = case["mval"]
        a = fem.SolidBody(umA, field)
        if case["via"] == "init":
            b = fem.SolidBody(umB, field, multiplier=m)
        else:
            b = fem.SolidBody(umB, field)
            b.assemble.multiplier = m
        items = [a, b] if case["order"] == "scaled-last" else [b, a]
        fd_check(c, "K", items, field, 2e-5 * hm, symmetric=True)
        mf = 1.0 if m is None else float(m)
        Ka = fem.SolidBody(umA, field).assemble.matrix(field).toarray()
        Kb = fem.SolidBody(umB, field).assemble.matrix(field).toarray()
        ra = fem.SolidBody(umA, field).assemble.vector(field).toarray()[:, 0]
        rb = fem.SolidBody(umB, field).assemble.vector(field).toarray()[:, 0]
        K = fem.tools.jac(items, field).toarray()
        r = np.asarray(fem.tools.fun(items, field), float)
        c.trans += 6
        c.traces += 2
        sc = np.abs(Ka).max() + np.abs(Kb).max()
        if np.abs(K - (Ka + mf * Kb)).max() > 1e-12 * sc:
            c.bad("sum/matrix", "matrix summed over the items = K_a + m K_b with fresh item-level matrices", float(np.abs(K - (Ka + mf * Kb)).max() / sc), 0)
        if np.abs(r - (ra + mf * rb)).max() > 1e-12 * (np.abs(ra).max() + np.abs(rb).max()):
            c.bad("sum/vector", "vector summed over the items = r_a + m r_b with fresh item-level vectors", float(np.abs(r - (ra + mf * rb)).max()), 0)
        c.outcomes.add("item-deactivated" if mf == 0 else "item-scaled")
        return c.result(dict(case=case["key"], unknowns=int(values_of(field).size)))
    if kind == "mixed":
        mesh, region, field = make_field(case["mesh"], case["member"], case["fk"], seed, mixed=True)
        hm = set_state(field, mesh, case["amp"], seed, case["p"], case["J"])
        if case["mat"] == "user-full-blocks":
            # a user material WITHOUT potential that hands over the FULL row-major list of the nine (u, p, J) blocks
            # [dP/dF, dP/dp, dP/dJ, dg/dF, dg/dp, dg/dJ, dh/dF, dh/dp, dh/dJ]: no two off-diagonal blocks are mirror images
            body = fem.SolidBody(FullBlocksUPJ(), field)
            fd_check(c, "K", [body], field, 2e-5 * hm, symmetric=False)
            return c.result(dict(case=case["key"], unknowns=int(values_of(field).size), fieldsizes=[int(s) for s in field.fieldsizes]))
        base = fem.NeoHooke(mu=1.3, bulk=7.0) if case["mat"] == "ThreeFieldVariation" else fem.NeoHooke(mu=1.3)
        um = fem.ThreeFieldVariation(base) if case["mat"] == "ThreeFieldVariation" else fem.NearlyIncompressible(base, bulk=7.0)
        body = fem.SolidBody(um, field)
        fd_check(c, "K", [body], field, 2e-5 * hm, symmetric=True)
        return c.result(dict(case=case["key"], unknowns=int(values_of(field).size), fieldsizes=[int(s) for s in field.fieldsizes]))
    if kind == "ni":
        ls, ms = case.get("units", (1.0, 1.0))
        case = dict(case, bulk=case["bulk"] * ms)
        mesh, region, field = make_field(case["mesh"], case["member"], case["fk"], seed, scale=ls)
        hm = set_state(field, mesh, case["amp"], seed)
        um = fem.NeoHooke(mu=1.0 * ms)
        body = fem.SolidBodyNearlyIncompressible(um, field, bulk=case["bulk"])
        fd_check(c, "K", [Settled(body)], field, 2e-5 * hm, symmetric=True)
        # second oracle: the checker's own mean-dilatation residual r(u) = int (dpsi/dF + K (v/V - 1) dJ/dF) : dF
        F = field.extract()[0]
        w = region.dV * (2 * np.pi * field[0].radius if case["fk"] == "axi" else 1.0)
        Fm = np.moveaxis(F, (0, 1), (-2, -1))
        detF = np.linalg.det(Fm)
        v = (detF * w).sum(0)
        V = w.sum(0)
        pc = case["bulk"] * (v / V - 1)
        dJdF = np.moveaxis(detF[..., None, None] * np.linalg.inv(Fm).transpose(0, 1, 3, 2), (-2, -1), (0, 1))
        P = um.gradient([F, None])[0] + pc * dJdF
        ref = fem.IntegralForm([P], field, region.dV).assemble().toarray()[:, 0]
        got = Settled(body).assemble.vector(field).toarray()[:, 0]
        e = np.abs(got - ref).max() / max(np.abs(ref).max(), 1e-12)
        c.traces += 1
        if e > 1e-10:
            c.bad("settled-residual", "settled residual vs the checker's mean-dilatation residual", float(e), 0, 1e-10)
        e2 = np.abs(body.results.state.p - pc).max() / max(np.abs(pc).max(), 1e-9)
        if e2 > 1e-9:
            c.bad("settled-pressure", "cell pressures of the settled state vs K (v/V - 1)", float(e2), 0, 1e-9)
        if case["amp"] > 0 and case["bulk"] == 5.0 and "units" not in case:
            # call histories on ONE nearly-incompressible body: every sequence (<= 3) over {vector, matrix, evaluate.gradient,
            # evaluate.cauchy_stress} x {field at state A, field at state B} (each given twice: settled) and {vector(), matrix()}
            # without a field -- whatever the route by which the body was brought to its last state, vector and matrix must be
            # those of a fresh body settled there
            UA = field.fields[0].values.copy()
            UB = UA * -0.6 + 0.3 * hm * zoo.offarr(seed, 1012, UA.shape)
            refs = {}
            for nm, U in (("A", UA), ("B", UB)):
                field.fields[0].values[:] = U
                fb = fem.SolidBodyNearlyIncompressible(um, field, bulk=case["bulk"])
                refs[nm] = (Settled(fb).assemble.vector(field).toarray(), fb.assemble.matrix().toarray())
            ops = [(w, X) for w in ("vector", "matrix", "gradient", "cauchy_stress") for X in ("A", "B")] + [("vector", None), ("matrix", None)]
            nh = 0
            for d_ in (1, 2, 3):
                for seq in itertools.product(range(len(ops)), repeat=d_):
                    if ops[seq[-1]][0] not in ("vector", "matrix"):
                        continue  # (histories are judged at their last assembly)
                    field.fields[0].values[:] = UA
                    b2 = fem.SolidBodyNearlyIncompressible(um, field, bulk=case["bulk"])
                    b2.assemble.vector(field)
                    b2.assemble.vector(field)
                    cur = "A"
                    for step, k in enumerate(seq):
                        w, X = ops[k]
                        fn = getattr(b2.assemble if w in ("vector", "matrix") else b2.evaluate, w)
                        if X is not None:
                            field.fields[0].values[:] = UA if X == "A" else UB
                            cur = X
                            fn(field)
                            got = fn(field)
                        else:
                            got = fn()
                        c.trans += 1
                        if w in ("vector", "matrix"):
                            want = refs[cur][0 if w == "vector" else 1]
                            got = got.toarray()
                            sc = max(np.abs(want).max(), np.abs(refs[cur][1]).max() * 1e-6)
                            if np.abs(got - want).max() > 1e-9 * sc:
                                lab = " > ".join(f"{ops[i][0]}({'field@' + ops[i][1] + ' twice' if ops[i][1] else ''})" for i in seq[: step + 1])
                                c.bad(f"history={lab}", f"{w} of a nearly-incompressible body after this call history differs from a fresh body settled at the last given state", float(np.abs(got - want).max() / sc), 0, 1e-9)
                                break
                    nh += 1
            c.traces += nh
            c.outcomes.add(f"ni-histories={nh}")
            field.fields[0].values[:] = UA
        return c.result(dict(case=case["key"], unknowns=int(values_of(field).size)))
    if kind == "surface":
        ls, ms = case.get("units", (1.0, 1.0))
        mesh, region, field = make_field(case["mesh"], "distorted" if case["mesh"] != "hexahedron" else "renum", case["fk"], seed, scale=ls)
        hm = set_state(field, mesh, case["amp"], seed)
        mask = None
        if case["face"] == "one":
            # one bounding plane of the (distorted: interior only) box
            tw = zoo.make(case["mesh"], "block", seed)
            if case["mesh"] == "hexahedron":
                tw = zoo.renumber(tw, seed)
            mask = np.isclose(tw.points[:, -1] if case["fk"] != "axi" else tw.points[:, 1], tw.points[:, -1].max() if case["fk"] != "axi" else tw.points[:, 1].max())
        rb, fb = boundary_field(case["mesh"], mesh, case["fk"], field, mask)
        body = fem.SolidBody(fem.NeoHooke(mu=1.0 * ms, bulk=2.0 * ms), field)
        if case["item"] == "pressure":
            load = fem.SolidBodyPressure(fb, pressure=case["mag"] * ms)
        else:
            S = case["mag"] * np.array([[1.0, 0.2, 0.1], [0.2, -0.5, 0.3], [0.1, 0.3, 0.4]])
            if case["item"] == "cauchy-nonsym":
                S = case["mag"] * np.array([[1.0, 0.9, -0.4], [0.2, -0.5, 0.0], [0.1, 0.7, 0.4]])
            if case["fk"] == "axi":
                # a twist-free axisymmetric model has no hoop-shear stresses: those components are not part of the model (felupe's
                # axisymmetric value form would add the third traction component like a hoop term; observation, not judged)
                S = S.copy()
                S[2, :2] = 0.0
                S[:2, 2] = 0.0
            load = fem.SolidBodyCauchyStress(fb, cauchy_stress=S)
            # independent value of the load vector: r_a = - int h_a sigma . (J F^-T N) dA on the boundary cells
            got_v = load.assemble.vector(field).toarray()  # (hands the current displacements to the boundary field)
            Fb = fb.extract()[0]
            Fbm = np.moveaxis(Fb, (0, 1), (-2, -1))
            cof = np.moveaxis(np.linalg.det(Fbm)[..., None, None] * np.linalg.inv(Fbm).transpose(0, 1, 3, 2), (-2, -1), (0, 1))
            nrm = np.asarray(rb.normals)
            nrm3 = np.zeros((3,) + nrm.shape[1:])
            nrm3[: nrm.shape[0]] = nrm
            trac = np.einsum("ij,jkqc,kqc->iqc", S, cof, nrm3)
            wq = np.asarray(rb.dV) * (2 * np.pi * fb[0].radius if case["fk"] == "axi" else 1.0)
            hb = np.broadcast_to(rb.h, (rb.h.shape[0],) + wq.shape)
            rv = np.zeros((mesh.npoints, mesh.dim))
            np.add.at(rv, rb.mesh.cells, np.einsum("aqc,iqc,qc->cai", hb, trac[: mesh.dim], wq))
            got_v = got_v[: rv.size, 0].reshape(rv.shape)
            sgn = -1.0 if np.abs(got_v + rv).max() < np.abs(got_v - rv).max() else 1.0
            ev = np.abs(got_v - sgn * rv).max() / max(np.abs(rv).max(), 1e-12)
            c.traces += 1
            if case["mag"] != 0.0 and ev > 1e-10:
                c.bad("cauchy-vector", "assembled Cauchy-stress load vector vs int h sigma . (J F^-T N) dA (up to the common sign convention)", float(ev), 0, 1e-10)
        fd_check(c, "K", [body, load], field, 2e-5 * hm)
        fd_check(c, "K-load-only", [load], field, 2e-5 * hm)
        # the threaded assembly (parallel=True) of the load's vector and matrix gives the same system at this (sheared) state
        Ks_ = fem.tools.jac([load], field).toarray()
        Kp_ = fem.tools.jac([load], field, parallel=True).toarray()
        rs_ = np.asarray(fem.tools.fun([load], field), float)
        rp_ = np.asarray(fem.tools.fun([load], field, parallel=True), float)
        c.trans += 4
        c.traces += 2
        if np.abs(Kp_ - Ks_).max() > 1e-12 * max(np.abs(Ks_).max(), 1e-300) or np.abs(rp_ - rs_).max() > 1e-12 * max(np.abs(rs_).max(), 1e-300):
            c.bad("K-load-only/parallel", "load vector / matrix assembled with parallel=True differ from the serial ones", dict(matrix=float(np.abs(Kp_ - Ks_).max() / max(np.abs(Ks_).max(), 1e-300)), vector=float(np.abs(rp_ - rs_).max())), 0, 1e-12)
        if case["item"] == "pressure" and case["face"] == "one" and case["mag"] == 0.7 and "units" not in case:
            # call histories on ONE pressure item: every sequence (depth <= 2) over {vector, matrix} x {field at state A, field
            # at state B, no field} x {pressure argument or not} + update(): every returned vector / matrix must be
            # (current pressure) x (unit-pressure vector / matrix of a fresh item at the last state the item was given)
            UA = field.fields[0].values.copy()
            UB = UA + 0.3 * hm * zoo.offarr(seed, 1010, UA.shape)
            ref = {}
            for nm, U in (("A", UA), ("B", UB), ("0", 0 * UA)):  # "0": a new boundary field is undeformed until it is given the main field
                field.fields[0].values[:] = U
                rb_, fb_ = boundary_field(case["mesh"], mesh, case["fk"], field, mask)
                one = fem.SolidBodyPressure(fb_, pressure=1.0)
                ref[nm] = (one.assemble.vector(field).toarray(), fem.SolidBodyPressure(fb_, pressure=1.0).assemble.matrix(field).toarray())
            ops = [(w, X, q) for w in ("vector", "matrix") for X in ("A", "B", None) for q in (None, 2.5, 0.0)] + [("update", None, -0.4)]  # (0.0: zero crossing of a pressure table)
            nh = 0
            for depth in (1, 2):
                for seq in itertools.product(range(len(ops)), repeat=depth):
                    field.fields[0].values[:] = UA
                    rb_, fb_ = boundary_field(case["mesh"], mesh, case["fk"], field, mask)
                    item = fem.SolidBodyPressure(fb_, pressure=0.7)
                    pcur, xcur = 0.7, "0"
                    for step, k in enumerate(seq):
                        w, X, q = ops[k]
                        lab = "history=" + " > ".join(f"{ops[i][0]}({'field@' + ops[i][1] if ops[i][1] else ''}{',' if ops[i][1] and ops[i][2] is not None else ''}{'pressure=' + str(ops[i][2]) if ops[i][2] is not None else ''})" for i in seq[: step + 1])
                        if w == "update":
                            item.update(q)
                            pcur = q
                            # (update re-extracts the kinematics of the boundary field, which follows the main field it was
                            #  last given)
                            continue
                        args = {}
                        if X is not None:
                            field.fields[0].values[:] = UA if X == "A" else UB
                            args["field"] = field
                            xcur = X
                        if q is not None:
                            args["pressure"] = q
                            pcur = q
                        got = getattr(item.assemble, w)(**args).toarray()
                        c.trans += 1
                        want = pcur * ref[xcur][0 if w == "vector" else 1]
                        sc = max(np.abs(ref[xcur][0 if w == "vector" else 1]).max() * max(abs(pcur), 1.0), 1e-12)
                        if got.shape != want.shape or np.abs(got - want).max() > 1e-12 * sc:
                            c.bad(lab, f"{w} returned after this call history on one pressure item differs from (current pressure) x (unit-pressure {w} of a fresh item at the last given state)", float(np.abs(got - want).max() / sc) if got.shape == want.shape else list(got.shape), 0, 1e-12)
                            break
                    nh += 1
            c.traces += nh
            c.outcomes.add(f"pressure-item-histories={nh}")
            field.fields[0].values[:] = UA
        if case["item"].startswith("cauchy") and case["face"] == "one" and case["mag"] == 0.7 and "units" not in case:
            UA = field.fields[0].values.copy()
            UB = UA + 0.3 * hm * zoo.offarr(seed, 1011, UA.shape)
            item_history(c, "cauchy", lambda: fem.SolidBodyCauchyStress(boundary_field(case["mesh"], mesh, case["fk"], field, mask)[1], cauchy_stress=S), field, {"A": UA, "B": UB, "0": 0 * UA}, depth=2, start="0")
        c.outcomes.add(f"faces={rb.mesh.ncells}")
        return c.result(dict(case=case["key"], unknowns=int(values_of(field).size), boundary_cells=int(rb.mesh.ncells)))
    if kind == "mpc":
        mesh, region, field = make_field(case["mesh"], "renum", case["fk"], seed, mixed=case.get("mixed", False))
        # extra centre point without cells
        tw = zoo.renumber(zoo.make(case["mesh"], "block", seed), seed)
        pts = np.where(np.isclose(tw.points[:, 0], tw.points[:, 0].max()))[0]
        mesh2 = fem.Mesh(np.vstack([mesh.points, mesh.points.max(0) + 0.5]), mesh.cells, mesh.cell_type)
        region2 = zoo.region(case["mesh"], mesh2)
        if case.get("mixed"):
            field = fem.FieldsMixed(region2, n=3, planestrain=(case["fk"] == "ps"))
            um = fem.ThreeFieldVariation(fem.NeoHooke(mu=1.0, bulk=2.0))
            hm = set_state(field, mesh2, case["amp"], seed, 0.1, 1.05)
        else:
            F = fem.Field if case["fk"] == "3d" else fem.FieldPlaneStrain
            field = fem.FieldContainer([F(region2, dim=mesh.dim)])
            um = fem.NeoHooke(mu=1.0, bulk=2.0)
            hm = set_state(field, mesh2, case["amp"], seed)
        body = fem.SolidBody(um, field)
        mpc = fem.MultiPointConstraint(field, points=pts, centerpoint=len(mesh2.points) - 1, skip=case["skip"], multiplier=10.0)
        fd_check(c, "K", [body, mpc], field, 2e-5 * hm, symmetric=True)
        fd_check(c, "K-mpc-only", [mpc], field, 2e-5 * hm, symmetric=True)
        if not case.get("mixed"):
            uA = field.fields[0].values.copy()
            item_history(c, "mpc", lambda: fem.MultiPointConstraint(field, points=pts, centerpoint=len(mesh2.points) - 1, skip=case["skip"], multiplier=10.0), field, dict(A=uA, B=uA * -0.6 + 0.01), depth=2)
        return c.result(dict(case=case["key"], unknowns=int(values_of(field).size), constrained_points=len(pts)))
    if kind == "contact":
        mesh, region, field = make_field(case["mesh"], "renum", case["fk"], seed)
        nd = mesh.dim
        ax = case["axis"]
        tw = zoo.renumber(zoo.make(case["mesh"], "block", seed), seed)
        pts = np.where(np.isclose(tw.points[:, ax], tw.points[:, ax].max()))[0][:3]
        centre = mesh.points.max(0) + 0.0
        centre[ax] += case.get("offset", 0.3)  # rigid plane 0.3 beyond the face x_ax = max (offset 0: the plane touches the face, initial gap exactly zero)
        mesh2 = fem.Mesh(np.vstack([mesh.points, centre]), mesh.cells, mesh.cell_type)
        region2 = zoo.region(case["mesh"], mesh2)
        F = fem.Field if case["fk"] == "3d" else fem.FieldPlaneStrain
        field = fem.FieldContainer([F(region2, dim=nd)])
        hm = set_state(field, mesh2, case["amp"], seed)
        cp = len(mesh2.points) - 1
        u = field.fields[0].values.copy()
        u[cp] = 0.0
        # closed targets penetrate the plane by 0.1, open ones keep a gap of >= 0.1
        for k, p in enumerate(pts):
            gap = mesh2.points[cp, ax] - mesh2.points[p, ax]
            u[p, ax] = gap + 0.1 if case["pattern"][k] else gap - 0.2
        field.fields[0].values = u
        skip = [1] * nd
        skip[ax] = 0
        body = fem.SolidBody(fem.NeoHooke(mu=1.0, bulk=2.0), field)
        con = fem.MultiPointContact(field, points=pts, centerpoint=cp, skip=tuple(skip), multiplier=10.0)
        K = fd_check(c, "K", [body, con], field, 1e-5, symmetric=True)
        Kc = fd_check(c, "K-contact-only", [con], field, 1e-5, symmetric=True)
        if case["pattern"] in ((1, 0, 1), (0, 0, 0), (1, 1, 1)) and "offset" not in case:
            # call histories over two states with DIFFERENT open / closed patterns (the complementary one)
            uA = field.fields[0].values.copy()
            uB = uA.copy()
            for k, p in enumerate(pts):
                gap = mesh2.points[cp, ax] - mesh2.points[p, ax]
                uB[p, ax] = gap - 0.2 if case["pattern"][k] else gap + 0.1
            item_history(c, "contact", lambda: fem.MultiPointContact(field, points=pts, centerpoint=cp, skip=tuple(skip), multiplier=10.0), field, dict(A=uA, B=uB), depth=3)
        r = con.assemble.vector(field).toarray().reshape(-1, nd)
        active = int((np.abs(r[pts, ax]) > 0).sum())
        c.outcomes.add(f"closed={active}")
        if case.get("offset", 0.3) == 0.0:
            # (with an initial gap of exactly zero felupe's sign test makes the contact act in both directions: recorded, the
            #  decided statement is the derivative)
            c.outcomes.add("zero-initial-gap")
        elif active != sum(case["pattern"]):
            c.bad("pattern", "number of closed contact points", active, sum(case["pattern"]))
        return c.result(dict(case=case["key"], unknowns=int(values_of(field).size), closed=active))
    if kind == "contact-corner":
        mesh, region, field = make_field(case["mesh"], "renum", case["fk"], seed)
        nd = mesh.dim
        axes = case["axes"]
        centre = mesh.points.max(0) + 0.3
        # two target points nearest to the corner x = max
        pts = np.argsort(np.linalg.norm(mesh.points - mesh.points.max(0), axis=1))[:2]
        mesh2 = fem.Mesh(np.vstack([mesh.points, centre]), mesh.cells, mesh.cell_type)
        region2 = zoo.region(case["mesh"], mesh2)
        F = fem.Field if case["fk"] == "3d" else fem.FieldPlaneStrain
        field = fem.FieldContainer([F(region2, dim=nd)])
        set_state(field, mesh2, case["amp"], seed)
        cp = len(mesh2.points) - 1
        u0 = field.fields[0].values.copy()
        u0[cp] = 0.0
        skip = [0 if a_ in axes else 1 for a_ in range(nd)]
        npat = 0
        for pattern in itertools.product((0, 1), repeat=len(pts) * len(axes)):
            u = u0.copy()
            for k, (pi, a_) in enumerate(itertools.product(range(len(pts)), axes)):
                gap = mesh2.points[cp, a_] - mesh2.points[pts[pi], a_]
                u[pts[pi], a_] = gap + 0.1 if pattern[k] else gap - 0.2
            field.fields[0].values = u
            con = fem.MultiPointContact(field, points=pts, centerpoint=cp, skip=tuple(skip), multiplier=10.0)
            fd_check(c, f"closed={pattern}/K-contact-only", [con], field, 1e-5, symmetric=True)
            r = con.assemble.vector(field).toarray().reshape(-1, nd)
            active = int((np.abs(r[pts][:, axes]) > 0).sum())
            if active != sum(pattern):
                c.bad(f"closed={pattern}/pattern", "number of closed (point, axis) contact pairs", active, sum(pattern))
            if np.abs(r.sum(0)).max() > 1e-12 * max(np.abs(r).max(), 1.0):
                c.bad(f"closed={pattern}/equilibrium", "contact forces on the points and on the centre point balance", float(np.abs(r.sum(0)).max()), 0)
            npat += 1
        c.outcomes.add(f"corner-patterns={npat}")
        return c.result(dict(case=case["key"], unknowns=int(values_of(field).size), patterns=npat))
    if kind == "load":
        mixed = case["fk"] == "mixed3d"
        fk = "3d" if mixed else case["fk"]
        mesh, region, field = make_field(case["mesh"], "renum", fk, seed, mixed=mixed)
        hm = set_state(field, mesh, case["amp"], seed, 0.1, 1.05)
        um = fem.ThreeFieldVariation(fem.NeoHooke(mu=1.0, bulk=2.0)) if mixed else fem.NeoHooke(mu=1.0, bulk=2.0)
        body = fem.SolidBody(um, field)
        nd = mesh.dim
        if case["item"] == "pointload":
            load = fem.PointLoad(field, [1, 5, 3], values=np.arange(1, 3 * nd + 1, dtype=float).reshape(3, nd) / 7, axisymmetric=(fk == "axi"))
        elif case["item"] == "force":
            vals = [0.3, -0.2, 0.5][:nd] if fk != "axi" else [0.3, -0.2, 0.0]
            load = fem.SolidBodyForce(field, values=vals, scale=1.5)
        else:
            vals = [0.3, -0.2, 0.5][:nd] if fk != "axi" else [0.3, -0.2, 0.0]
            load = fem.SolidBodyGravity(field, gravity=vals, density=1.5)
        fd_check(c, "K", [body, load], field, 2e-5 * hm, symmetric=True)
        Kl = load.assemble.matrix().toarray()
        if np.abs(Kl).max() > 0:
            c.bad("dead-load-matrix", "matrix of a dead load must be zero", float(np.abs(Kl).max()), 0)
        if Kl.shape != (values_of(field).size,) * 2:
            c.bad("dead-load-shape", "matrix shape of a dead load", list(Kl.shape), values_of(field).size)
        UA = field.fields[0].values.copy()
        UB = UA * -0.7 + 0.02 * hm
        mk_ = {"pointload": lambda: fem.PointLoad(field, [1, 5, 3], values=np.arange(1, 3 * nd + 1, dtype=float).reshape(3, nd) / 7, axisymmetric=(fk == "axi")),
               "force": lambda: fem.SolidBodyForce(field, values=vals, scale=1.5), "gravity": lambda: fem.SolidBodyGravity(field, gravity=vals, density=1.5)}[case["item"]]
        item_history(c, case["item"], mk_, field, dict(A=UA, B=UB), depth=2)
        return c.result(dict(case=case["key"], unknowns=int(values_of(field).size)))
    if kind == "form":
        from felupe.math import ddot, dot, grad, trace, det, inv, transpose

        name = case["name"]
        if name.startswith("form-penalty"):
            # (triangle: 36, quad9: 324 entries per cell matrix -- thread counts that are no multiple of a power of two)
            mesh, region, field = make_field(name.split("/")[1] if "/" in name else "quad", "renum" if "/" not in name else "distorted", "2d", seed)
            hm = set_state(field, mesh, 0.1, seed)
            body = fem.SolidBody(C.LinearElasticPlaneStress(E=2.0, nu=0.3), field)
            kpen = 7.0

            @fem.Form(v=field, u=field)
            def a():
                return [lambda v, u, **kw: kpen * dot(v, u, mode=(1, 1))]

            @fem.Form(v=field)
            def L():
                return [lambda v, **kw: kpen * dot(v, field[0].interpolate(), mode=(1, 1))]

            item = fem.FormItem(bilinearform=a, linearform=L)
            fd_check(c, "K", [body, item], field, 2e-5 * hm, symmetric=True)
            # the threaded assembly path (parallel=True: one thread per entry of the cell matrix) gives the same system
            Ks = fem.tools.jac([body, item], field).toarray()
            Kp = fem.tools.jac([body, item], field, parallel=True).toarray()
            rs = np.asarray(fem.tools.fun([body, item], field), float)
            rp = np.asarray(fem.tools.fun([body, item], field, parallel=True), float)
            c.trans += 4
            c.traces += 2
            if np.abs(Kp - Ks).max() > 1e-13 * np.abs(Ks).max() or np.abs(rp - rs).max() > 1e-13 * max(np.abs(rs).max(), 1e-300):
                c.bad("parallel", "system assembled with parallel=True differs from the serial one", dict(matrix=float(np.abs(Kp - Ks).max() / np.abs(Ks).max()), vector=float(np.abs(rp - rs).max())), 0, 1e-13)
        elif name == "form-hyperelastic":
            mesh, region, field = make_field("hexahedron", "renum", "3d", seed)
            hm = set_state(field, mesh, 0.1, seed)
            um = fem.NeoHooke(mu=1.0, bulk=2.0)

            @fem.Form(v=field)
            def L():
                return [lambda v, **kw: ddot(um.gradient(field.extract())[0], grad(v))]

            @fem.Form(v=field, u=field)
            def a():
                return [lambda v, u, **kw: ddot(grad(v), ddot(um.hessian(field.extract())[0], grad(u), mode=(4, 2)))]

            item = fem.FormItem(bilinearform=a, linearform=L)
            K = fd_check(c, "K", [item], field, 2e-5 * hm, symmetric=True)
            Kb = fem.SolidBody(um, field).assemble.matrix(field).toarray()
            if K is not None and np.abs(K - Kb).max() > 1e-10 * np.abs(Kb).max():
                c.bad("vs-solidbody", "FormItem matrix of the hyperelastic weak form vs SolidBody", float(np.abs(K - Kb).max()), 0)
            # the same item with the documented symmetric shortcut (sym=True: only one triangle of the cell matrix is integrated),
            # serial and threaded: still the derivative of its vector
            item_s = fem.FormItem(bilinearform=a, linearform=L, sym=True)
            Ks_ = fd_check(c, "K/sym=True", [item_s], field, 2e-5 * hm, symmetric=True)
            Kp_ = fem.tools.jac([item_s], field, parallel=True).toarray()
            c.trans += 1
            c.traces += 1
            if np.abs(Kp_ - Kb).max() > 1e-10 * np.abs(Kb).max():
                c.bad("sym=True/parallel/vs-solidbody", "FormItem(sym=True) matrix assembled with parallel=True vs SolidBody", float(np.abs(Kp_ - Kb).max() / np.abs(Kb).max()), 0)
        else:
            mesh, region, field = make_field("hexahedron", "renum", "3d", seed, mixed=False)
            import felupe as fem2

            field = fem2.FieldsMixed(region, n=2)
            hm = set_state(field, mesh, 0.1, seed, 0.1, None)
            mu, kappa = 1.0, 20.0

            def Fq():
                return field.extract()[0]

            @fem.Form(v=field)
            def L():
                def Lu(v, **kw):
                    F = Fq()
                    J = det(F)
                    iFT = transpose(inv(F))
                    p = field[1].interpolate()
                    P = mu * (F - iFT) + p * J * iFT
                    return ddot(P, grad(v))

                def Lp(q, **kw):
                    F = Fq()
                    p = field[1].interpolate()
                    return q * (det(F) - 1 - p / kappa)

                return [Lu, Lp]

            @fem.Form(v=field, u=field)
            def a():
                def auu(v, u, **kw):
                    F = Fq()
                    J = det(F)
                    iFT = transpose(inv(F))
                    p = field[1].interpolate()
                    dv, du = grad(v), grad(u)
                    t1 = mu * ddot(dv, du)
                    iFTdu = ddot(iFT, du)
                    iFTdv = ddot(iFT, dv)
                    # d(iFT)/dF : du = - iFT du^T iFT
                    X = dot(dot(iFT, transpose(du)), iFT)
                    t2 = mu * ddot(dv, X)
                    t3 = p * J * (iFTdv * iFTdu - ddot(dv, X))
                    return t1 + t2 + t3

                def aup(v, p_, **kw):
                    F = Fq()
                    return ddot(det(F) * transpose(inv(F)), grad(v)) * p_

                def app(q, p_, **kw):
                    return -q * p_ / kappa

                return [auu, aup, app]

            item = fem.FormItem(bilinearform=a, linearform=L)
            fd_check(c, "K", [item], field, 2e-5 * hm, symmetric=True)
        return c.result(dict(case=case["key"], unknowns=int(values_of(field).size)))
    raise ValueError(kind)
