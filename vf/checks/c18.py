"""C18 Modal analysis returns genuine eigenpairs of the constrained K/M pencil.

Bounded-exhaustive exploration: mesh family x density x elastic constants x density x boundary
dictionary x number of requested modes x container (extra massless fields) x rigid motions.  K and
M are re-assembled by the checker from the items; every returned pair is judged by its residual,
the spectrum additionally by a dense generalised eigen-solve (scipy.linalg.eigh) on the same pencil.
"""

import itertools
import warnings

import numpy as np

from .. import zoo

ID = "C18"
RULE = (
    "case = (mesh family, boundary dictionary, container); inside a case: (E, nu) x density x k in {1,3,6,10} x rigid "
    "motions; every returned eigenpair: |K v - lambda M v| <= 1e-7 |K| |v| on the free unknowns (1e-5 with massless fields), extracted mode shape "
    "zero on the prescribed unknowns, frequency = sqrt(lambda) / 2 pi, eigenvalues = the k smallest of the dense pencil; "
    "unconstrained body: exactly 3 (2D) / 6 (3D) zero eigenvalues; spectrum invariant under rigid motion."
)
ASSUMPTIONS = [
    "Multiple eigenvalues: ARPACK may return fewer copies of a multiple eigenvalue than exist (six-fold zero, k = 6); the returned values must then be a sub-multiset of the dense spectrum and every skipped dense eigenvalue a further copy of a returned one; the NUMBER of zero modes is decided on the dense pencil of the felupe-assembled K and M.",
    "K, M re-assembled by the checker from the items' assemble.matrix / assemble.mass (decided by C01 / C14).",
    "The unconstrained body is analysed with a negative shift supplied through the documented solver= argument (the default shift 0 factorises a singular matrix); evaluate(sigma=...) raises TypeError (sigma is passed twice) before any value exists: observation, not judged.",
    "The ARPACK start vector is supplied by the harness (v0=..., passed through evaluate's keyword arguments), otherwise eigsh draws a random one and the run is not reproducible.",
    "Frequencies are judged for lambda > 0 only (a rigid mode's lambda ~ -1e-15 legitimately yields NaN).",
]


def BOUNDS(tier):
    return {"item_lists": "every ordered selection of 1..3 out of three solid bodies (multipliers 0.25 / none / 3) on one field", "k": [1, 3, 6, 10], "E_nu": [[1.0, 0.3], [210.0, 0.0], [5.0, 0.45]], "densities": [1.0, 7.8], "rigid_motions": "6 cube rotations + generic + translation", "prestrain": PRESTRAIN}


FAMS = [("hexahedron", "3d"), ("hexahedron20", "3d"), ("tetra", "3d"), ("tetra10", "3d"), ("quad", "ps"), ("quad8", "ps"), ("triangle6", "ps")]
BCS = ["none", "clamped-face", "symmetry", "partial"]


def plan(tier, seed):
    cases = []
    for mk, fk in FAMS:
        for bc in BCS:
            cases.append(dict(key=f"{mk}/{bc}/u", mesh=mk, fk=fk, bc=bc, cont="u", seed=seed, tier=tier, cost=10 if "20" in mk or "10" in mk else 3))
    # (plane-strain Q1-P0 with few cells has a spurious pressure mode: singular constrained pencil, not driven)
    for mk, fk in (("hexahedron", "3d"),):
        for bc in ("clamped-face", "partial", "clamped-face+p"):  # (+p: pressure unknowns of some cells prescribed as well)
            cases.append(dict(key=f"{mk}/{bc}/u,p,J", mesh=mk, fk=fk, bc=bc, cont="mixed", seed=seed, tier=tier, cost=6))
    # bodies made of several items on one field: every ordered selection of 1..3 out of three items
    # (multiplier 0.25 / none / multiplier 3), so that nothing may leak from one item of the list to the next
    for mk, fk in (("hexahedron", "3d"), ("quad", "ps")):
        cases.append(dict(key=f"{mk}/items", kind="items", mesh=mk, fk=fk, seed=seed, tier=tier, cost=5))
    # pre-stressed states: modal analysis of a Neo-Hookean bar clamped at both ends around a homogeneous axial pre-strain
    # (stable and buckled states -- the stiffness as assembled from the items is then indefinite)
    for mk, fk in (("quad", "ps"), ("hexahedron", "3d")):
        cases.append(dict(key=f"{mk}/prestress", kind="prestress", mesh=mk, fk=fk, seed=seed, tier=tier, cost=4))
    # meshes with points that belong to no cell (control points, one block of a merged container), with and without
    # boundaries: the unknowns of such points are never free
    for mk, fk in (("hexahedron", "3d"), ("quad", "ps")):
        cases.append(dict(key=f"{mk}/unattached", kind="unattached", mesh=mk, fk=fk, seed=seed, tier=tier, cost=3))
    return cases


def run_unattached(case):
    """{one extra point, two extra points, a leading extra point} x boundaries {None, empty dict, clamped face}: dof1 = all
    unknowns of points with cells minus the prescribed ones, returned pairs satisfy K v = lambda M v on dof1 (K, M from the
    items), extracted modes vanish on unattached and prescribed unknowns"""
    import felupe as fem
    from scipy.sparse.linalg import eigsh

    warnings.simplefilter("ignore")
    key = case["key"]
    viol, nontrivial, outcomes = [], [], set()
    st = dict(trans=0, traces=0, states=0)

    def bad(sub, what, obs, exp, tol=0):
        if len(viol) < 50:
            viol.append(dict(key=f"{key}/{sub}", what=what, observed=obs, expected=exp, tol=tol))

    mk, fk, seed = case["mesh"], case["fk"], case["seed"]
    base = zoo.make(mk, "strip", seed)
    d = base.dim
    for plab, extra, lead in (("one-extra", 1, False), ("two-extra", 2, False), ("leading-extra", 1, True)):
        xp = base.points.max(0) + 1.0 + np.arange(extra)[:, None] * np.ones(d)
        if lead:
            pts = np.vstack([xp, base.points])
            cells = base.cells + extra
            loose = np.arange(extra)
        else:
            pts = np.vstack([base.points, xp])
            cells = base.cells
            loose = len(base.points) + np.arange(extra)
        mesh = fem.Mesh(pts, cells, base.cell_type)
        region = zoo.region(mk, mesh)
        Fc = fem.Field if fk == "3d" else fem.FieldPlaneStrain
        for blab, fkind in itertools.product(("None", "empty-dict", "clamped-face"), ("vector", "scalar")):
            # (scalar: a one-component field on the same mesh -- a membrane / potential problem -- whose number of components
            #  differs from the mesh dimension)
            fd = d if fkind == "vector" else 1
            if fkind == "vector":
                field = fem.FieldContainer([Fc(region, dim=d)])
                body = fem.SolidBody(fem.LinearElasticLargeStrain(E=2.0, nu=0.3), field, density=1.5)
            else:
                field = fem.FieldContainer([fem.Field(region, dim=1)])
                body = fem.SolidBody(fem.Laplace(), field, density=1.5)
            attached = np.setdiff1d(np.arange(mesh.npoints), loose)
            if blab == "clamped-face":
                m_ = np.zeros(mesh.npoints, dtype=bool)
                m_[attached] = np.isclose(pts[attached, 0], pts[attached, 0].min())
                bounds = {"fix": fem.Boundary(field[0], mask=m_)}
                fixed = np.where(m_)[0]
            else:
                bounds = None if blab == "None" else {}
                fixed = np.array([], dtype=int)
            held = np.union1d(loose, fixed)
            exp1 = np.setdiff1d(np.arange(mesh.npoints * fd), (fd * held[:, None] + np.arange(fd)).ravel())
            sub = f"{plab}/boundaries={blab}" + ("" if fkind == "vector" else "/scalar-field")
            job = fem.FreeVibration([body], bounds)
            v0 = 1.0 + zoo.offarr(seed, 1810, (len(exp1),))
            st["trans"] += 1
            try:
                kk_ = min(4, len(exp1) - 2)
                if kk_ < 1:
                    continue
                job.evaluate(solver=lambda A, M, sigma, **kw: eigsh(A, M=M, sigma=-0.7, **kw), k=kk_, **(dict(v0=v0) if True else {}))
            except Exception as ex:  # noqa
                bad(sub + "/exception", "modal analysis of a mesh with points without cells raised", repr(ex)[:160], "eigenpairs on the unknowns of attached points")
                continue
            st["states"] += 1
            if not np.array_equal(np.sort(np.asarray(job.dof1)), exp1):
                bad(sub + "/dof1", "free unknowns of the analysis = unknowns of points with cells minus the prescribed ones", int(len(job.dof1)), int(len(exp1)))
                continue
            K = body.assemble.matrix(field).toarray()[np.ix_(exp1, exp1)]
            M = body.assemble.mass().toarray()[np.ix_(exp1, exp1)]
            lam, V = np.asarray(job.eigenvalues), np.asarray(job.eigenvectors)
            for j in range(len(lam)):
                res = np.abs(K @ V[:, j] - lam[j] * (M @ V[:, j])).max() / (np.abs(K).max() * np.abs(V[:, j]).max())
                st["traces"] += 1
                if not res <= 1e-7:
                    bad(sub + f"/pair{j}", "K v = lambda M v on the free unknowns", float(res), 0, 1e-7)
                    break
            f2, freq = job.extract(n=len(lam) - 1, inplace=False)
            vals = f2[0].values
            st["traces"] += 1
            if len(held) and np.abs(vals[held]).max() > 0:
                bad(sub + "/extract", "extracted mode on unattached / prescribed points", float(np.abs(vals[held]).max()), 0)
            # fields whose value arrays are held in another memory layout (column-major start values, a view on a wider table)
            # and carry a previous state: the extracted field IS mode n (free unknowns = eigenvector, all others zero)
            for lay in ("F", "view"):
                for inpl in (True, False):
                    prev = 1e-3 * (1.0 + zoo.offarr(seed, 1811, field[0].values.shape))
                    if lay == "F":
                        field[0].values = np.asfortranarray(prev)
                    else:
                        wide_ = np.zeros((prev.shape[0], prev.shape[1] + 2))
                        wide_[:, 1:-1] = prev
                        field[0].values = wide_[:, 1:-1]
                    try:
                        fx, _ = job.extract(n=0, inplace=inpl)
                    except Exception as ex:  # noqa
                        bad(sub + f"/extract/values={lay}/inplace={inpl}/exception", "extract raised for a field held in another memory layout", repr(ex)[:160], "the mode")
                        continue
                    st["traces"] += 1
                    want_ = np.zeros(mesh.npoints * fd)
                    want_[exp1] = V[:, 0]
                    got_ = np.asarray(fx[0].values, dtype=float).reshape(-1)
                    if np.abs(got_ - want_).max() > 1e-14 * max(np.abs(want_).max(), 1e-300):
                        bad(sub + f"/extract/values={lay}/inplace={inpl}", "extracted field vs mode 0 (eigenvector on the free unknowns, zero elsewhere) for a field held in another memory layout", float(np.abs(got_ - want_).max()), 0)
            nzero = int((np.abs(lam) < 1e-8 * np.abs(K).max()).sum())
            outcomes.add(f"zero-modes={nzero}")
            nontrivial.append(sub)
    return dict(viol=viol, states=st["states"], transitions=st["trans"], traces=st["traces"], nontrivial=nontrivial, outcomes=sorted(outcomes), sample=dict(case=key), notes=[], digest=f"{st['states']}/{st['traces']}/{len(viol)}")


PRESTRAIN = [-0.3, -0.15, -0.05, 0.0, 0.1, 0.3]


def run_prestress(case):
    """every pre-strain of the alphabet x k in (1, 3, 6) x item multiplier: K is the tangent at the pre-deformed state as
    assembled from the items (it need not be positive definite), M the mass matrix; returned pairs vs the checker's dense
    symmetric-definite pencil (M is positive definite for the fully integrated families used here)"""
    import felupe as fem
    import scipy.linalg as sla

    warnings.simplefilter("ignore")
    key = case["key"]
    viol, nontrivial, outcomes = [], [], set()
    st = dict(trans=0, traces=0, states=0)

    def bad(sub, what, obs, exp, tol=0):
        if len(viol) < 50:
            viol.append(dict(key=f"{key}/{sub}", what=what, observed=obs, expected=exp, tol=tol))

    mk, fk, seed = case["mesh"], case["fk"], case["seed"]
    d = 2 if fk == "ps" else 3
    mesh = fem.Rectangle(b=(8.0, 1.0), n=(9, 3)) if d == 2 else fem.Cube(b=(6.0, 1.0, 0.8), n=(7, 2, 2))
    P = mesh.points
    ends = np.isclose(P[:, 0], 0.0) | np.isclose(P[:, 0], P[:, 0].max())
    for eps in PRESTRAIN:
        for mult in (None, 2.5):
            region = zoo.region(mk, mesh)
            Fc = fem.Field if fk == "3d" else fem.FieldPlaneStrain
            field = fem.FieldContainer([Fc(region, dim=d)])
            field[0].values[:, 0] = eps * P[:, 0]
            field[0].values[:, 1] = -0.3 * eps * (P[:, 1] - 0.5)
            body = fem.SolidBody(fem.NeoHooke(mu=1.0, bulk=4.0), field, density=1.3, multiplier=mult)
            bounds = {"fix": fem.Boundary(field[0], mask=ends)}
            dof0, dof1 = fem.dof.partition(field, bounds)
            before = field[0].values.copy()
            K1 = body.assemble.matrix(field).toarray()[np.ix_(dof1, dof1)] * (mult if mult is not None else 1.0)
            M1 = body.assemble.mass().toarray()[np.ix_(dof1, dof1)]
            dense = sla.eigh(0.5 * (K1 + K1.T), M1, eigvals_only=True)
            nneg = int((dense < 0).sum())
            outcomes.add(f"negative-eigenvalues:{min(nneg, 3)}{'+' if nneg > 3 else ''}")
            near = dense[np.argsort(np.abs(dense))]  # shift 0: the eigenvalues nearest to zero are returned
            for k in (1, 3, 6):
                job = fem.FreeVibration([body], bounds)
                v0 = 1.0 + zoo.offarr(seed, 1700, (len(dof1),))
                job.evaluate(x0=field, k=k, v0=v0)
                st["trans"] += 1
                st["states"] += 1
                sub = f"eps={eps}/multiplier={mult}/k={k}"
                lam_, V = np.asarray(job.eigenvalues), np.asarray(job.eigenvectors)
                if lam_.shape != (k,) or V.shape != (len(dof1), k):
                    bad(sub + "/shape", "shapes of eigenvalues / eigenvectors", [list(lam_.shape), list(V.shape)], [[k], [len(dof1), k]])
                    continue
                nontrivial.append(sub)
                Kn = np.abs(K1).max()
                for i in range(k):
                    v = V[:, i]
                    res = np.abs(K1 @ v - lam_[i] * (M1 @ v)).max()
                    st["traces"] += 1
                    if res > 1e-7 * Kn * np.abs(v).max():
                        bad(sub + f"/pair{i}", "K v = lambda M v on the free unknowns (K = tangent of the pre-deformed state)", float(res / (Kn * np.abs(v).max())), "<= 1e-7", 1e-7)
                ref = np.sort(near[:k])
                gap = abs(abs(near[k]) - abs(near[k - 1])) if k < len(near) else 1.0
                scale = max(np.abs(near[: k + 1]).max(), 1e-12)
                if gap > 1e-6 * scale and np.abs(np.sort(lam_) - ref).max() > 1e-7 * scale:
                    bad(sub + "/spectrum", "returned eigenvalues vs the k eigenvalues of the dense pencil nearest to the shift", np.sort(lam_).tolist(), ref.tolist(), 1e-7)
                for i in range(k):
                    f2, freq = job.extract(n=i, x0=field, inplace=False)
                    vals = f2[0].values.ravel()
                    if np.abs(vals[dof0]).max() > 0:
                        bad(sub + f"/mode{i}/prescribed", "extracted mode shape must vanish on prescribed unknowns", float(np.abs(vals[dof0]).max()), 0)
                    if lam_[i] > 0 and not abs(freq - np.sqrt(lam_[i]) / (2 * np.pi)) <= 1e-14 * max(freq, 1):
                        bad(sub + f"/mode{i}/frequency", "frequency = sqrt(lambda) / 2 pi", float(freq), float(np.sqrt(lam_[i]) / (2 * np.pi)))
                if not np.array_equal(field[0].values, before):
                    bad(sub + "/inplace", "evaluate / extract(inplace=False) must not modify the pre-deformed field", "modified", "unchanged")
    sample = dict(case=key, free=int(len(dof1)), prestrains=PRESTRAIN)
    return dict(viol=viol, states=st["states"], transitions=st["trans"], traces=st["traces"], nontrivial=nontrivial, outcomes=sorted(outcomes), sample=sample,
                digest=f"{st['states']}/{st['traces']}/{len(viol)}")


def run_items(case):
    import felupe as fem
    import scipy.linalg as sla

    warnings.simplefilter("ignore")
    key = case["key"]
    viol, nontrivial, outcomes = [], [], set()
    st = dict(trans=0, traces=0, states=0)

    def bad(sub, what, obs, exp, tol=0):
        if len(viol) < 50:
            viol.append(dict(key=f"{key}/{sub}", what=what, observed=obs, expected=exp, tol=tol))

    mk, fk, seed = case["mesh"], case["fk"], case["seed"]
    mesh = zoo.make(mk, "aniso" if zoo.BASE[mk][1] == 2 else "strip", seed)
    d = mesh.dim
    spec = [("a", 1.0, 0.3, 1.0, 0.25), ("b", 3.0, 0.2, 2.0, None), ("c", 0.5, 0.4, 0.7, 3.0), ("d", 2.0, 0.25, 0.9, 0.0)]  # name, E, nu, density, multiplier (0: stiffness switched off, mass kept)
    spectra = {}
    for r in (1, 2, 3):
      for order in itertools.permutations(range(4), r):
        if order == (3,):
            continue  # (no stiffness at all)
        # usex0: the analysis is given a separate top-level container (the boundaries live on ITS fields), not the items' own
        for usex0 in ((False, True) if r <= 2 else (False,)):
            region = zoo.region(mk, mesh)
            Fc = fem.Field if fk == "3d" else fem.FieldPlaneStrain
            own = fem.FieldContainer([Fc(region, dim=d)])
            field = fem.FieldContainer([Fc(region, dim=d)]) if usex0 else own
            items = [fem.SolidBody(fem.LinearElasticLargeStrain(E=spec[i][1], nu=spec[i][2]), own, density=spec[i][3], multiplier=spec[i][4]) for i in order]
            P = mesh.points
            bounds = {"fix": fem.Boundary(field[0], mask=np.isclose(P[:, 0], P[:, 0].min()))}
            dof0, dof1 = fem.dof.partition(field, bounds)
            # the checker's pencil: K = sum_i multiplier_i K_i, M = sum_i M_i, each from a FRESH single item
            N = int(sum(field.fieldsizes))
            K, M = np.zeros((N, N)), np.zeros((N, N))
            for i in order:
                one = fem.SolidBody(fem.LinearElasticLargeStrain(E=spec[i][1], nu=spec[i][2]), field, density=spec[i][3])
                K += (spec[i][4] if spec[i][4] is not None else 1.0) * one.assemble.matrix(field).toarray()
                M += one.assemble.mass().toarray()
            K1, M1 = K[np.ix_(dof1, dof1)], M[np.ix_(dof1, dof1)]
            dense = sla.eigh(K1, M1, eigvals_only=True)
            k = 4
            job = fem.FreeVibration(items, bounds)
            job.evaluate(x0=field, k=k, v0=1.0 + zoo.offarr(seed, 1500, (len(dof1),)))
            st["trans"] += 1
            st["states"] += 1
            lab = "order=" + "".join(spec[i][0] for i in order) + ("/x0=separate" if usex0 else "")
            lam_, V = np.asarray(job.eigenvalues), np.asarray(job.eigenvectors)
            if V.shape != (len(dof1), k):
                bad(f"{lab}/shape", "eigenvector shape vs the free unknowns of the container the analysis was given", list(V.shape), [len(dof1), k])
                continue
            f2_, _ = job.extract(n=0, x0=field, inplace=False)
            if np.abs(f2_[0].values.ravel()[dof0]).max() > 0:
                bad(f"{lab}/prescribed", "extracted mode shape must vanish on prescribed unknowns", float(np.abs(f2_[0].values.ravel()[dof0]).max()), 0)
            Kn = np.abs(K1).max()
            for j in range(k):
                v = V[:, j]
                res = np.abs(K1 @ v - lam_[j] * (M1 @ v)).max()
                st["traces"] += 1
                if res > 1e-7 * Kn * np.abs(v).max():
                    bad(f"{lab}/pair{j}", "K v = lambda M v with K = sum multiplier_i K_i, M = sum M_i assembled from the items", float(res / (Kn * np.abs(v).max())), "<= 1e-7", 1e-7)
            if np.abs(np.sort(lam_) - dense[:k]).max() > 1e-7 * abs(dense[k]):
                bad(f"{lab}/spectrum", "returned eigenvalues vs the k smallest of the dense pencil of the item list", np.sort(lam_).tolist(), dense[:k].tolist(), 1e-7)
            nontrivial.append(lab)
            if not usex0:
                spectra.setdefault(tuple(sorted(order)), []).append((lab, np.sort(lam_)))
            # the items themselves must not have been modified by the analysis (a second analysis gives the same spectrum)
            job2 = fem.FreeVibration(items, bounds)
            job2.evaluate(x0=field, k=k, v0=1.0 + zoo.offarr(seed, 1500, (len(dof1),)))
            st["trans"] += 1
            if np.abs(np.sort(job2.eigenvalues) - np.sort(lam_)).max() > 1e-9 * abs(dense[k]):
                bad(f"{lab}/repeat", "a second analysis of the same item list gives another spectrum (items modified by evaluate)", np.sort(job2.eigenvalues).tolist(), np.sort(lam_).tolist(), 1e-9)
    # one long-lived job: evaluate + extract, then the boundary dictionary grows / shrinks (it is held by reference), evaluate +
    # extract again -- every ordered pair of three dictionaries; the extracted shapes must belong to the CURRENT constraints
    region = zoo.region(mk, mesh)
    Fc = fem.Field if fk == "3d" else fem.FieldPlaneStrain
    field = fem.FieldContainer([Fc(region, dim=d)])
    body = fem.SolidBody(fem.LinearElasticLargeStrain(E=1.0, nu=0.3), field, density=1.0)
    P = mesh.points
    Bs = {"left": {"a": fem.Boundary(field[0], mask=np.isclose(P[:, 0], P[:, 0].min()))},
          "left+right": {"a": fem.Boundary(field[0], mask=np.isclose(P[:, 0], P[:, 0].min())), "b": fem.Boundary(field[0], mask=np.isclose(P[:, 0], P[:, 0].max()))},
          "bottom-y": {"c": fem.Boundary(field[0], mask=np.isclose(P[:, 1], P[:, 1].min()), skip=(1, 0, 1)[:d]), "a": fem.Boundary(field[0], mask=np.isclose(P[:, 0], P[:, 0].min()))}}
    Kf = body.assemble.matrix(field).toarray()
    Mf = body.assemble.mass().toarray()
    for b1, b2 in itertools.permutations(Bs, 2):
        live = dict(Bs[b1])
        job = fem.FreeVibration([body], live)
        job.evaluate(x0=field, k=3, v0=1.0 + zoo.offarr(seed, 1501, (len(fem.dof.partition(field, live)[1]),)))
        for n_ in (0, 1, 2):
            job.extract(n=n_, x0=field, inplace=False)
        live.clear()
        live.update(Bs[b2])  # the same dict object, other constraints
        dof0, dof1 = fem.dof.partition(field, live)
        job.evaluate(x0=field, k=3, v0=1.0 + zoo.offarr(seed, 1502, (len(dof1),)))
        st["trans"] += 2
        K1, M1 = Kf[np.ix_(dof1, dof1)], Mf[np.ix_(dof1, dof1)]
        for n_ in (0, 1, 2, -1):
            f2, freq = job.extract(n=n_, x0=field, inplace=False)
            vals = f2[0].values.ravel()
            st["traces"] += 1
            lab = f"re-evaluate/{b1}->{b2}/mode{n_}"
            if np.abs(vals[dof0]).max() > 0:
                bad(lab + "/prescribed", "mode shape extracted after the job was re-evaluated with other boundaries must vanish on the CURRENT prescribed unknowns", float(np.abs(vals[dof0]).max()), 0)
            lam_n = (2 * np.pi * freq) ** 2
            res = np.abs(K1 @ vals[dof1] - lam_n * (M1 @ vals[dof1])).max()
            if res > 1e-7 * np.abs(K1).max() * max(np.abs(vals).max(), 1e-300):
                bad(lab + "/pair", "extracted (shape, frequency) after re-evaluation is not an eigenpair of the current pencil", float(res), 0, 1e-7)
            nontrivial.append(lab)
    # user solvers handed in through the documented solver= argument that return genuine pairs in ANOTHER order (descending;
    # closest to a target value first, as shift-invert about a target does): pair n stays a pair, extract(n) reports ITS frequency
    from scipy.sparse.linalg import eigsh as _eigsh

    def _desc(A, M, sigma, **kw):
        w, v = _eigsh(A=A, M=M, sigma=sigma, **kw)
        return w[::-1].copy(), v[:, ::-1].copy()

    def _closest(A, M, sigma, **kw):
        w, v = _eigsh(A=A, M=M, sigma=sigma, **kw)
        o = np.argsort(np.abs(w - 0.6 * w.max()))
        return w[o], v[:, o]

    bnd_ = dict(Bs["left"])
    d0_, d1_ = fem.dof.partition(field, bnd_)
    Ks_, Ms_ = Kf[np.ix_(d1_, d1_)], Mf[np.ix_(d1_, d1_)]
    for slab, sol in (("descending", _desc), ("closest-to-target", _closest)):
        job = fem.FreeVibration([body], bnd_)
        job.evaluate(x0=field, solver=sol, k=5, v0=1.0 + zoo.offarr(seed, 1504, (len(d1_),)))
        st["trans"] += 1
        lam_, V = np.asarray(job.eigenvalues), np.asarray(job.eigenvectors)
        for j in range(5):
            res = np.abs(Ks_ @ V[:, j] - lam_[j] * (Ms_ @ V[:, j])).max() / (np.abs(Ks_).max() * np.abs(V[:, j]).max())
            st["traces"] += 1
            if res > 1e-7:
                bad(f"solver-order/{slab}/pair{j}", "pair n returned by the analysis for a user solver that does not return ascending values: K v = lambda M v", float(res), 0, 1e-7)
                break
            f2, freq = job.extract(n=j, x0=field, inplace=False)
            vv = f2[0].values.ravel()[d1_]
            ray = float(vv @ (Ks_ @ vv) / (vv @ (Ms_ @ vv)))
            if abs((2 * np.pi * freq) ** 2 - ray) > 1e-7 * abs(ray):
                bad(f"solver-order/{slab}/extract{j}", "frequency reported by extract(n) vs the Rayleigh quotient of the extracted shape", float((2 * np.pi * freq) ** 2), ray, 1e-7)
                break
        else:
            nontrivial.append(f"solver-order/{slab}")
    # an item whose tangent has NO major symmetry (user material without potential, deformed state) analysed with a general
    # eigen-solver handed in through solver= (scipy's eigs): the returned pairs belong to K as assembled, not to its symmetric part
    from scipy.sparse.linalg import eigs as _eigs
    from .c01 import material as _c01_material

    fns_ = fem.FieldContainer([Fc(region, dim=d)])
    fns_[0].values[:] = 0.08 * zoo.offarr(seed, 1505, fns_[0].values.shape)
    um_ns, _ = _c01_material("user-nonconservative", region)
    bns_ = fem.SolidBody(um_ns, fns_, density=1.0)
    bnd2_ = {"a": fem.Boundary(fns_[0], mask=np.isclose(P[:, 0], P[:, 0].min()))}
    d0n_, d1n_ = fem.dof.partition(fns_, bnd2_)
    Kn_ = bns_.assemble.matrix(fns_).toarray()[np.ix_(d1n_, d1n_)]
    Mn_ = bns_.assemble.mass().toarray()[np.ix_(d1n_, d1n_)]
    asym_ = np.abs(Kn_ - Kn_.T).max() / np.abs(Kn_).max()
    outcomes.add("nonsymmetric-K" if asym_ > 1e-6 else "nonsymmetric-K-missing")
    job = fem.FreeVibration([bns_], bnd2_)
    job.evaluate(x0=fns_, solver=lambda A, M, sigma, **kw: _eigs(A=A, M=M, sigma=sigma, **kw), k=4, v0=1.0 + zoo.offarr(seed, 1506, (len(d1n_),)))
    st["trans"] += 1
    lamn_, Vn_ = np.asarray(job.eigenvalues), np.asarray(job.eigenvectors)
    for j in range(4):
        res = np.abs(Kn_ @ Vn_[:, j] - lamn_[j] * (Mn_ @ Vn_[:, j])).max() / (np.abs(Kn_).max() * np.abs(Vn_[:, j]).max())
        st["traces"] += 1
        if res > 1e-7:
            bad(f"nonsymmetric-item/pair{j}", "K v = lambda M v for a body without major symmetry analysed with a general eigen-solver (K as assembled from the item)", float(res), 0, 1e-7)
            break
    else:
        nontrivial.append("nonsymmetric-item")
    # one long-lived job whose ITEMS change between two evaluations (same unknowns): the density of a body, a second body
    # appended to / replaced in the item list, the stiffness multiplier -- every ordered pair of changes; the second evaluation
    # must return eigenpairs of the pencil assembled from the items as they are THEN
    def mkbody(E_, rho_, mult_=None):
        return fem.SolidBody(fem.LinearElasticLargeStrain(E=E_, nu=0.3), field, density=rho_, multiplier=mult_)

    changes = {
        "density x4": lambda its: setattr(its[0], "density", its[0].density * 4.0),
        "append body": lambda its: its.append(mkbody(0.7, 2.5)),
        "replace body": lambda its: its.__setitem__(0, mkbody(3.0, 0.4)),
        "multiplier 2.5": lambda its: setattr(its[0].assemble, "multiplier", 2.5),
    }
    live = dict(Bs["left"])
    dof0, dof1 = fem.dof.partition(field, live)
    for ch1, ch2 in itertools.product(changes, repeat=2):
        its = [mkbody(1.0, 1.0)]
        job = fem.FreeVibration(its, live)
        for stage, ch in (("initial", None), (ch1, ch1), (ch1 + " > " + ch2, ch2)):
            if ch is not None:
                changes[ch](its)
            job.evaluate(x0=field, k=3, v0=1.0 + zoo.offarr(seed, 1503, (len(dof1),)))
            st["trans"] += 1
            Kc, Mc = np.zeros((len(dof1),) * 2), np.zeros((len(dof1),) * 2)
            for it in its:
                fresh = fem.SolidBody(it.umat, field, density=it.density)
                m_ = it.assemble.multiplier
                Kc += (m_ if m_ is not None else 1.0) * fresh.assemble.matrix(field).toarray()[np.ix_(dof1, dof1)]
                Mc += fresh.assemble.mass().toarray()[np.ix_(dof1, dof1)]
            lam_, V = np.asarray(job.eigenvalues), np.asarray(job.eigenvectors)
            st["traces"] += 1
            worst = max(np.abs(Kc @ V[:, j] - lam_[j] * (Mc @ V[:, j])).max() / (np.abs(Kc).max() * np.abs(V[:, j]).max()) for j in range(3))
            if worst > 1e-7:
                bad(f"item-history/{stage}", "pairs returned by a job that is evaluated again after its items changed are not eigenpairs of the pencil assembled from the current items", float(worst), 0, 1e-7)
                break
            dense = sla.eigh(Kc, Mc, eigvals_only=True)[:3]
            if np.abs(np.sort(lam_) - dense).max() > 1e-7 * abs(dense[-1]):
                bad(f"item-history/{stage}/spectrum", "eigenvalues after the items changed vs the dense pencil of the current items", np.sort(lam_).tolist(), dense.tolist(), 1e-7)
                break
            nontrivial.append(f"item-history/{stage}")
    for sel, lst in spectra.items():
        for lab, sp in lst[1:]:
            st["traces"] += 1
            if np.abs(sp - lst[0][1]).max() > 1e-8 * np.abs(sp).max():
                bad(f"{lab}/order-invariance", "spectrum must not depend on the order of the items", sp.tolist(), lst[0][1].tolist(), 1e-8)
    outcomes.add(f"selections={len(spectra)}")
    return dict(viol=viol, states=st["states"], transitions=st["trans"], traces=st["traces"], nontrivial=nontrivial, outcomes=sorted(outcomes), sample=dict(case=key, item_lists=st["states"]),
                notes=[], digest=f"{st['states']}/{st['traces']}/{len(viol)}")


def run(case):
    import felupe as fem
    import scipy.linalg as sla
    from scipy.sparse.linalg import eigsh

    if case.get("kind") == "items":
        return run_items(case)
    if case.get("kind") == "prestress":
        return run_prestress(case)
    if case.get("kind") == "unattached":
        return run_unattached(case)
    warnings.simplefilter("ignore")
    key = case["key"]
    viol, nontrivial, outcomes, notes = [], [], set(), []
    st = dict(trans=0, traces=0, states=0)

    def bad(sub, what, obs, exp, tol=0):
        if len(viol) < 50:
            viol.append(dict(key=f"{key}/{sub}", what=what, observed=obs, expected=exp, tol=tol))

    mk, fk, bc, seed = case["mesh"], case["fk"], case["bc"], case["seed"]
    base = zoo.make(mk, "aniso" if (case["tier"] == "thorough" or zoo.BASE[mk][1] == 2) else "strip", seed)
    d = base.dim
    spectra = {}
    motions = [("id", np.eye(d), np.zeros(d))]
    if d == 3:
        motions += [(f"cube{i}", Q, np.array([0.3, -0.2, 0.5])) for i, Q in enumerate(zoo.cube_rotations()[1:6])] + [("generic", zoo.generic_rotations(seed, 1)[0], np.array([1.0, 2.0, 3.0]))]
    else:
        motions += [("rot90", zoo.rot2(np.pi / 2), np.array([0.3, -0.2])), ("generic", zoo.rot2(0.7), np.array([1.0, 2.0]))]
    if bc not in ("none", "clamped-face", "clamped-face+p"):
        motions = motions[:1]  # coordinate-plane boundary conditions are not rigid-motion invariant
    # the same body in other length units: lambda scales with 1 / s^2 (K ~ s^(d-2), M ~ s^d)
    UNITS = {"mm": 1e-3, "km": 1e3}
    if bc in ("none", "clamped-face", "clamped-face+p"):  # (the coordinate-plane dictionaries select by un-scaled coordinates)
        motions += [(u, s_ * np.eye(d), np.zeros(d)) for u, s_ in UNITS.items()]
    # (density 7.8e12: the same steel-like body in a unit system with a small time unit -- all eigenvalues ~ 1e-13)
    for (E, nu), rho in list(itertools.product(((1.0, 0.3), (210.0, 0.0), (5.0, 0.45)), (1.0, 7.8))) + [((2.1, 0.3), 7.8e12)]:  # (the opposite system, eigenvalues ~ 1e19, was dropped: ARPACK's residuals there sit at 1e-7 .. 7e-7 relative, seed dependent)
        for mlab, Q, t in (motions if (E, nu, rho) == (1.0, 0.3, 1.0) else motions[:1]):
            mesh = fem.Mesh(base.points @ Q.T + t, base.cells, base.cell_type)
            region = zoo.region(mk, mesh)
            if case["cont"] == "u":
                Fc = fem.Field if fk == "3d" else fem.FieldPlaneStrain
                field = fem.FieldContainer([Fc(region, dim=d)])
                mult = 0.5 if E == 210.0 else None  # one parameter set carries an item multiplier
                body = fem.SolidBody(fem.LinearElasticLargeStrain(E=E, nu=nu), field, density=rho, multiplier=mult)
            else:
                field = fem.FieldsMixed(region, n=3, planestrain=(fk == "ps"))
                lam, mu = fem.constitution.lame_converter(E, nu)
                body = fem.SolidBody(fem.ThreeFieldVariation(fem.NeoHooke(mu=mu, bulk=lam + 2 * mu / 3)), field, density=rho)
            # boundary dictionaries (selected on the un-moved mesh)
            P = base.points
            f0 = field.fields[0]
            if bc == "none":
                bounds = {}
            elif bc == "clamped-face":
                bounds = {"fix": fem.Boundary(f0, mask=np.isclose(P[:, 0], P[:, 0].min()))}
            elif bc == "clamped-face+p":
                f1 = field.fields[1]
                bounds = {"fix": fem.Boundary(f0, mask=np.isclose(P[:, 0], P[:, 0].min())), "p": fem.Boundary(f1, mask=np.arange(len(f1.values)) % 2 == 1)}
            elif bc == "symmetry":
                bounds = fem.dof.symmetry(f0, axes=(True, True, False), x=float(P[:, 0].min()), y=float(P[:, 1].min()))
            else:
                bounds = {"a": fem.Boundary(f0, mask=np.isclose(P[:, 0], P[:, 0].min()), skip=(0, 1, 1)[:d]), "b": fem.Boundary(f0, mask=np.isclose(P[:, 1], P[:, 1].max()), skip=(1, 0, 1)[:d])}
            N = int(sum(field.fieldsizes))
            field_before = np.concatenate([f.values.ravel() for f in field.fields]).copy()
            Kfull = body.assemble.matrix(field).toarray() * (body.assemble.multiplier if body.assemble.multiplier is not None else 1.0)
            Mfull = np.zeros((N, N))
            Mu = body.assemble.mass().toarray()
            Mfull[: Mu.shape[0], : Mu.shape[1]] = Mu
            dof0, dof1 = fem.dof.partition(field, bounds)
            K1, M1 = Kfull[np.ix_(dof1, dof1)], Mfull[np.ix_(dof1, dof1)]
            nrig = {2: 3, 3: 6}[d] if bc == "none" else 0
            if case["cont"] == "u":
                # the mass matrix of under-integrated simplex families is only positive SEMI-definite: solve the
                # inverted, shifted pencil M v = mu (K - s M) v with s < 0 (K - s M is positive definite), lambda = s + 1 / mu
                s_ = -1e-3 * np.abs(K1).max() / max(np.abs(M1).max(), 1e-300)
                mu_ = sla.eigh(M1, K1 - s_ * M1, eigvals_only=True)[::-1]
                mu_ = mu_[mu_ > 1e-13 * mu_.max()]
                dense = s_ + 1.0 / mu_
            else:
                # singular M: finite eigenvalues of the pencil via the statically condensed stiffness
                nu_ = field.fieldsizes[0]
                iu = np.array([i for i, k in enumerate(dof1) if k < nu_])
                ir = np.array([i for i, k in enumerate(dof1) if k >= nu_])
                S = K1[np.ix_(iu, iu)] - K1[np.ix_(iu, ir)] @ np.linalg.solve(K1[np.ix_(ir, ir)], K1[np.ix_(ir, iu)])
                dense = sla.eigh(0.5 * (S + S.T), M1[np.ix_(iu, iu)], eigvals_only=True)
            # partially constrained bodies keep rigid-body modes too: count them on the dense pencil and shift accordingly
            nrig_expected = nrig
            nrig = int((np.abs(dense) <= 1e-9 * np.abs(dense).max()).sum()) if case["cont"] == "u" else 0
            if bc == "none" and nrig != nrig_expected:
                bad(f"E={E},nu={nu},rho={rho}/{mlab}/dense-rigid-modes", "zero eigenvalues of the checker's dense pencil for an unconstrained body", nrig, nrig_expected)
            for k in (1, 3, 6, 10):
                # (with a rank-deficient mass matrix -- under-integrated simplex families, massless fields -- ARPACK is only
                #  reliable well below the number of finite eigenvalues: stay below half of them)
                rankM = int(np.linalg.matrix_rank(M1, tol=1e-10 * np.abs(M1).max()))
                if k >= len(dof1) - 1 or 2 * k > min(len(dense), rankM):
                    continue
                job = fem.FreeVibration([body], bounds)
                shift = -0.05 * dense[min(nrig, len(dense) - 1)] if nrig else 0.0
                # ARPACK draws a random start vector by default: the harness owns it (deterministic, generic)
                v0 = 1.0 + zoo.offarr(seed, 1500, (len(dof1),))
                # (k = 3: the threaded assembly of the matrices, parallel=True -- same pencil, same pairs)
                par = k == 3
                if nrig:
                    job.evaluate(x0=field, solver=lambda A, M, sigma, **kw: eigsh(A=A, M=M, sigma=shift, **kw), parallel=par, k=k, v0=v0)
                else:
                    job.evaluate(x0=field, parallel=par, k=k, v0=v0)
                st["trans"] += 1
                st["states"] += 1
                sub = f"E={E},nu={nu},rho={rho}/{mlab}/k={k}" + ("/parallel" if par else "")
                lam_, V = np.asarray(job.eigenvalues), np.asarray(job.eigenvectors)
                if lam_.shape != (k,) or V.shape != (len(dof1), k):
                    bad(sub + "/shape", "shapes of eigenvalues / eigenvectors", [list(lam_.shape), list(V.shape)], [[k], [len(dof1), k]])
                    continue
                nontrivial.append(sub)
                # eigenpair residuals with the checker's K, M
                Kn = np.abs(K1).max()
                for i in range(k):
                    v = V[:, i]
                    res = np.abs(K1 @ v - lam_[i] * (M1 @ v)).max()
                    st["traces"] += 1
                    rtol = 1e-7 if case["cont"] == "u" else 1e-5  # massless fields: no purification of the Lanczos vectors in eigsh
                    if res > rtol * Kn * np.abs(v).max():
                        bad(sub + f"/pair{i}", "K v = lambda M v on the free unknowns", float(res / (Kn * np.abs(v).max())), f"<= {rtol}", rtol)
                # the k eigenvalues nearest to the shift = the k smallest of the dense pencil
                ref = dense[:k]
                scale = max(abs(dense[min(k + nrig, len(dense) - 1)]), 1e-12)
                if np.abs(np.sort(lam_) - ref).max() > 1e-7 * scale:
                    # ARPACK may return fewer copies of a multiple eigenvalue than exist (six-fold zero of an unconstrained
                    # body with k = 6, found under VERIF_SEED=5): accepted iff the returned values are a sub-multiset of the
                    # dense spectrum and every skipped dense eigenvalue is a further copy of a returned one; the number of
                    # zero modes is decided on the dense pencil (above)
                    pool = list(dense[: min(len(dense), k + nrig + 6)])
                    okm = True
                    for v_ in np.sort(lam_):
                        j_ = [i for i, w_ in enumerate(pool) if abs(w_ - v_) <= 1e-7 * scale]
                        if not j_:
                            okm = False
                            break
                        pool.pop(j_[0])
                    skipped = [w_ for w_ in dense[:k] if not any(abs(w_ - v_) <= 1e-7 * scale for v_ in lam_)]
                    if okm and not skipped:
                        outcomes.add("arpack-returned-fewer-copies-of-a-multiple-eigenvalue")
                    else:
                        bad(sub + "/spectrum", "returned eigenvalues vs the k smallest eigenvalues of the dense pencil", np.sort(lam_).tolist()[:6], ref.tolist()[:6], 1e-7)
                # extraction
                for i in range(k):
                    f2, freq = job.extract(n=i, x0=field, inplace=False)
                    vals = np.concatenate([f.values.ravel() for f in f2.fields])
                    if np.abs(vals[dof0]).max() > 0 if len(dof0) else False:
                        bad(sub + f"/mode{i}/prescribed", "extracted mode shape must vanish on prescribed unknowns", float(np.abs(vals[dof0]).max()), 0)
                    if not np.array_equal(vals[dof1], V[:, i]):
                        bad(sub + f"/mode{i}/values", "extracted mode shape = eigenvector on the free unknowns", "differs", "equal")
                    if lam_[i] > 0 and not abs(freq - np.sqrt(lam_[i]) / (2 * np.pi)) <= 1e-14 * max(freq, 1):
                        bad(sub + f"/mode{i}/frequency", "frequency = sqrt(lambda) / 2 pi", float(freq), float(np.sqrt(lam_[i]) / (2 * np.pi)))
                if not np.array_equal(np.concatenate([f.values.ravel() for f in field.fields]), field_before):
                    bad(sub + "/inplace", "extract(inplace=False) must not modify the field", "modified", "unchanged")
                # rigid body modes
                if nrig and k > nrig:
                    lam7 = np.sort(lam_)[nrig]
                    nzero = int((np.abs(lam_) <= 1e-8 * lam7).sum())
                    outcomes.add(f"zero-modes={nzero}")
                    if nzero > nrig or nzero == 0:
                        bad(sub + "/rigid-modes", "number of zero-frequency modes of an unconstrained body", nzero, nrig)
                    elif nzero < nrig:
                        # fewer copies of the multiple zero eigenvalue than exist (see ASSUMPTIONS): the count is decided on the
                        # dense pencil, the returned values by the sub-multiset clause above
                        outcomes.add("arpack-returned-fewer-copies-of-a-multiple-eigenvalue")
                if k == 10 or (k == 6 and 10 >= len(dof1) - 1):
                    spectra[(E, nu, rho, mlab)] = np.sort(lam_)
    # invariance under rigid motion
    ref = spectra.get((1.0, 0.3, 1.0, "id"))
    if ref is not None:
        for (E, nu, rho, mlab), sp in spectra.items():
            if (E, nu, rho) == (1.0, 0.3, 1.0) and mlab != "id":
                st["traces"] += 1
                sc = np.abs(ref).max()
                if mlab in UNITS:
                    sp2 = sp * UNITS[mlab] ** 2
                    if np.abs(sp2 - ref).max() > 1e-7 * sc:
                        bad(f"length-units/{mlab}", "spectrum of the body scaled by s must be the spectrum / s^2", float(np.abs(sp2 - ref).max() / sc), 0, 1e-7)
                elif np.abs(sp - ref).max() > 1e-8 * sc:
                    bad(f"rigid-motion/{mlab}", "spectrum must be invariant under rigid motion of the mesh", float(np.abs(sp - ref).max() / sc), 0, 1e-8)
    # scaling laws (differential): lambda ~ E / rho at fixed nu
    sample = dict(case=key, unknowns=N, free=int(len(dof1)), spectra=len(spectra))
    return dict(viol=viol, states=st["states"], transitions=st["trans"], traces=st["traces"], nontrivial=nontrivial, outcomes=sorted(outcomes), sample=sample, notes=notes,
                digest=f"{st['states']}/{st['traces']}/{len(viol)}")
