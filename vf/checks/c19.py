"""C19 Projection and post-processing return the quantities they name.

project / extrapolate / topoints are linear in the values: they are decided on ALL unit nodal
fields (resp. all unit quadrature-point arrays) of every template x zoo member.  Stresses, view
data and boundary force / moment are compared with the checker's own recomputation from the
deformation gradient and the nodal force vector on a lattice of deformation states.
"""

import itertools
import warnings

import numpy as np

from .. import zoo
from .c01 import make_field, material, set_state

ID = "C19"
RULE = (
    "case = (operation, region template, zoo member); project: every unit nodal field (all points x components batched) "
    "must come back exactly and the volume integral of generic values is preserved, for tensor orders 0, 1, 2 and Voigt; "
    "extrapolate: every multilinear nodal field comes back at the points; topoints: every unit quadrature-point array "
    "gives the mean over attached cells; stresses: Kirchhoff = P F^T, Cauchy = P F^T / det F on a state lattice; view "
    "data = quadrature means in the documented Voigt order; force / moment = explicit sums over the boundary points."
)
ASSUMPTIONS = [
    "Projection is judged on regions whose rule carries the space (at least as many quadrature points as nodes per cell); simplex templates are given the order-2 / order-5 rules project() itself documents.",
    "pyvista stores arrays of 3x3 matrices column-major (its own, third-party convention); the view's cell data and its projected point data of the same named quantity must agree with each other under that convention (the XDMF job writer goes through meshio and stores row-major: C20).",
    "Rendering is not a decision seam: only the data arrays attached to the view's mesh are read.",
]
TOL = 1e-10


def BOUNDS(tier):
    return {"templates": list(PROJ), "members": ["block", "distorted", "renum", "(curved)"], "tensor_orders": [0, 1, 2, "voigt"],
            "stress_history": {"alphabet": "states {A,B} x calls {vector, matrix, gradient, hessian} with the field + {vector, matrix} without a field (10 calls)", "depth": 3 if tier == "quick" else 4,
                               "observers": ["kirchhoff_stress()", "cauchy_stress()", "stress()", "gradient()"], "bodies": "SolidBody on 2 cells, 3d / plane strain / axisymmetric"}}


PROJ = {
    "quad": None, "quad8": None, "quad9": None, "hexahedron": None, "hexahedron20": None, "hexahedron27": None,
    "triangle": ("Triangle", 2), "triangle6": ("Triangle", 5), "tetra": ("Tetrahedron", 2), "tetra10": ("Tetrahedron", 5),
}


def plan(tier, seed):
    cases = []
    for kind in PROJ:
        for mem in ["block", "distorted", "renum"] + (["curved"] if kind in zoo.QUADRATIC else []):
            cases.append(dict(key=f"project/{kind}/{mem}", op="project", kind=kind, member=mem, seed=seed, cost=15 if "27" in kind or "20" in kind or "10" in kind else 2))
        # the same body in other length units (millimetre-sized specimen in metres, and the reverse): projection is scale free
        for sc in (1e-3, 1e3):
            if tier == "thorough" or kind in ("quad", "hexahedron", "triangle", "tetra", "quad8"):
                cases.append(dict(key=f"project/{kind}/block/scale={sc}", op="project", kind=kind, member="block", scale=sc, seed=seed, cost=2))
    for kind in ("quad", "hexahedron"):
        for mem in ("ref", "block", "distorted", "renum", "affine"):
            cases.append(dict(key=f"extrapolate/{kind}/{mem}", op="extrapolate", kind=kind, member=mem, seed=seed))
    for kind in ("quad", "quad8", "quad9", "hexahedron", "hexahedron20", "hexahedron27", "triangle", "tetra"):
        for mem in ("block", "renum"):
            cases.append(dict(key=f"topoints/{kind}/{mem}", op="topoints", kind=kind, member=mem, seed=seed, cost=3))
    for mk, fk in (("hexahedron", "3d"), ("hexahedron20", "3d"), ("tetra", "3d"), ("quad", "ps"), ("quad", "axi"), ("quad8", "ps")):
        for mat in ("NeoHooke", "tt-mooney", "NearlyIncompressibleBody", "OgdenRoxburgh-softened"):
            cases.append(dict(key=f"stress/{mk}/{fk}/{mat}", op="stress", mesh=mk, fk=fk, mat=mat, seed=seed, cost=3))
    # histories: every sequence of evaluation calls (states A/B x vector/matrix/gradient/hessian, with and without the
    # field argument) up to a depth, followed by each stress observer called without a field
    for mk, fk in (("hexahedron", "3d"), ("quad", "ps"), ("quad", "axi")):
        for mat in ("NeoHooke", "tt-mooney", "OgdenRoxburgh-softened"):
            if tier == "quick" and mat != "NeoHooke" and fk != "3d":
                continue
            cases.append(dict(key=f"stress-history/{mk}/{fk}/{mat}", op="stress-history", mesh=mk, fk=fk, mat=mat, depth=3 if tier == "quick" else 4, seed=seed, cost=30 if tier == "quick" else 300))
    for mk, fk in (("hexahedron", "3d"), ("quad", "ps"), ("tetra", "3d"), ("hexahedron20", "3d")):
        cases.append(dict(key=f"view/{mk}/{fk}", op="view", mesh=mk, fk=fk, seed=seed, cost=5))
        cases.append(dict(key=f"force-moment/{mk}/{fk}", op="force", mesh=mk, fk=fk, seed=seed))
    # solids on PLAIN two-dimensional fields (2 x 2 stress tensors: plane stress, 2D hyperelasticity)
    for mk in ("quad", "triangle", "quad8"):
        cases.append(dict(key=f"view2d/{mk}", op="view2d", mesh=mk, fk="2d", seed=seed, cost=3))
    return cases


class Ctx:
    def __init__(self, key):
        self.key = key
        self.viol, self.nontrivial, self.outcomes, self.notes = [], [], set(), []
        self.trans = self.traces = self.states = 0

    def bad(self, sub, what, obs, exp, tol=TOL):
        if len(self.viol) < 50:
            self.viol.append(dict(key=f"{self.key}/{sub}", what=what, observed=obs, expected=exp, tol=tol))

    def close(self, sub, what, got, ref, tol=TOL, scale=None):
        self.traces += 1
        got, ref = np.asarray(got, float), np.asarray(ref, float)
        if got.shape != ref.shape:
            self.bad(sub, what + " (shape)", list(got.shape), list(ref.shape))
            return False
        self.states += int(ref.size)
        sc = scale if scale is not None else max(np.abs(ref).max(), 1e-12)
        err = np.abs(got - ref).max() / sc
        if np.abs(ref).max() > 0:
            self.nontrivial.append(sub)
        if not err <= tol:
            idx = np.unravel_index(np.argmax(np.abs(got - ref)), ref.shape)
            self.bad(sub, what, dict(rel_err=float(err), at=[int(i) for i in idx], got=float(got[idx]), ref=float(ref[idx])), "equal", tol)
            return False
        return True

    def result(self, sample):
        return dict(viol=self.viol, states=self.states, transitions=self.trans, traces=self.traces, nontrivial=self.nontrivial, outcomes=sorted(self.outcomes),
                    sample=sample, notes=self.notes, digest=f"{self.states}/{self.traces}/{len(self.viol)}")


def proj_region(kind, mesh):
    import felupe as fem

    q = PROJ.get(kind)
    if q is None:
        return zoo.region(kind, mesh)
    quad = getattr(fem.quadrature, q[0])(order=q[1])
    return zoo.region(kind, mesh, quadrature=quad)


def run(case):
    import felupe as fem

    warnings.simplefilter("ignore")
    c = Ctx(case["key"])
    op, seed = case["op"], case["seed"]
    if op == "project":
        kind = case["kind"]
        mesh = zoo.make(kind, case["member"], seed)
        if case.get("scale"):
            mesh = fem.Mesh(mesh.points * case["scale"], mesh.cells, mesh.cell_type)
        region = proj_region(kind, mesh)
        n = mesh.npoints
        # (1) all unit nodal fields at once: field of dim n with values = identity
        f = fem.Field(region, dim=n, values=np.eye(n))
        vq = f.interpolate()  # (n, q, c)
        back = fem.project(vq, region)
        c.trans += 1
        c.close("identity", "project(interpolate(u)) = u for every unit nodal field", back, np.eye(n), scale=1.0)
        # tensor orders: vector, second order, Voigt-like 6 -- nodal fields of generic values
        dV = np.asarray(region.dV)
        for lab, shape in (("scalar", ()), ("vector", (mesh.dim,)), ("tensor", (3, 3)), ("voigt", (6,))):
            size = int(np.prod(shape)) if shape else 1
            U = zoo.offarr(seed, 1600 + size, (n, size))
            fq = fem.Field(region, dim=size, values=U.copy()).interpolate().reshape(shape + dV.shape)
            got = fem.project(fq, region)
            c.trans += 1
            c.close(f"{lab}/identity", "projection of values stemming from a nodal field returns that field", got.reshape(n, size), U, scale=1.0)
            # (2) integral preservation for generic (non-FE) quadrature values
            V = zoo.offarr(seed, 1700 + size, shape + dV.shape)
            P = fem.project(V, region)
            c.trans += 1
            mrow = np.einsum("aqc,qc->ca", np.broadcast_to(region.h, (region.h.shape[0],) + dV.shape), dV)
            rowsum = np.zeros(n)
            np.add.at(rowsum, region.mesh.cells.ravel(), mrow.ravel())
            lhs = np.einsum("a...,a->...", P, rowsum)
            rhs = (V * dV).sum((-1, -2))
            c.close(f"{lab}/integral", "volume integral of the projected field = volume integral of the values", lhs, rhs, scale=max(np.abs(rhs).max(), 0.1 * float(dV.sum())))
        # the dV= argument (another measure: 2 pi R dV of an axisymmetric model, a weighted volume): call histories on ONE region,
        # every ordered sequence (<= 3) over three measures; each projection reproduces the nodal field and preserves the integral
        # in ITS measure, whatever was projected on this region object before
        if case["member"] in ("distorted", "block") and kind in ("quad", "hexahedron", "quad8", "triangle6", "tetra"):
            xq = np.einsum("aqc,caI->Iqc", np.broadcast_to(region.h, (region.h.shape[0],) + dV.shape), mesh.points[region.mesh.cells])
            measures = {"default": None, "2piR": 2 * np.pi * (xq[0] - xq[0].min() + 0.3) * dV, "weighted": (1.0 + 0.5 * np.sin(3.0 * xq[-1])) * dV}
            Uh = zoo.offarr(seed, 1650, (n, 2))
            fqh = fem.Field(region, dim=2, values=Uh.copy()).interpolate()
            Vh = zoo.offarr(seed, 1651, (2,) + dV.shape)
            nh = 0
            for depth in (1, 2, 3):
                for seq in itertools.product(measures, repeat=depth):
                    reg2 = proj_region(kind, mesh)
                    for step, ml in enumerate(seq):
                        kw_ = {} if measures[ml] is None else dict(dV=measures[ml])
                        got = fem.project(fqh, reg2, **kw_)
                        Pg = fem.project(Vh, reg2, **kw_)
                        c.trans += 2
                        if step < len(seq) - 1:
                            continue
                        lab_ = "dV-history=" + ">".join(seq)
                        c.close(lab_ + "/identity", "projection (with a dV= measure) of values stemming from a nodal field returns that field, after earlier projections with other measures on the same region", got, Uh, scale=1.0)
                        dVm = dV if measures[ml] is None else measures[ml]
                        mrow = np.einsum("aqc,qc->ca", np.broadcast_to(region.h, (region.h.shape[0],) + dV.shape), dVm)
                        rowsum = np.zeros(n)
                        np.add.at(rowsum, region.mesh.cells.ravel(), mrow.ravel())
                        c.close(lab_ + "/integral", "integral (in the given measure) of the projected field = integral of the values", np.einsum("a...,a->...", Pg, rowsum), (Vh * dVm).sum((-1, -2)), scale=max(np.abs((Vh * dVm).sum((-1, -2))).max(), 0.1 * float(dVm.sum())))
                    nh += 1
            c.outcomes.add(f"dV-histories={nh}")
        # discontinuous projection (average=False): per-cell least squares -> exact for FE data too
        got = fem.project(vq, region, average=False)
        c.trans += 1
        ref = np.eye(n)[region.mesh.cells.ravel()] if got.shape[0] == region.mesh.cells.size else None
        if ref is not None:
            c.close("identity/discontinuous", "project(average=False) of FE data returns the nodal values per cell", got, ref, scale=1.0)
        else:
            c.bad("identity/discontinuous/shape", "shape of the discontinuous projection", list(got.shape), [int(region.mesh.cells.size), n])
        # cell means
        gm = fem.project(zoo.offarr(seed, 1800, (2,) + dV.shape), region, mean=True)
        c.trans += 1
        Vm = zoo.offarr(seed, 1800, (2,) + dV.shape)
        w = np.asarray(region.quadrature.weights)
        cm = (Vm * w[:, None]).sum(-2) / w.sum()  # (2, c)
        refm = np.zeros((n, 2))
        cnt = np.zeros(n)
        for ci, cell in enumerate(region.mesh.cells):
            refm[cell] += cm[:, ci]
            cnt[cell] += 1
        c.close("mean", "project(mean=True): cell means (quadrature weights) averaged at the points", gm, refm / cnt[:, None], scale=1.0)
        # tensor-valued input (non-symmetric 3x3, and a 2x3 array): every component separately
        for tshape in ((3, 3), (2, 3), (3,)):
            Vt = zoo.offarr(seed, 1810 + len(tshape) + tshape[0], tshape + dV.shape)
            for fn_name in ("project", "extrapolate"):
                fn_ = fem.project if fn_name == "project" else fem.tools.extrapolate
                gt = fn_(Vt, region, mean=True)
                c.trans += 1
                cmt = (Vt * w[:, None]).sum(-2) / w.sum()  # tshape + (c,)
                reft = np.zeros((n,) + tshape)
                for ci, cell in enumerate(region.mesh.cells):
                    reft[cell] += cmt[..., ci]
                c.close(f"mean/{fn_name}/shape={tshape}", f"{fn_name}(mean=True) of tensor-valued data: cell means averaged at the points, component by component", gt, reft / cnt.reshape((n,) + (1,) * len(tshape)), scale=1.0)
        return c.result(dict(case=case["key"], points=int(n), quadrature_points=int(region.quadrature.npoints)))
    if op == "extrapolate":
        kind = case["kind"]
        mesh = zoo.make(kind, case["member"], seed)
        region = zoo.region(kind, mesh)
        n, d = mesh.npoints, mesh.dim
        # all unit nodal fields (multilinear in the reference coordinates of every cell)
        f = fem.Field(region, dim=n, values=np.eye(n))
        ex = fem.tools.extrapolate(f.interpolate(), region)
        c.trans += 1
        c.close("identity", "extrapolate(interpolate(u)) = u for every (multilinear) unit nodal field", ex, np.eye(n), scale=1.0)
        U = zoo.offarr(seed, 1900, (n, 3, 3))
        fq = fem.Field(region, dim=9, values=U.reshape(n, 9).copy()).interpolate().reshape((3, 3) + region.dV.shape)
        c.close("tensor", "extrapolate of second-order tensor values", fem.tools.extrapolate(fq, region), U, scale=1.0)
        # tensors of every order up to four (non-square, no symmetry): component (i, j, k, l) of the output belongs to component
        # (i, j, k, l) of the input
        for T in ((2,), (2, 3), (3, 2, 2), (2, 3, 2, 3), (3, 3, 3, 3)):
            UT = zoo.offarr(seed, 1901 + len(T), (n,) + T)
            nT = int(np.prod(T))
            fT = fem.Field(region, dim=nT, values=UT.reshape(n, nT).copy()).interpolate().reshape(T + region.dV.shape)
            for avg in (True, False):
                got_T = np.asarray(fem.tools.extrapolate(fT, region, average=avg))
                want_T = UT if avg else UT[mesh.cells.ravel()]
                c.trans += 1
                if got_T.shape != want_T.shape:
                    c.bad(f"tensor{T}/average={avg}/shape", "shape of extrapolated tensor values", list(got_T.shape), list(want_T.shape))
                    continue
                c.close(f"tensor{T}/average={avg}", f"extrapolate of values with tensor shape {T}: component-wise", got_T, want_T, scale=1.0)
        # not averaged: values per cell corner
        exd = fem.tools.extrapolate(f.interpolate(), region, average=False)
        c.close("discontinuous", "extrapolate(average=False) returns the nodal values per cell", exd, np.eye(n)[mesh.cells.ravel()], scale=1.0)
        return c.result(dict(case=case["key"], points=int(n)))
    if op == "topoints":
        kind = case["kind"]
        mesh = zoo.make(kind, case["member"], seed)
        region = zoo.region(kind, mesh)
        nq, nc = region.dV.shape
        n = mesh.npoints
        npc = mesh.cells.shape[1]
        cells = mesh.cells
        cpp = np.zeros(n)
        for cell in cells:
            cpp[cell] += 1
        # "shifted to the points" is a geometric statement: quadrature point a of the region's scheme is the one that lies
        # closest to cell point a (the index-wise reference below relies on it)
        if nq >= npc and nq > 1:
            qp_ = np.asarray(region.quadrature.points, float)
            ep_ = np.asarray(region.element.points, float)[:npc]
            near = np.array([int(np.argmin(np.linalg.norm(qp_ - e_, axis=1))) for e_ in ep_])
            c.trans += 1
            if not np.array_equal(near, np.arange(npc)):
                a_ = int(np.flatnonzero(near != np.arange(npc))[0])
                c.bad("point-order", "quadrature point a of the region's scheme is the one closest to cell point a (values are shifted to the points index by index)", dict(cell_point=a_, closest_quadrature_point=int(near[a_])), "same index")
        V = zoo.offarr(seed, 2000, (3, nq, nc))
        got = fem.topoints(V, region)
        c.trans += 1
        ref = np.zeros((n, 3))
        if nq == 1:
            for ci, cell in enumerate(cells):
                ref[cell] += V[:, 0, ci]
        else:
            for ci, cell in enumerate(cells):
                for a in range(min(npc, nq)):
                    ref[cell[a]] += V[:, a, ci]
        if nq >= npc or nq == 1:
            c.close("average", "topoints(average=True): mean over the attached cells", got, ref / cpp[:, None], scale=1.0)
        # every unit quadrature-point array (linearity): (q, c) units, checked in one batched call
        if nq >= npc or nq == 1:
            units = np.eye(nq * nc).reshape(nq * nc, nq, nc)
            gu = fem.topoints(units, region)  # (n, nq*nc)
            c.trans += 1
            refu = np.zeros((n, nq * nc))
            for ci, cell in enumerate(cells):
                for a in range(npc):
                    qa = 0 if nq == 1 else a
                    refu[cell[a], qa * nc + ci] += 1.0 / cpp[cell[a]]
            c.close("units", "topoints on every unit quadrature-point array", gu, refu, scale=1.0)
        gm = fem.topoints(V, region, mean=True)
        w = np.asarray(region.quadrature.weights)
        cm = (V * w[:, None]).sum(-2) / w.sum()
        refm = np.zeros((n, 3))
        for ci, cell in enumerate(cells):
            refm[cell] += cm[:, ci]
        c.close("mean", "topoints(mean=True): weighted cell means averaged at the points", gm, refm / cpp[:, None], scale=1.0)
        gd = fem.topoints(V, region, average=False)
        if nq >= npc:
            refd = np.stack([V[:, a, ci] for ci in range(nc) for a in range(npc)])
            c.close("discontinuous", "topoints(average=False): values per cell corner", gd, refd, scale=1.0)
        # tensor-valued quantities of every order (scalar, non-square and NON-SYMMETRIC second order, third order): each of the
        # three modes returns, per point (or per cell corner), the tensor itself -- component (i, j, ...) of the output belongs to
        # component (i, j, ...) of the values
        if nq >= npc or nq == 1:
            for T in ((), (2, 3), (3, 3), (2, 2, 3)):
                VT = zoo.offarr(seed, 2010 + len(T) + sum(T), T + (nq, nc))
                flat = VT.reshape((-1, nq, nc))
                k_ = flat.shape[0]
                ra, rm = np.zeros((n, k_)), np.zeros((n, k_))
                cmT = (flat * w[:, None]).sum(-2) / w.sum()
                for ci, cell in enumerate(cells):
                    for a in range(npc):
                        ra[cell[a]] += flat[:, 0 if nq == 1 else a, ci]
                    rm[cell] += cmT[:, ci]
                rd = np.stack([flat[:, 0 if nq == 1 else a, ci] for ci in range(nc) for a in range(npc)])
                for mlab, kw_, ref_ in (("average", dict(), ra / cpp[:, None]), ("mean", dict(mean=True), rm / cpp[:, None]), ("discontinuous", dict(average=False), rd), ("discontinuous-mean", dict(average=False, mean=True), np.stack([cmT[:, ci] for ci in range(nc) for a in range(npc)]))):
                    if mlab == "discontinuous" and nq == 1 and npc > 1:
                        continue
                    try:
                        g_ = np.asarray(fem.topoints(VT, region, **kw_))
                    except Exception as ex:  # noqa
                        c.bad(f"tensor{T}/{mlab}/exception", "topoints raised for tensor-valued input", repr(ex)[:160], "values")
                        continue
                    c.trans += 1
                    want = ref_.reshape((ref_.shape[0],) + T)
                    if g_.shape != want.shape:
                        c.bad(f"tensor{T}/{mlab}/shape", "shape of topoints output for tensor-valued input", list(g_.shape), list(want.shape))
                        continue
                    c.close(f"tensor{T}/{mlab}", f"topoints({kw_}) of values with tensor shape {T}: component-wise", g_, want, scale=1.0)
        # results of earlier calls stay valid: every ordered pair of calls (same region, same tensor size) over
        # {average, mean, discontinuous}; the first result is looked at again after the second call (increments between two
        # states are formed this way)
        if nq >= npc or nq == 1:
            V2 = zoo.offarr(seed, 2001, (3, nq, nc))
            modes = {"average": dict(), "mean": dict(mean=True), "discontinuous": dict(average=False)}
            for (m1, k1), (m2, k2) in itertools.product(modes.items(), repeat=2):
                first = fem.topoints(V, region, **k1)
                keep = np.array(first, copy=True)
                second = fem.topoints(V2, region, **k2)
                c.trans += 2
                c.traces += 1
                if not np.array_equal(np.asarray(first), keep):
                    c.bad(f"alias/{m1}>{m2}", "the array returned by an earlier topoints call changed when topoints was called again (shared result buffer)", float(np.abs(np.asarray(first) - keep).max()), 0)
        return c.result(dict(case=case["key"], points=int(n), cells_per_point_max=int(cpp.max())))
    if op == "stress":
        mk, fk, mat = case["mesh"], case["fk"], case["mat"]
        for amp in (0.0, 0.15):
            mesh, region, field = make_field(mk, "renum" if mk in ("hexahedron", "quad", "tetra") else "distorted", fk, seed)
            set_state(field, mesh, amp, seed)
            if mat == "NearlyIncompressibleBody":
                body = fem.SolidBodyNearlyIncompressible(fem.NeoHooke(mu=1.0), field, bulk=50.0)
            else:
                um, sv = material(mat, region)
                body = fem.SolidBody(um, field, statevars=sv)
            P = np.array(body.evaluate.gradient(field)[0], copy=True)
            F = field.extract()[0]
            tau = np.einsum("ijqc,kjqc->ikqc", P, F)
            J = np.linalg.det(np.moveaxis(F, (0, 1), (-2, -1)))
            c.trans += 3
            c.close(f"amp={amp}/kirchhoff", "Kirchhoff stress = P F^T", body.evaluate.kirchhoff_stress(field), tau)
            c.close(f"amp={amp}/cauchy", "Cauchy stress = P F^T / det F", body.evaluate.cauchy_stress(field), tau / J)
            c.close(f"amp={amp}/stress", "evaluate.stress = first Piola-Kirchhoff stress", body.evaluate.stress(field), P)
        return c.result(dict(case=case["key"]))
    if op == "stress-history":
        mk, fk, mat, depth = case["mesh"], case["fk"], case["mat"], case["depth"]
        mesh0 = zoo.make(mk, "strip", seed)  # 2 cells
        if fk == "axi":
            mesh0 = fem.Mesh(mesh0.points + np.array([0.0, 0.7]), mesh0.cells, mesh0.cell_type)
        region = zoo.region(mk, mesh0)
        Fcls = {"3d": fem.Field, "ps": fem.FieldPlaneStrain, "axi": fem.FieldAxisymmetric}[fk]

        def new_field():
            return fem.FieldContainer([Fcls(region, dim=mesh0.dim)])

        U = {}
        for name, (amp, sd) in dict(A=(0.15, seed), B=(0.1, seed + 1)).items():
            f = new_field()
            set_state(f, mesh0, amp, sd)
            U[name] = f[0].values.copy()
        um, sv = material(mat, region)
        ref = {}
        for name in "AB":
            f = new_field()
            f[0].values[:] = U[name]
            F = np.array(f.extract()[0], copy=True)
            P = np.array(um.gradient([F, sv])[0], dtype=float, copy=True)
            tau = np.einsum("ijqc,kjqc->ikqc", P, F)
            J = np.linalg.det(np.moveaxis(F, (0, 1), (-2, -1)))
            b = fem.SolidBody(um, f, statevars=sv)
            ref[name] = dict(P=P, tau=tau, sigma=tau / J, vec=b.assemble.vector(f).toarray(), mat=fem.SolidBody(um, f, statevars=sv).assemble.matrix(f).toarray())
        muts = [(st, call) for st in "AB" for call in ("vector", "matrix", "gradient", "hessian")] + [(None, "vector"), (None, "matrix")]
        observers = ["kirchhoff_stress", "cauchy_stress", "stress", "gradient"]
        nseq = 0
        for d_ in range(1, depth + 1):
            for seq in itertools.product(range(len(muts)), repeat=d_):
                if muts[seq[0]][0] is None:
                    continue  # the first call defines the state
                # the last d_ - 1 calls are replayed for every observer on a fresh body
                for obs in observers:
                    field = new_field()
                    body = fem.SolidBody(um, field, statevars=sv)
                    cur = None
                    ok = True
                    for k in seq:
                        st, call = muts[k]
                        if st is not None:
                            field[0].values[:] = U[st]
                            cur = st
                        arg = (field,) if st is not None else ()
                        r = getattr(body.assemble if call in ("vector", "matrix") else body.evaluate, call)(*arg)
                        c.trans += 1
                        if obs == observers[0] and call in ("vector", "matrix"):
                            want = ref[cur]["vec" if call == "vector" else "mat"]
                            c.traces += 1
                            if np.abs(r.toarray() - want).max() > 1e-11 * max(np.abs(want).max(), 1e-12):
                                ok = False
                                c.bad(f"seq={'.'.join((m[0] or '-') + m[1][0] for m in (muts[i] for i in seq))}/{call}", f"assembled {call} after this call history differs from a fresh body at the same state", float(np.abs(r.toarray() - want).max()), 0)
                                break
                    if not ok:
                        break
                    got = getattr(body.evaluate, obs)()
                    got = got[0] if isinstance(got, (list, tuple)) else got
                    want = ref[cur][{"kirchhoff_stress": "tau", "cauchy_stress": "sigma", "stress": "P", "gradient": "P"}[obs]]
                    c.trans += 1
                    c.traces += 1
                    c.states += 1
                    label = ".".join((m[0] or "-") + m[1][0] for m in (muts[i] for i in seq))
                    err = np.abs(np.asarray(got) - want).max() / max(np.abs(want).max(), 1e-12)
                    if not err <= 1e-11:
                        c.bad(f"seq={label}/{obs}()", f"evaluate.{obs}() without a field after the call history {label} (A/B = state passed, - = no field; v/m/g/h = vector/matrix/gradient/hessian) must be the stress of the last state the body was given", float(err), 0, 1e-11)
                    elif len(set(muts[i][0] for i in seq if muts[i][0])) > 1:
                        c.nontrivial.append(f"{label}/{obs}")
                nseq += 1
        c.outcomes.add(f"depth<={depth}")
        return c.result(dict(case=case["key"], call_sequences=nseq, alphabet=len(muts), observers=observers))
    if op == "view":
        mk, fk = case["mesh"], case["fk"]
        mesh, region, field = make_field(mk, "renum" if mk in ("hexahedron", "quad", "tetra") else "distorted", fk, seed)
        set_state(field, mesh, 0.15, seed)
        body = fem.SolidBody(fem.NeoHooke(mu=1.0, bulk=3.0), field)
        F = field.extract()[0]
        P = np.array(body.evaluate.gradient(field)[0], copy=True)
        tau = np.einsum("ijqc,kjqc->ikqc", P, F)
        J = np.linalg.det(np.moveaxis(F, (0, 1), (-2, -1)))
        voigt = [(0, 0), (1, 1), (2, 2), (0, 1), (1, 2), (0, 2)]
        # (every spelling of the stress type a caller may use -- solid.plot("Kirchhoff Stress") hands over the lower-case word;
        #  the labels are title-case in every case)
        for stype, S in (("Cauchy", tau / J), ("Kirchhoff", tau), (None, P), ("kirchhoff", tau), ("KIRCHHOFF", tau), ("cauchy", tau / J), ("CAUCHY", tau / J)):
            v = fem.ViewSolid(field, solid=body, stress_type=stype)
            cd = v.mesh.cell_data
            c.trans += 1
            label = f"{stype.title()} Stress" if stype else "Stress"
            if label not in cd.keys():
                c.bad(f"{stype}/label", "stress cell data label", sorted(cd.keys()), label)
                continue
            Sm = S.mean(-2)  # (3,3,c)
            if stype is not None:
                ref = np.stack([Sm[i, j] for i, j in voigt], axis=1)
                c.close(f"{stype}/voigt", f"cell data '{label}' = quadrature mean in Voigt order XX, YY, ZZ, XY, YZ, XZ", np.asarray(cd[label]), ref)
            w = np.linalg.eigvalsh(np.moveaxis(0.5 * (S + S.transpose(1, 0, 2, 3)), (0, 1), (-2, -1)))  # (q,c,3)
            if stype is not None:
                c.close(f"{stype}/principal", "principal values (ascending), quadrature mean", np.asarray(cd[f"Principal Values of {label}"]), w.mean(0))
                dev = S - np.trace(S) / 3 * np.eye(3)[:, :, None, None]
                vm = np.sqrt(1.5 * (dev * dev).sum((0, 1)))
                c.close(f"{stype}/von-mises", "equivalent (von Mises) value, quadrature mean", np.asarray(cd[f"Equivalent of {label}"]).ravel(), vm.mean(0))
        vf = fem.ViewField(field)
        cd = vf.mesh.cell_data
        c.trans += 1
        Fm = F.mean(-2).transpose(2, 0, 1)  # (c,3,3) row-major
        # pyvista stores arrays of matrices column-major ("VTK wants column major"): reading the 9 components back and
        # reshaping them gives the transposed matrix per cell
        c.close("field/F", "cell data 'Deformation Gradient' = quadrature mean of F (pyvista's column-major matrix storage)", np.asarray(cd["Deformation Gradient"]).reshape(-1, 3, 3).transpose(0, 2, 1), Fm)
        C = np.einsum("kiqc,kjqc->ijqc", F, F)
        w, V = np.linalg.eigh(np.moveaxis(C, (0, 1), (-2, -1)))
        lam = 0.5 * np.log(w)
        E = np.einsum("qca,qcia,qcja->ijqc", lam, V, V)
        ref = np.stack([E[0, 0], E[1, 1], E[2, 2], 2 * E[0, 1], 2 * E[1, 2], 2 * E[0, 2]]).mean(-2).T
        c.close("field/logstrain", "cell data 'Logarithmic Strain' (Voigt, doubled shear)", np.asarray(cd["Logarithmic Strain"]), ref)
        c.close("field/logstrain-principal", "cell data principal logarithmic strains (ascending)", np.asarray(cd["Principal Values of Logarithmic Strain"]), lam.mean(0))
        u = field[0].values
        c.close("field/displacement", "point data 'Displacement' (padded to 3D)", np.asarray(vf.mesh.point_data["Displacement"]), np.pad(u, ((0, 0), (0, 3 - u.shape[1]))), scale=max(np.abs(u).max(), 1e-12))
        # projected variant: point data, same tensors row-major
        if mk in ("hexahedron", "quad", "hexahedron20"):
            vp = fem.ViewSolid(field, solid=body, project=fem.project)
            pdp = vp.mesh.point_data
            Fp = fem.project(F, region)
            c.close("project/F", "projected 'Deformation Gradient' point data (same storage convention as the cell data)", np.asarray(pdp["Deformation Gradient"]).reshape(-1, 3, 3).transpose(0, 2, 1), Fp)
        # the caller keeps ONE dict of extra cell / point data and hands it to the views of two different states (and to both view
        # classes): every view reports the quantities of ITS state, the caller's dicts keep exactly their own items
        extra_c = {"Cell Volume": np.asarray(region.dV.sum(0))}
        extra_p = {"Point Id": np.arange(mesh.npoints, dtype=float)}
        U0 = field[0].values.copy()
        states = {"A": U0, "B": U0 * -0.5 + 0.01}
        for order in (("A", "B"), ("B", "A", "B")):
            ec, ep = dict(extra_c), dict(extra_p)
            for st_ in order:
                field[0].values[:] = states[st_]
                for vlab, mk_, kw_ in (("ViewSolid", lambda **k: fem.ViewSolid(field, solid=body, **k), {}), ("ViewField", lambda **k: fem.ViewField(field, **k), {}),
                                       ("ViewSolid/project", lambda **k: fem.ViewSolid(field, solid=body, project=fem.project, **k), {})):
                    if "project" in vlab and mk not in ("hexahedron", "quad", "hexahedron20"):
                        continue
                    v_user = mk_(cell_data=ec, point_data=ep)
                    v_ref = mk_()
                    c.trans += 2
                    for dname in ("cell_data", "point_data"):
                        du, dr = getattr(v_user.mesh, dname), getattr(v_ref.mesh, dname)
                        for kk in dr.keys():
                            if kk not in du.keys():
                                c.bad(f"shared-dict/{'>'.join(order)}/{st_}/{vlab}/{dname}/{kk}/missing", "item of a view missing when the caller passed extra data", sorted(du.keys()), kk)
                                continue
                            c.close(f"shared-dict/{'>'.join(order)}/{st_}/{vlab}/{dname}/{kk}", "view item of the current state when the caller's extra-data dict was already used for a view of another state", np.asarray(du[kk], float), np.asarray(dr[kk], float), scale=max(np.abs(np.asarray(dr[kk], float)).max(), 1e-9))
            if sorted(ec.keys()) != sorted(extra_c.keys()) or sorted(ep.keys()) != sorted(extra_p.keys()):
                c.bad(f"shared-dict/{'>'.join(order)}/caller-dict", "the caller's extra-data dicts were modified by creating views", [sorted(ec.keys()), sorted(ep.keys())], [sorted(extra_c.keys()), sorted(extra_p.keys())])
        field[0].values[:] = U0
        return c.result(dict(case=case["key"], cells=int(mesh.ncells)))
    if op == "view2d":
        mk = case["mesh"]
        for mlab, um in (("plane-stress", fem.LinearElasticPlaneStress(E=2.0, nu=0.3)), ("neo-hooke-2d", fem.NeoHooke(mu=1.0, bulk=3.0))):
            mesh, region, field = make_field(mk, "renum" if mk in ("quad", "triangle") else "distorted", "2d", seed)
            set_state(field, mesh, 0.15, seed)
            body = fem.SolidBody(um, field)
            F = field.extract()[0]
            P = np.array(body.evaluate.gradient(field)[0], copy=True)
            if P.shape[:2] != (2, 2):
                c.bad(f"{mlab}/shape", "stress of a solid on a plain 2D field", list(P.shape), "(2, 2, q, c)")
                continue
            tau = np.einsum("ijqc,kjqc->ikqc", P, F)
            J = np.linalg.det(np.moveaxis(F, (0, 1), (-2, -1)))
            # (on a plain 2D field the thickness stretch is unknown: felupe documents, with a warning, that the Cauchy stress
            #  falls back to the Kirchhoff stress there -- the harness follows the documentation)
            for stype, S in (("Cauchy", tau), ("Kirchhoff", tau), (None, P)):
                label = f"{stype} Stress" if stype else "Stress"
                S3 = np.zeros((3, 3) + S.shape[2:])
                S3[:2, :2] = S
                dev = S3 - np.trace(S3) / 3 * np.eye(3)[:, :, None, None]
                vm = np.sqrt(1.5 * (dev * dev).sum((0, 1)))  # von Mises value of the plane tensor embedded in 3D (zero out-of-plane row / column)
                for plab, proj in (("cell", None), ("project", fem.project)) + ((("extrapolate", fem.tools.extrapolate),) if mk == "quad" else ()):  # (extrapolation needs as many quadrature points as cell points)
                    v = fem.ViewSolid(field, solid=body, stress_type=stype, project=proj)
                    data = v.mesh.cell_data if proj is None else v.mesh.point_data
                    c.trans += 1
                    if f"Equivalent of {label}" not in data.keys():
                        c.bad(f"{mlab}/{stype}/{plab}/label", "view data labels", sorted(data.keys()), f"Equivalent of {label}")
                        continue
                    want = vm.mean(0) if proj is None else np.asarray(proj(vm, region)).ravel()
                    c.close(f"{mlab}/{stype}/{plab}/von-mises", "equivalent (von Mises) value of a 2 x 2 stress (embedded in 3D with a zero out-of-plane row / column)", np.asarray(data[f"Equivalent of {label}"]).ravel(), want)
                    if stype is not None:
                        vg = np.stack([S[0, 0], S[1, 1], S[0, 1]])
                        want = vg.mean(-2).T if proj is None else np.asarray(proj(vg, region))
                        c.close(f"{mlab}/{stype}/{plab}/voigt", "stress components XX, YY, XY", np.asarray(data[label])[:, :3], want)
                    if stype is not None and mlab != "plane-stress":  # (P F^T of the small-strain law is not symmetric)
                        w = np.linalg.eigvalsh(np.moveaxis(0.5 * (S + S.transpose(1, 0, 2, 3)), (0, 1), (-2, -1)))  # (q,c,2)
                        want = w.mean(0) if proj is None else np.asarray(proj(np.moveaxis(w, -1, 0), region))
                        c.close(f"{mlab}/{stype}/{plab}/principal", "principal values (ascending)", np.asarray(data[f"Principal Values of {label}"])[:, :2], want)
        return c.result(dict(case=case["key"], cells=int(mesh.ncells)))
    if op == "force":
        mk, fk = case["mesh"], case["fk"]
        for mixed in (False, True):
            if mixed and mk not in ("hexahedron", "quad"):
                continue
            mesh, region, field = make_field(mk, "renum" if mk in ("hexahedron", "quad", "tetra") else "distorted", fk, seed, mixed=mixed)
            set_state(field, mesh, 0.12, seed, 0.1, 1.03)
            um = fem.ThreeFieldVariation(fem.NeoHooke(mu=1.0, bulk=5.0)) if mixed else fem.NeoHooke(mu=1.0, bulk=5.0)
            body = fem.SolidBody(um, field)
            r = body.assemble.vector(field)
            d = mesh.dim
            fr = r.toarray()[: field.fieldsizes[0], 0].reshape(-1, d)
            x = mesh.points + field[0].values
            tw = zoo.make(mk, "block", seed)
            if mk in ("hexahedron", "quad", "tetra"):
                tw = zoo.renumber(tw, seed)
            for a in range(d):
                for side in ("min", "max"):
                    m = np.isclose(tw.points[:, a], getattr(tw.points[:, a], side)())
                    for blab, b in (("", fem.Boundary(field[0], mask=m)), ("/skip-first", fem.Boundary(field[0], mask=m, skip=(True, False, False)[:d])), ("/skip-others", fem.Boundary(field[0], mask=m, skip=(False, True, True)[:d]))):
                      side_ = side + blab  # (boundary objects that prescribe only some components select the same POINTS)
                      for form in ("sparse", "dense"):
                        rr = r if form == "sparse" else r.toarray()
                        got = fem.tools.force(field, rr, b)
                        c.trans += 1
                        c.close(f"mixed={mixed}/axis={a}/{side_}/{form}/force", "boundary force = sum of nodal forces over the boundary's points", got, fr[m].sum(0), scale=max(np.abs(fr).max(), 1e-12))
                        if d == 3:
                            cp = np.array([0.1, 0.2, 0.3])
                            gotm = fem.tools.moment(field, rr, b, centerpoint=cp)
                            c.close(f"mixed={mixed}/axis={a}/{side_}/{form}/moment", "boundary moment = sum of (x - c) x f over the boundary's points", gotm, np.cross(x[m] - cp, fr[m]).sum(0), scale=max(np.abs(fr).max(), 1e-12))
        # fields whose number of components differs from the mesh dimension (scalar fields, three components on a plane mesh,
        # two on a 3D mesh): one row of the force table per mesh point, field[0].dim columns
        from scipy import sparse as _sp

        for fdim in (1, 2, 3):
            tw = zoo.make(mk, "block", seed)
            if mk in ("hexahedron", "quad", "tetra"):
                tw = zoo.renumber(tw, seed)
            mesh = zoo.make(mk, "renum" if mk in ("hexahedron", "quad", "tetra") else "distorted", seed)
            if fdim == mesh.dim:
                continue
            region = zoo.region(mk, mesh)
            for extra in (False, True):  # (a second scalar field behind the first one)
                fields = [fem.Field(region, dim=fdim)] + ([fem.Field(region, dim=1)] if extra else [])
                fc_ = fem.FieldContainer(fields)
                n_ = int(sum(fc_.fieldsizes))
                vec = zoo.offarr(seed, 1950 + fdim, (n_,))
                fr = vec[: fc_.fieldsizes[0]].reshape(-1, fdim)
                for a in range(mesh.dim):
                    m = np.isclose(tw.points[:, a], tw.points[:, a].max())
                    b = fem.Boundary(fc_[0], mask=m)
                    for form, rr in (("dense-1d", vec), ("dense-col", vec.reshape(-1, 1)), ("sparse", _sp.csr_matrix(vec.reshape(-1, 1)))):
                        lab = f"field-dim={fdim}/mesh-dim={mesh.dim}/extra={extra}/axis={a}/{form}"
                        c.trans += 1
                        try:
                            got = fem.tools.force(fc_, rr, b)
                        except Exception as ex:  # noqa
                            c.bad(lab + "/exception", "tools.force raised for a field whose component count differs from the mesh dimension", repr(ex)[:160], "a force of field-dim components")
                            continue
                        if np.shape(got) != (fdim,):
                            c.bad(lab + "/shape", "boundary force has one entry per field component", np.shape(got), (fdim,))
                            continue
                        c.close(lab + "/force", "boundary force = sum of nodal forces over the boundary's points (one column per FIELD component)", got, fr[m].sum(0), scale=np.abs(fr).max())
        return c.result(dict(case=case["key"]))
    raise ValueError(op)
