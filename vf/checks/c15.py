"""C15 Load histories: ramps apply in order, history variables follow converged steps.

Explicit-state exploration of ramp histories on the REAL Step / Job / newtonrhapson: all
sequences over a load alphabet up to a depth, split into one or two steps in every way, for
items with and without state variables, with a failure injected at every position (a ramped
poison item answering NaN or never converging, and a real non-solvable increment).  Every
history is executed from scratch (live felupe objects are rebuilt, not copied), visited states
are canonicalised as (last load value, committed state, field) and the reference history model
(running maximum, path independence, monotone hardening) is evaluated in every state.
"""

import itertools
import warnings

import numpy as np

from .. import env, zoo

ID = "C15"
RULE = (
    "case = (model, item kind, ramped object, history prefix); inside a case every load history with that prefix "
    "up to the depth bound x every split into steps x every failure position/kind is executed on the real Job; "
    "per substep: applied value = i-th ramp value (boundary displacement / item attribute / probe item), start "
    "field = previous result, one result per converged substep and none after a failure (exception propagated), "
    "committed state = update at the converged iterate from the previous committed state, unchanged by a failing "
    "substep; differential oracles over canonical states: path independence (elastic), stored maximum energy = "
    "running maximum, primary path = base material, reloading retraces unloading, yield condition and monotone "
    "equivalent plastic strain."
)
ASSUMPTIONS = [
    "Homogeneous uniaxial models (1 and 2 hexahedra) so that the checker can recompute energies and yield functions from the converged deformation gradient.",
    "Path independence / retracing are judged at 1e-6 relative (Newton tolerance 1.5e-8).",
    "The poison item is a ramped duck-typed item (vf/env.py) which answers NaN or a constant non-zero residual in the substeps where its ramp value is 1.",
]
A, B = 0.15, 0.3
ALPHABET = [0.0, A, B, -A, A]  # a appears twice: repeated values are part of the alphabet


def BOUNDS(tier):
    return {"alphabet": ALPHABET, "depth": 4 if tier == "thorough" else 3, "steps": "1..2 (every split)", "failure_positions": "every position", "failure_kinds": ["nan", "never", "real"],
            "material_points": "two points in one array x all pairs of stretch histories (4 stretches, depth 3) x layouts (2,1)/(1,2)",
            "models": "1 cell, 2 cells (thorough) homogeneous; clamped 2x2x1 block (plasticity, yielding and elastic points in one state)"}


ITEMS = ["NeoHooke", "OgdenRoxburgh", "tt-OgdenRoxburgh", "plasticity", "tt-visco"]
RAMPED = ["boundary", "pressure", "pointload", "formitem", "bodyforce", "gravity"]  # (bodyforce / gravity: created with INTEGER zeros, ramped with floats)


def plan(tier, seed):
    cases = []
    depth = 4 if tier == "thorough" else 3
    for model in (("1cell", "2cell") if tier == "thorough" else ("1cell",)):
        for item in ITEMS:
            for first in range(len(ALPHABET)):
                cases.append(dict(key=f"history/{model}/{item}/first={first}", kind="history", model=model, item=item, first=first, depth=depth, seed=seed, cost=20))
    # inhomogeneous plasticity (clamped end faces: yielding and elastic quadrature points in the same evaluation)
    for first in range(len(ALPHABET)):
        cases.append(dict(key=f"history/clamped/plasticity/first={first}", kind="history", model="clamped", item="plasticity", first=first, depth=depth, seed=seed, cost=40))
    # inhomogeneous pseudo-elasticity (the points reach their own energy maxima in different substeps: tension / compression)
    for item in ("OgdenRoxburgh", "tt-OgdenRoxburgh"):
        for first in range(len(ALPHABET)):
            cases.append(dict(key=f"history/clamped/{item}/first={first}", kind="history", model="clamped", item=item, first=first, depth=depth, seed=seed, cost=40))
    for item in ITEMS[1:]:
        for first in range(len(STRETCH) ** 2):
            cases.append(dict(key=f"points/{item}/first={first}", kind="points", item=item, first=first, depth=3, seed=seed, cost=3))
    cases.append(dict(key="curve-records", kind="curve", seed=seed, depth=depth, cost=15))
    cases.append(dict(key="ramp-tables/linsteps", kind="linsteps", seed=seed, depth=depth, cost=2))
    for ramped in RAMPED[1:]:
        cases.append(dict(key=f"ramped/{ramped}", kind="ramped", ramped=ramped, seed=seed, depth=3, cost=10))
    return cases


class Ctx:
    def __init__(self, key):
        self.key = key
        self.viol, self.nontrivial, self.outcomes, self.notes = [], [], set(), []
        self.trans = self.traces = 0
        self.seen = {}

    def bad(self, sub, what, obs, exp, tol=0):
        if len(self.viol) < 50:
            self.viol.append(dict(key=f"{self.key}/{sub}", what=what, observed=obs, expected=exp, tol=tol))

    def result(self, sample):
        return dict(viol=self.viol, states=len(self.seen), transitions=self.trans, traces=self.traces, nontrivial=self.nontrivial, outcomes=sorted(self.outcomes),
                    sample=sample, notes=self.notes, digest=f"{len(self.seen)}/{self.traces}/{len(self.viol)}")


class Poison:
    """ramped duck-typed item: passive unless its current ramp value is 1 (NaN) or 2 (never converging)"""

    def __init__(self, field, dof1):
        from felupe.mechanics._helpers import Assemble, Results

        self.field = field
        self.dof1 = dof1
        self.mode = 0
        self.results = Results()
        self.results.statevars = np.array([0.0])
        self.assemble = Assemble(vector=self._vector, matrix=self._matrix)
        self.updates = []
        self.first_x = []
        self._fresh = False

    def update(self, value):
        self.mode = int(value)
        self.updates.append(int(value))
        self._fresh = True

    def _vector(self, field=None, parallel=False):
        from scipy.sparse import csr_matrix

        if field is not None:
            self.field = field
        if self._fresh:  # first residual evaluation of this substep: the start state of the Newton solve
            self.first_x.append(np.concatenate([f.values.ravel() for f in self.field.fields]).copy())
            self._fresh = False
        n = int(sum(self.field.fieldsizes))
        r = np.zeros(n)
        if self.mode == 1:
            r[self.dof1[0]] = np.nan
        elif self.mode == 2:
            # never converging: the residual flips its sign at every evaluation, the body cannot balance it
            self.flip = -getattr(self, "flip", 1.0)
            r[self.dof1[0]] = self.flip
        self.results._statevars = np.array([self.results.statevars[0] + 1.0])
        return csr_matrix(r.reshape(-1, 1))

    def _matrix(self, field=None, parallel=False):
        from scipy.sparse import csr_matrix

        n = int(sum(self.field.fieldsizes))
        return csr_matrix((n, n))


def build(model, item):
    import felupe as fem
    import felupe.constitution as C

    mesh = fem.Cube(n=2) if model == "1cell" else (fem.Cube(a=(0, 0, 0), b=(2, 1, 1), n=(3, 2, 2)) if model == "2cell" else fem.Cube(a=(0, 0, 0), b=(1.5, 1, 1), n=(3, 3, 2)))
    region = fem.RegionHexahedron(mesh)
    field = fem.FieldContainer([fem.Field(region, dim=3)])
    base = None
    if item == "NeoHooke":
        um = fem.NeoHooke(mu=1.0, bulk=5.0)
    elif item == "OgdenRoxburgh":
        base = fem.NeoHooke(mu=1.0, bulk=5.0)
        um = fem.OgdenRoxburgh(base, r=3.0, m=1.0, beta=0.1)
    elif item == "tt-OgdenRoxburgh":
        base = fem.Hyperelastic(C.neo_hooke, mu=1.0) & C.Volumetric(bulk=5.0)
        um = fem.Hyperelastic(C.ogden_roxburgh, material=C.neo_hooke, r=3.0, m=1.0, beta=0.1, mu=1.0, nstatevars=1) & C.Volumetric(bulk=5.0)
    elif item == "plasticity":
        um = fem.LinearElasticPlasticIsotropicHardening(E=2.0, nu=0.3, sy=0.2, K=0.4)
    elif item == "tt-visco":
        um = fem.Hyperelastic(C.finite_strain_viscoelastic, mu=1.0, eta=1.0, dtime=1.0, nstatevars=6) & C.Volumetric(bulk=5.0)
    body = fem.SolidBody(um, field)
    L = float(mesh.points[:, 0].max())
    if model == "clamped":
        L = 0.65 * L  # mean strain of the alphabet value A below the yield strain: only the stress concentrations yield
    bounds, lc = fem.dof.uniaxial(field, clamped=(model == "clamped"), move=0.0, axis=0, sym=(model != "clamped"))
    return mesh, region, field, um, base, body, bounds, lc, L


def energy_of(item, um, base, F):
    if item == "OgdenRoxburgh":
        return base.function([F, None])[0]
    if item == "tt-OgdenRoxburgh":
        import felupe.constitution as C
        import tensortrax as tr

        Cg = np.einsum("ki...,kj...->ij...", F, F)
        return tr.function(C.neo_hooke, wrt=0, ntrax=2)(np.ascontiguousarray(Cg), mu=1.0)
    return None


_REAL = {}


def real_failure(model, item, scaled, maxiter):
    """index of the first substep of this load history that the real Newton solver cannot solve on its own (plain loop of
    newtonrhapson calls on a fresh body, no Step/Job, no poison item), or None; decides whether a missing result is a
    genuine non-convergence of the input (the property speaks about converged substeps only) or a protocol violation"""
    import felupe as fem

    k = (model, item, tuple(scaled), maxiter)
    if k not in _REAL:
        mesh, region, field, um, base, body, bounds, lc, L = build(model, item)
        out = None
        for i, v in enumerate(scaled):
            bounds["move"].update(v)
            ext0 = fem.dof.apply(field, bounds, lc["dof0"])
            try:
                res = fem.newtonrhapson(items=[body], dof0=lc["dof0"], dof1=lc["dof1"], ext0=ext0, maxiter=maxiter, verbose=False)
                ok = bool(res.success)
            except Exception:  # noqa
                ok = False
            if not ok:
                out = i
                break
        _REAL[k] = out
    return _REAL[k]


def run_history(case):
    import felupe as fem

    warnings.simplefilter("ignore")
    c = Ctx(case["key"])
    item, model = case["item"], case["model"]
    depth = case["depth"]
    first = case["first"]
    histories = []
    for n in range(1, depth + 1):
        for tail in itertools.product(range(len(ALPHABET)), repeat=n - 1):
            histories.append((first,) + tail)
    elastic_states = {}  # last value -> field (path independence)
    or_states = {}  # (value, Wmax) -> field (retracing)
    for hist in histories:
        vals = [ALPHABET[i] for i in hist]
        n = len(vals)
        splits = [None] + list(range(1, n)) + (["reuse"] if (n >= 3 and hist[0] == hist[2]) else [])
        fails = [(None, None)] + [(p, k) for p in range(n) for k in ("nan", "never")] + ([(n - 1, "real")] if item in ("NeoHooke",) else [])
        for split in splits + ["stateless-first"]:
            for (fpos, fkind) in (fails if split is None else (fails[:1] if split in ("reuse", "stateless-first") else fails[:1] + [f for f in fails[1:] if f[1] == "nan"])):
                mesh, region, field, um, base, body, bounds, lc, L = build(model, item)
                poison = Poison(field, lc["dof1"])
                # ("stateless-first": the item list starts with an item that carries no state variables -- a point load of zero --
                #  and the probe item comes before the body as well; the step is otherwise the undivided one)
                order_first = split == "stateless-first"
                if order_first:
                    split = None
                pv = [0] * n
                moves = list(vals)
                if fkind == "nan":
                    pv[fpos] = 1
                elif fkind == "never":
                    pv[fpos] = 2
                elif fkind == "real":
                    moves[fpos] = -1.5 * L  # inverts the body: no solution
                scaled = [m * L for m in moves] if fkind != "real" else [m * L if i != fpos else moves[i] for i, m in enumerate(moves)]
                items = [body, poison]
                if order_first:
                    items = [fem.PointLoad(field, [0], values=np.zeros(3)), poison, body]
                if split is None:
                    steps = [fem.Step(items, ramp={bounds["move"]: scaled, poison: pv}, boundaries=bounds)]
                elif split == "reuse":
                    # the SAME Step object is generated twice (values 0 and 2 of the history are equal), another step in between
                    s0 = fem.Step(items, ramp={bounds["move"]: scaled[:1], poison: pv[:1]}, boundaries=bounds)
                    s1 = fem.Step(items, ramp={bounds["move"]: scaled[1:2], poison: pv[1:2]}, boundaries=bounds)
                    steps = [s0, s1, s0] + ([fem.Step(items, ramp={bounds["move"]: scaled[3:], poison: pv[3:]}, boundaries=bounds)] if n > 3 else [])
                else:
                    steps = [fem.Step(items, ramp={bounds["move"]: scaled[:split], poison: pv[:split]}, boundaries=bounds),
                             fem.Step(items, ramp={bounds["move"]: scaled[split:], poison: pv[split:]}, boundaries=bounds)]
                got = []
                committed = [np.array(body.results.statevars, copy=True)]

                def cb(j, i, substep, got=got, committed=committed, body=body):
                    got.append((j, i, np.concatenate([f.values.ravel() for f in substep.x.fields]).copy()))
                    committed.append(np.array(body.results.statevars, copy=True))

                job = fem.Job(steps, callback=cb)
                raised = None
                try:
                    job.evaluate(verbose=False, maxiter=8)
                except Exception as e:  # noqa
                    raised = e
                c.trans += n
                c.traces += 1
                sub = f"hist={list(hist)}/split={split if not order_first else 'stateless-first'}/fail={fpos},{fkind}"
                expect_ok = n if fpos is None else fpos
                if fkind == "real" and raised is None:
                    # a non-physical increment may still have a (non-physical) root: then the history is a clean one
                    expect_ok, fpos_eff = n, None
                    c.outcomes.add("real-increment-converged")
                else:
                    fpos_eff = fpos
                if len(got) < expect_ok and raised is not None and fkind != "real":
                    # fewer results than the injected failures explain: is an earlier substep of this history beyond what the
                    # real solver can solve at all (e.g. a single 15 % compression step of the two-cell viscoelastic column
                    # diverges)?  Then that substep is the first failure of the history.
                    rf = real_failure(model, item, scaled, 8)
                    if rf is not None and rf == len(got):
                        expect_ok, fpos_eff, fkind = rf, rf, "nonconvergence"
                        c.outcomes.add("genuine-nonconvergence")
                if len(got) != expect_ok:
                    c.bad(sub + "/results", "number of yielded results (one per converged substep, none after the first failure)", len(got), expect_ok)
                    continue
                if (raised is None) != (fpos_eff is None):
                    c.bad(sub + "/exception", "a failing substep must raise; a clean history must not", repr(raised)[:100], "raise" if fpos_eff is not None else "no exception")
                    continue
                c.outcomes.add("ok" if fpos_eff is None else f"fail:{fkind}")
                c.nontrivial.append(sub)
                # (2) i-th result carries the i-th ramp value; poison saw its ramp in order
                mp = bounds["move"].points
                for i, (j, ii, x) in enumerate(got):
                    ux = x.reshape(-1, 3)[mp, 0]
                    if not np.array_equal(ux, np.full(len(mp), scaled[i])):
                        c.bad(sub + f"/value{i}", "prescribed displacement of substep i must be the i-th ramp value", ux.tolist()[:2], scaled[i])
                    if split == "reuse":
                        exp_ji = (i, 0) if i < 3 else (3, i - 3)
                    else:
                        exp_ji = (0, i) if split is None else ((0, i) if i < split else (1, i - split))
                    if (j, ii) != exp_ji:
                        c.bad(sub + f"/numbering{i}", "step / substep numbers passed to the callback", [j, ii], list(exp_ji))
                nseen = len(got) + (1 if fpos_eff is not None else 0)
                if poison.updates != pv[:nseen]:
                    c.bad(sub + "/ramp-order", "ramped item must receive its values in order, one per substep", poison.updates, pv[:nseen])
                # (3) each solve starts from the previous result
                prev = np.zeros_like(got[0][2]) if got else None
                for i in range(min(nseen, len(poison.first_x))):
                    start = poison.first_x[i]
                    ref = np.zeros_like(start) if i == 0 else got[i - 1][2]
                    # prescribed dofs are set by the first update, the free ones must be the previous result
                    d1 = lc["dof1"]
                    if not np.array_equal(start[d1], ref[d1]):
                        c.bad(sub + f"/start{i}", "substep must start from the previous converged field", float(np.abs(start[d1] - ref[d1]).max()), 0)
                # (4)/(5) committed history variables
                sv_after = committed[-1]
                if not np.array_equal(np.asarray(body.results.statevars), sv_after):
                    c.bad(sub + "/commit-on-failure", "state variables changed by a failing substep", "changed", "unchanged")
                for i, (j, ii, x) in enumerate(got):
                    f2 = field.copy()
                    f2[0].values = x.reshape(-1, 3)
                    F = f2.extract()[0]
                    trial = um.gradient([F, committed[i]])[-1]
                    if trial is not None and np.asarray(trial).size:
                        e = np.abs(np.asarray(trial) - committed[i + 1]).max() / max(1.0, np.abs(np.asarray(trial)).max())
                        if e > 1e-9:
                            c.bad(sub + f"/commit{i}", "committed state after substep i must be the update at its converged iterate from the previous committed state", float(e), 0, 1e-9)
                # canonical state + differential oracles (clean histories only)
                if fpos_eff is None:
                    x = got[-1][2]
                    sv = committed[-1]
                    key = (round(vals[-1], 9), tuple(np.round(sv.ravel()[:8], 6)), tuple(np.round(x[:12], 6)))
                    c.seen[key] = c.seen.get(key, 0) + 1
                    if item == "NeoHooke":
                        k2 = round(vals[-1], 9)
                        if k2 in elastic_states:
                            e = np.abs(elastic_states[k2] - x).max() / max(np.abs(x).max(), 1e-2)
                            if e > 1e-6:
                                c.bad(sub + "/path-independence", "elastic body: final state must not depend on the load path", float(e), 0, 1e-6)
                        else:
                            elastic_states[k2] = x
                    if item in ("OgdenRoxburgh", "tt-OgdenRoxburgh"):
                        Ws = []
                        for (j, ii, xx) in got:
                            f2 = field.copy()
                            f2[0].values = xx.reshape(-1, 3)
                            Ws.append(np.asarray(energy_of(item, um, base, f2.extract()[0]), float))
                        run_max = np.zeros_like(Ws[0])
                        for i, W in enumerate(Ws):
                            run_max = np.maximum(run_max, W)
                            st = np.asarray(committed[i + 1])[0]
                            e = np.abs(st - run_max).max() / max(run_max.max(), 1e-9)
                            if e > 1e-8:
                                c.bad(sub + f"/wmax{i}", "stored maximum energy must be the running maximum over the history", float(e), 0, 1e-8)
                        # primary loading: last state is at the running maximum -> response of the base material
                        if np.all(Ws[-1] >= run_max - 1e-12):
                            f2 = field.copy()
                            f2[0].values = got[-1][2].reshape(-1, 3)
                            rb = fem.SolidBody(base, f2).assemble.vector(f2).toarray()[:, 0]
                            ro = fem.SolidBody(um, f2, statevars=committed[-2]).assemble.vector(f2).toarray()[:, 0]
                            e = np.abs(rb - ro).max() / max(np.abs(rb).max(), 1e-9)
                            if e > 1e-9:
                                c.bad(sub + "/primary", "on the primary loading path the response equals the base material", float(e), 0, 1e-9)
                        k3 = (round(vals[-1], 9), tuple(np.round(np.asarray(committed[-1]).ravel()[:4], 7)))
                        if k3 in or_states:
                            e = np.abs(or_states[k3] - x).max() / max(np.abs(x).max(), 1e-2)
                            if e > 1e-6:
                                c.bad(sub + "/retrace", "same load and same stored maximum must give the same state (reloading retraces unloading)", float(e), 0, 1e-6)
                        else:
                            or_states[k3] = x
                    if item == "plasticity":
                        mu_, K_, sy_ = 2.0 / (2 * 1.3), 0.4, 0.2
                        for i in range(len(got)):
                            sv_i = np.asarray(committed[i + 1])
                            alpha = sv_i[0]
                            stress = sv_i[-9:].reshape(3, 3, *sv_i.shape[1:])
                            s = stress - np.trace(stress) / 3 * np.eye(3).reshape(3, 3, 1, 1)
                            f = np.sqrt((s * s).sum((0, 1))) - np.sqrt(2 / 3) * (sy_ + K_ * alpha)
                            if f.max() > 1e-9:
                                c.bad(sub + f"/yield{i}", "yield condition f <= 0 after the update", float(f.max()), "<= 0", 1e-9)
                            if (alpha > 1e-12).any() and (alpha <= 1e-12).any():
                                c.outcomes.add("plastic-and-elastic-points-in-one-state")
                            if (alpha < -1e-14).any():
                                c.bad(sub + f"/alpha-negative{i}", "equivalent plastic strain must not be negative", float(alpha.min()), ">= 0")
                            if (alpha < np.asarray(committed[i])[0] - 1e-12).any():
                                c.bad(sub + f"/alpha{i}", "equivalent plastic strain must not decrease", float((alpha - np.asarray(committed[i])[0]).min()), ">= 0")
    return c.result(dict(case=case["key"], histories=len(histories), example=[ALPHABET[i] for i in histories[-1]]))


def run_ramped(case):
    import felupe as fem
    from felupe.math import ddot, dot, grad

    warnings.simplefilter("ignore")
    c = Ctx(case["key"])
    ramped = case["ramped"]
    vals_alpha = [0.0, 0.02, 0.05, -0.02, 0.02]
    for hist in itertools.product(range(len(vals_alpha)), repeat=case["depth"]):
        vals = [vals_alpha[i] for i in hist]
        for split in (None, 1, 2):
            mesh = fem.Cube(n=2)
            region = fem.RegionHexahedron(mesh)
            field = fem.FieldContainer([fem.Field(region, dim=3)])
            body = fem.SolidBody(fem.NeoHooke(mu=1.0, bulk=5.0), field)
            bounds = fem.dof.symmetry(field[0])
            seen = []
            if ramped == "pressure":
                rb = fem.RegionHexahedronBoundary(mesh, mask=mesh.points[:, 0] == 1)
                fb = fem.FieldContainer([fem.Field(rb, dim=3)])
                load = fem.SolidBodyPressure(fb)
                get = lambda: float(load.results.pressure)  # noqa
            elif ramped == "pointload":
                load = fem.PointLoad(field, [int(np.where(np.all(mesh.points == 1, axis=1))[0][0])])
                get = lambda: load.values  # noqa
            elif ramped == "bodyforce":
                load = fem.SolidBodyForce(field, values=[0, 0, 0], scale=10.0)
                get = lambda: np.asarray(load.results.values, dtype=float)  # noqa
            elif ramped == "gravity":
                load = fem.SolidBodyGravity(field, gravity=[0, 0, 0], density=10.0)
                get = lambda: np.asarray(load.results.gravity, dtype=float)  # noqa
            else:
                @fem.Form(v=field)
                def L():
                    return [lambda v, amplitude, **kw: -amplitude * v[0]]

                load = fem.FormItem(linearform=L, kwargs={"amplitude": 0.0})
                get = lambda: float(load.kwargs["amplitude"])  # noqa
            rv = [np.array([v, 0.0, 0.0]) for v in vals] if ramped in ("pointload", "bodyforce", "gravity") else vals
            if split is None:
                steps = [fem.Step([body, load], ramp={load: rv}, boundaries=bounds)]
            else:
                steps = [fem.Step([body, load], ramp={load: rv[:split]}, boundaries=bounds), fem.Step([body, load], ramp={load: rv[split:]}, boundaries=bounds)]

            def cb(j, i, substep):
                g = get()
                seen.append((np.array(g, copy=True), np.concatenate([f.values.ravel() for f in substep.x.fields]).copy()))

            fem.Job(steps, callback=cb).evaluate(verbose=False)
            c.trans += len(vals)
            c.traces += 1
            sub = f"hist={list(hist)}/split={split}"
            c.nontrivial.append(sub)
            if len(seen) != len(vals):
                c.bad(sub + "/results", "one result per substep", len(seen), len(vals))
                continue
            for i, (g, x) in enumerate(seen):
                if not np.array_equal(np.asarray(g), np.asarray(rv[i])):
                    c.bad(sub + f"/value{i}", "ramped item attribute during substep i", np.asarray(g).tolist(), np.asarray(rv[i]).tolist())
            # elastic: the state depends on the last value only
            key = round(vals[-1], 9)
            x = seen[-1][1]
            if key in c.seen:
                e = np.abs(c.seen[key] - x).max() / max(np.abs(x).max(), 1e-2)
                if e > 1e-6:
                    c.bad(sub + "/path-independence", "elastic body under a ramped load: state depends on the last value only", float(e), 0, 1e-6)
            else:
                c.seen[key] = x
            # zero load -> zero displacement, load sign -> displacement sign of the loaded face
            if vals[-1] == 0.0 and np.abs(x).max() > 1e-7:
                c.bad(sub + "/unloaded", "zero load must give the undeformed state", float(np.abs(x).max()), 0, 1e-7)
    return c.result(dict(case=case["key"], histories=len(vals_alpha) ** case["depth"]))


def run_curve(case):
    """what a CharacteristicCurve job RECORDS along a history: every history (depth <= 3) x {one step, split after the first
    substep} x {body's own container, separate top-level container x0 carrying the boundaries}: one record per substep, the
    i-th abscissa is the i-th ramp value, the callback sees the same substep, equal abscissae give equal forces (elastic)"""
    import felupe as fem

    warnings.simplefilter("ignore")
    c = Ctx(case["key"])
    for n in range(1, min(case["depth"], 3) + 1):
        for hist in itertools.product(range(len(ALPHABET)), repeat=n):
            vals = [ALPHABET[i] for i in hist]
            for split in ([None] if n == 1 else [None, 1]):
                for usex0 in (False, True):
                    mesh = fem.Cube(n=2)
                    region = fem.RegionHexahedron(mesh)
                    field = fem.FieldContainer([fem.Field(region, dim=3)])
                    body = fem.SolidBody(fem.NeoHooke(mu=1.0, bulk=5.0), field)
                    top = fem.FieldContainer([fem.Field(region, dim=3)]) if usex0 else field
                    bounds, lc = fem.dof.uniaxial(top, clamped=False, move=0.0, axis=0, sym=True)
                    parts = [vals] if split is None else [vals[:split], vals[split:]]
                    steps = [fem.Step([body], ramp={bounds["move"]: list(pt)}, boundaries=bounds) for pt in parts]
                    seen, iters_ = [], []

                    def cb(j, i, substep, seen=seen, iters_=iters_):
                        seen.append(float(substep.x[0].values[bounds["move"].points[0], 0]))
                        iters_.append(int(substep.iterations))

                    job = fem.CharacteristicCurve(steps=steps, boundary=bounds["move"], callback=cb)
                    job.evaluate(verbose=False, **(dict(x0=top) if usex0 else {}))
                    c.trans += n
                    c.traces += 1
                    sub = f"hist={list(hist)}/split={split}/x0={'separate' if usex0 else 'own'}"
                    if len(job.x) != n or len(job.y) != n or len(seen) != n:
                        c.bad(sub + "/records", "one curve record and one callback per converged substep", [len(job.x), len(job.y), len(seen)], n)
                        continue
                    xs = [float(np.ravel(x)[0]) for x in job.x]
                    if xs != vals:
                        c.bad(sub + "/abscissa", "the i-th recorded abscissa is the i-th ramp value", xs, vals)
                    if seen != vals:
                        c.bad(sub + "/callback", "the callback of substep i sees the i-th ramp value on the moved boundary", seen, vals)
                    ys = [float(np.ravel(y)[0]) for y in job.y]
                    for i in range(n):
                        for k in range(i):
                            if vals[i] == vals[k] and abs(ys[i] - ys[k]) > 1e-6 * max(abs(ys[i]), 1e-3):
                                c.bad(sub + f"/force{k},{i}", "equal prescribed displacement gives equal recorded force (elastic body)", [ys[k], ys[i]], "equal", 1e-6)
                    # every substep starts from the previous converged state: a substep that repeats the load level of its
                    # predecessor starts in equilibrium (one Newton iteration), and the iteration counts do not depend on whether
                    # the unknowns live in the body's own container or in a separate top-level container x0
                    for i in range(1, n):
                        if vals[i] == vals[i - 1] and iters_[i] != 1:
                            c.bad(sub + f"/restart-from-converged/substep{i}", "a substep that repeats the previous load level starts from the converged state (one iteration)", iters_[i], 1)
                    ikey = f"hist={list(hist)}/split={split}"
                    if ikey in c.seen and c.seen[ikey] != iters_:
                        c.bad(sub + "/iterations-own-vs-x0", "Newton iterations per substep: own container vs separate top-level container x0", iters_, c.seen[ikey])
                    c.seen[ikey] = list(iters_)
                    c.nontrivial.append(sub)
                    c.seen[sub] = 1
    return c.result(dict(case=case["key"]))


STRETCH = [1.0, 1.25, 1.6, 0.8]


def run_points(case):
    """history variables are per quadrature point: two material points evaluated in ONE array (as (q=2, c=1) and as
    (q=1, c=2)), every pair of per-point stretch histories over the stretch alphabet up to the depth (the vector alphabet is
    the square of the scalar one, so one point re-loads below its own maximum while the other is on its primary path and vice
    versa) -- stress, tangent and updated state of each point must equal those of the same point evaluated alone with its own
    history (differential oracle on the real material, built from the shared prefix tree), and for the pseudo-elastic
    models the stored value is the per-point running maximum and the primary path is the base material"""
    import felupe as fem
    import felupe.constitution as C

    warnings.simplefilter("ignore")
    c = Ctx(case["key"])
    item = case["item"]
    _, _, _, um, base, _, _, _, _ = build("1cell", item)
    nsv = tuple(um.x[-1].shape)
    k = len(STRETCH)
    sh = 0.05 + 0.02 * zoo.offs(case["seed"], 3)

    def defgrad(lams, shape):
        lam = np.asarray(lams, float).reshape(shape)
        F = np.zeros((3, 3) + shape)
        F[0, 0] = lam
        F[1, 1] = F[2, 2] = 1 / np.sqrt(lam)
        F[0, 1] = sh * (lam - 1.0)
        return F

    single = {(): np.zeros(nsv + (1, 1))}  # scalar history -> state of one point evaluated alone
    sres = {}

    def single_eval(h):
        if h not in sres:
            F = defgrad([STRETCH[h[-1]]], (1, 1))
            P, sv = um.gradient([F, single[h[:-1]].copy()])[:2]
            A = um.hessian([F, single[h[:-1]].copy()])[0]
            single[h] = np.array(sv, copy=True)
            sres[h] = (np.array(P, copy=True), np.array(A, copy=True))
        return sres[h] + (single[h],)

    for n in range(1, case["depth"] + 1):
        for h in itertools.product(range(k), repeat=n):
            single_eval(h)
    first = case["first"]
    for shape in ((2, 1), (1, 2)):
        state = {(): np.zeros(nsv + shape)}
        for n in range(1, case["depth"] + 1):
            for tail in itertools.product(range(k * k), repeat=n - 1):
                hist = (first,) + tail
                ha, hb = tuple(v // k for v in hist), tuple(v % k for v in hist)
                F = defgrad([STRETCH[ha[-1]], STRETCH[hb[-1]]], shape)
                sv0 = state[hist[:-1]]
                keep = sv0.copy()
                P, sv = um.gradient([F, sv0])[:2]
                A = um.hessian([F, sv0])[0]
                state[hist] = np.array(sv, copy=True)
                c.trans += 1
                c.traces += 1
                sub = f"layout={shape}/hist={[(STRETCH[a], STRETCH[b]) for a, b in zip(ha, hb)]}"
                if not np.array_equal(sv0, keep):
                    c.bad(sub + "/input-state", "the committed state passed in must not be changed by an evaluation", "changed", "unchanged")
                for pi, hp in enumerate((ha, hb)):
                    Ps, As, svs = single_eval(hp)
                    ix = (pi, 0) if shape == (2, 1) else (0, pi)
                    scale = max(np.abs(Ps).max(), 1e-3)
                    e = np.abs(np.asarray(P)[(Ellipsis,) + ix] - Ps[..., 0, 0]).max() / scale
                    if e > 1e-10:
                        c.bad(sub + f"/point{pi}/stress", "stress of a point in a two-point array vs the same point evaluated alone with its own history", float(e), 0, 1e-10)
                    Aa = np.broadcast_to(np.asarray(A), np.asarray(A).shape[:4] + shape)[(Ellipsis,) + ix]
                    e = np.abs(Aa - np.broadcast_to(As, As.shape[:4] + (1, 1))[..., 0, 0]).max() / max(np.abs(As).max(), 1e-3)
                    # (plasticity: a repeated stretch is neutral loading -- the trial state sits on the yield surface up to
                    #  round-off and the elastic / elasto-plastic branch of the tangent is decided by the last bit; both answers
                    #  are tangents at the kink.  Found under VERIF_SEED=2: false alarm of the first version of this clause)
                    kink = False
                    if item == "plasticity":
                        # neutral loading: the state did not change in this increment and the updated stress is ON the yield
                        # surface (repeated stretch, or re-loading exactly to the state unloading started from)
                        a_new, a_old = float(svs[0, 0, 0]), float(single[hp[:-1]][0, 0, 0])
                        sg = svs[-9:, 0, 0].reshape(3, 3)
                        dv = sg - np.trace(sg) / 3 * np.eye(3)
                        fy = np.sqrt((dv * dv).sum()) - np.sqrt(2 / 3) * (0.2 + 0.4 * a_new)
                        kink = abs(a_new - a_old) <= 1e-12 and abs(fy) <= 1e-9
                        if kink:
                            c.outcomes.add("plasticity-neutral-loading-tangent-not-compared")
                    if e > 1e-10 and not kink:
                        c.bad(sub + f"/point{pi}/tangent", "tangent of a point in a two-point array vs the same point evaluated alone", float(e), 0, 1e-10)
                    e = np.abs(np.asarray(sv)[(Ellipsis,) + ix] - svs[..., 0, 0]).max() / max(np.abs(svs).max(), 1e-3)
                    if e > 1e-10:
                        c.bad(sub + f"/point{pi}/state", "updated state of a point in a two-point array vs the same point evaluated alone", float(e), 0, 1e-10)
                if item in ("OgdenRoxburgh", "tt-OgdenRoxburgh"):
                    Ws = [np.asarray(energy_of(item, um, base, defgrad([STRETCH[a], STRETCH[b]], shape)), float) for a, b in zip(ha, hb)]
                    rmax = np.maximum.reduce(Ws)
                    e = np.abs(np.asarray(sv)[0] - rmax).max() / max(rmax.max(), 1e-9)
                    if e > 1e-10:
                        c.bad(sub + "/wmax", "stored maximum energy must be the per-point running maximum over the history", float(e), 0, 1e-10)
                    prim = Ws[-1] >= rmax - 1e-14
                    if prim.any():
                        Pb = np.asarray(base.gradient([F, None])[0])
                        e = np.abs((np.asarray(P) - Pb)[..., prim]).max() / max(np.abs(Pb).max(), 1e-9)
                        if e > 1e-10:
                            c.bad(sub + "/primary", "points on their primary loading path respond like the base material", float(e), 0, 1e-10)
                        c.outcomes.add(f"primary-points:{int(prim.sum())}")
                c.seen[(shape, hist)] = 1
                c.nontrivial.append(sub)
    return c.result(dict(case=case["key"], scalar_histories=len(sres), stretches=STRETCH))


def run_linsteps(case):
    """the tables the ramps are written with (math.linsteps): every milestone list of length 2..4 over a small alphabet x every
    tuple of substep numbers per section over {1, 2, 3, 4} (and the scalar forms): the i-th value of the table is the i-th value
    of the piecewise-linear history written with plain loops -- sections in order, evenly spaced, milestones at cumsum(num)"""
    import felupe as fem

    c = Ctx(case["key"])
    alpha = [0.0, 0.3, 0.1, -0.2, 0.4]
    for npts in (2, 3, 4):
        for pts in itertools.permutations(alpha, npts):
            if npts == 4 and pts[0] != 0.0:
                continue
            nums = [2] + [tuple(t) for t in itertools.product((1, 2, 3, 4), repeat=npts - 1)] + [[3] * (npts - 1)]
            for num in nums:
                nn = [num] * (npts - 1) if np.isscalar(num) else list(num)
                want = []
                for k in range(npts - 1):
                    for j in range(nn[k]):
                        want.append(pts[k] + j * (pts[k + 1] - pts[k]) / nn[k])
                want.append(pts[-1])
                got = np.asarray(fem.math.linsteps(list(pts), num=num if np.isscalar(num) else list(num)), dtype=float)
                c.trans += 1
                c.traces += 1
                sub = f"points={list(pts)}/num={num}"
                if got.shape != (len(want),) or np.abs(got - np.array(want)).max() > 1e-14:
                    c.bad(sub, "ramp table of linsteps vs the piecewise-linear history written with loops (sections in order, evenly spaced)", got.tolist()[:12], want[:12], 1e-14)
                    if len(c.viol) > 20:
                        return c.result(dict(case=case["key"]))
                else:
                    c.nontrivial.append(sub) if len(c.nontrivial) < 400 else None
                    c.seen[sub] = 1
    return c.result(dict(case=case["key"]))


def run(case):
    return {"points": run_points, "history": run_history, "ramped": run_ramped, "curve": run_curve, "linsteps": run_linsteps}[case["kind"]](case)
