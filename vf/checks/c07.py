"""C07 A successful Newton solve returns an equilibrium that honours the constraints.

E1  stateless model checking of the REAL newtonrhapson under a scripted environment: every
    answer sequence {converged, barely converged, not yet, stagnating, NaN}^maxiter for maxiter 1..4
    (the full deviation tree), one or two items with trial/committed states, two tolerances; the
    reference protocol model decides return/raise, iteration count and committed states.
E1b the partitioned linear solve on real SPD systems: all prescribed subsets of size <= 3 of an
    8-dof model x prescribed-value patterns.
E2  real problems: element family x material x boundary values (zero / small / moderate / too
    large) x extra items x start state (virgin / continuation) x iteration limits; on success the
    constraints hold bit-tight and an independently re-assembled residual (fresh items built from
    the returned field and the pre-step committed state) is below the tolerance; on failure an
    exception is raised and no state was committed.
"""

import itertools
import warnings

import numpy as np

from .. import env, zoo

ID = "C07"
RULE = (
    "E1: case = (maxiter, item configuration, tolerance); inside a case every answer sequence of length maxiter over "
    "the 5-letter alphabet is executed on the real Newton loop and compared with the reference protocol model. "
    "E1b: every prescribed subset of size <= 3 x 3 prescribed-value patterns. E2: case = (family, material, items, "
    "load sequence, maxiter). Non-trivial = executions (both returning and raising ones are counted as outcome classes)."
)
ASSUMPTIONS = [
    "Scripted items answer independently of the iterate (the environment is closed by the script); their Jacobian is the identity.",
    "E2 fresh residual: for the nearly-incompressible body the fresh residual is the settled one, which differs from Newton's last linearised one by O(|du_last|^2): slack factor 10 on the tolerance for that item only.",
    "maxiter = 0 is outside the domain.",
]
ALPHABET = "cbnsN"


def BOUNDS(tier):
    return {"maxiter": [1, 2, 3, 4], "alphabet": list(ALPHABET), "deviation_bound": "full tree (all sequences)", "prescribed_subset_size": 3,
            "E2_load_levels": [0.0, 0.05, 0.3, 4.0], "E2_sequence_length": 3}


FAMILIES = [("hexahedron", "3d"), ("quad", "ps"), ("tetra", "3d"), ("quad8", "ps"), ("quad", "axi"), ("triangle6", "ps")]
E2_MATERIALS = ["LinearElastic", "NeoHooke", "NeoHookeCompressible", "mixed-ThreeField", "NearlyIncompressibleBody", "OgdenRoxburgh", "plasticity", "tt-visco"]
EXTRA = ["none", "pressure", "pointload", "item-x0", "item-x0.5", "overlap"]  # overlap: a second boundary prescribes the SAME unknowns with the same (non-zero) values as the moved one (two plates moving together)  # item-x<m>: a second, stiff solid body on the same field scaled by the item multiplier m (0: switched off)


def plan(tier, seed):
    cases = []
    for maxiter in (1, 2, 3, 4):
        for items in ("one", "two"):
            for tol in ("default", 1e-2):
                cases.append(dict(key=f"protocol/maxiter={maxiter}/items={items}/tol={tol}", kind="protocol", maxiter=maxiter, items=items, tol=tol, seed=seed, cost=maxiter**3))
    cases.append(dict(key="partitioned-solve", kind="solve", seed=seed, cost=3))
    cases.append(dict(key="callables", kind="callables", seed=seed, cost=2))
    cases.append(dict(key="umat-path", kind="umatpath", seed=seed, cost=3))
    quick = tier == "quick"
    for (mk, fk) in FAMILIES:
        mats = E2_MATERIALS if (not quick or (mk, fk) in (("hexahedron", "3d"), ("quad", "ps"))) else ["LinearElastic", "NeoHooke", "NearlyIncompressibleBody"]
        for mat in mats:
            if mat == "plasticity" and fk != "3d":
                continue
            if mat == "LinearElastic" and fk != "3d":
                continue
            if mat == "mixed-ThreeField" and mk in ("tetra", "triangle"):
                continue  # no dual region is defined for the linear simplex templates
            for extra in (EXTRA if (mk == "hexahedron" or not quick) else ["none"]):
                if extra in ("pressure", "mpc") and mk not in ("hexahedron", "quad", "quad8"):
                    continue
                if extra != "none" and mat in ("mixed-ThreeField",):
                    continue
                cases.append(dict(key=f"problem/{mk}/{fk}/{mat}/extra={extra}", kind="problem", mesh=mk, fk=fk, mat=mat, extra=extra, seed=seed, tier=tier, cost=15))
            if (mk, fk) == ("quad", "ps") and mat in ("NeoHooke", "NearlyIncompressibleBody"):
                cases.append(dict(key=f"problem/{mk}/{fk}/{mat}/extra=pressure-plain", kind="problem", mesh=mk, fk=fk, mat=mat, extra="pressure-plain", seed=seed, tier=tier, cost=15))
    return cases


class Ctx:
    def __init__(self, key):
        self.key = key
        self.viol, self.nontrivial, self.outcomes, self.notes = [], [], set(), []
        self.trans = self.traces = self.states = 0

    def bad(self, sub, what, obs, exp, tol=0):
        if len(self.viol) < 50:
            self.viol.append(dict(key=f"{self.key}/{sub}", what=what, observed=obs, expected=exp, tol=tol))

    def result(self, sample):
        return dict(viol=self.viol, states=self.states, transitions=self.trans, traces=self.traces, nontrivial=self.nontrivial, outcomes=sorted(self.outcomes),
                    sample=sample, notes=self.notes, digest=f"{self.states}/{self.traces}/{len(self.viol)}")


def reference_protocol(seq):
    """returns ("return", k) or ("raise", reason)"""
    for k, a in enumerate(seq, start=1):
        if a in "cb":
            return ("return", k)
        if a == "N":
            return ("raise", "nan")
    return ("raise", "maxiter")


def run_protocol(case):
    import felupe as fem

    c = Ctx(case["key"])
    maxiter = case["maxiter"]
    tol = np.sqrt(np.finfo(float).eps) if case["tol"] == "default" else float(case["tol"])
    seen = set()
    for seq in itertools.product(ALPHABET, repeat=maxiter):
        seq = "".join(seq)
        field, dof0, dof1 = env.tiny_field(2)
        ext0 = np.array([0.25, -0.5])
        items = [env.ScriptedItem(field, seq, dof1, dof0, tol, name="a")]
        if case["items"] == "two":
            items.append(env.ScriptedItem(field, seq, dof1, dof0, tol, passive=True, name="b"))
        kw = {} if case["tol"] == "default" else dict(tol=tol)
        outcome = None
        try:
            res = fem.newtonrhapson(items=items, dof0=dof0, dof1=dof1, ext0=ext0, maxiter=maxiter, verbose=False, **kw)
            outcome = ("return", res.iterations)
        except ValueError as e:
            outcome = ("raise", "nan" if "NaN" in str(e) else "maxiter")
        except Exception as e:  # any other exception type is a protocol violation too
            outcome = ("raise", type(e).__name__)
        c.trans += 1
        c.traces += 1
        ref = reference_protocol(seq)
        c.outcomes.add(f"{ref[0]}:{ref[1]}")
        seen.add((ref, tuple(float(i.results.statevars[0]) for i in items)))
        c.nontrivial.append(seq)
        # the property demands "raises instead of returning"; which message is raised is not judged
        if outcome[0] != ref[0] or (ref[0] == "return" and outcome != ref):
            c.bad(f"seq={seq}/outcome", "Newton loop outcome for this answer sequence", list(outcome), list(ref))
            continue
        committed = [float(i.results.statevars[0]) for i in items]
        if ref[0] == "return":
            k = ref[1]
            if not res.success:
                c.bad(f"seq={seq}/success", "returned result must report success", res.success, True)
            if committed != [float(k)] * len(items):
                c.bad(f"seq={seq}/commit", "committed state must be the trial state of the converged iterate (for every item)", committed, [float(k)] * len(items))
            x = np.concatenate([f.values.ravel() for f in res.x.fields])
            if not np.array_equal(x[dof0], ext0):
                c.bad(f"seq={seq}/constraints", "returned field must carry the prescribed values", x[dof0].tolist(), ext0.tolist())
            if len(res.fnorms) != k or len(res.xnorms) != k:
                c.bad(f"seq={seq}/history", "one norm per iteration", [len(res.fnorms), len(res.xnorms)], k)
        else:
            if committed != [-1.0] * len(items):
                c.bad(f"seq={seq}/commit-on-failure", "no state may be committed when the solve raises", committed, [-1.0] * len(items))
    c.states = len(seen)
    return c.result(dict(case=case["key"], sequences=len(ALPHABET) ** maxiter, example="cbnsN"[:maxiter]))


def run_solve(case):
    import felupe as fem
    from scipy.sparse import csr_matrix

    c = Ctx(case["key"])
    seed = case["seed"]
    mesh = fem.Rectangle(n=2)
    region = fem.RegionQuad(mesh)
    # (u@int64 / u@float32: fields whose value arrays are integer (values=0 style start values) or single precision -- the
    #  increment of the linear solve is a float64 quantity whatever the unknowns are stored as)
    for cont in ("u", "u,p", "u@int64", "u@float32"):
        if cont == "u":
            field = fem.FieldContainer([fem.Field(region, dim=2, values=zoo.offarr(seed, 1200, (4, 2)))])
        elif cont == "u@int64":
            field = fem.FieldContainer([fem.Field(region, dim=2, values=np.round(3 * zoo.offarr(seed, 1200, (4, 2))).astype(np.int64))])
        elif cont == "u@float32":
            field = fem.FieldContainer([fem.Field(region, dim=2, values=zoo.offarr(seed, 1200, (4, 2)).astype(np.float32))])
        else:
            field = fem.FieldsMixed(region, n=2)
            field[0].values = zoo.offarr(seed, 1200, (4, 2))
            field[1].values = zoo.offarr(seed, 1201, field[1].values.shape)
        N = int(sum(field.fieldsizes))
        B = zoo.offarr(seed, 1210, (N, N))
        Kspd = B @ B.T + N * np.eye(N)
        Kspd[0, 5] = Kspd[5, 0] = 0.0
        r = zoo.offarr(seed, 1220, (N,)) * 3
        u = fem.math.values(field)
        # (a symmetric positive definite matrix and a non-symmetric one: follower loads, tangents without major symmetry)
        for klab, K in (("", Kspd), ("nonsym/", Kspd + 2.0 * zoo.offarr(seed, 1211, (N, N)))):
          Ks = csr_matrix(K)
          for size in (0, 1, 2, 3):
            for d0, o0, o1 in itertools.product(itertools.combinations(range(N), size), ("asc", "desc"), ("asc", "desc", "rolled")):
                # the index lists in every order a caller may hand them over in (ext0 is aligned with dof0): ascending, descending,
                # rotated -- e.g. dof0 concatenated from the boundaries of a dictionary
                if (o0 == "desc" and size < 2) or ((o0, o1) != ("asc", "asc") and klab and size == 3):
                    continue
                if "@" in cont and ((o0, o1) != ("asc", "asc") or size == 3):
                    continue
                dof0 = np.array(d0 if o0 == "asc" else d0[::-1], dtype=int)
                d1 = sorted(set(range(N)) - set(d0))
                dof1 = np.array(d1 if o1 == "asc" else (d1[::-1] if o1 == "desc" else d1[2:] + d1[:2]), dtype=int)
                for elab in ("none", "zeros", "generic"):
                    if elab == "none":
                        if size and np.abs(u[dof0]).max() > 0:
                            # documented use of ext0=None: homogeneous constraints on a field that satisfies them
                            f2 = field.copy()
                            vals = fem.math.values(f2).copy()
                            vals[dof0] = 0
                            off = 0
                            for fl in f2.fields:
                                fl.values = vals[off:off + fl.values.size].reshape(fl.values.shape)
                                off += fl.values.size
                        else:
                            f2 = field
                        ext0 = None
                        target = np.zeros(size)
                    else:
                        f2 = field
                        ext0 = np.zeros(size) if elab == "zeros" else zoo.offarr(seed, 1230 + size, (size,))
                        target = ext0
                    uu = fem.math.values(f2)
                    system = fem.solve.partition(f2, Ks, dof1, dof0, r)
                    du = fem.solve.solve(*system, ext0)
                    c.trans += 1
                    c.traces += 1
                    c.states += 1
                    du = np.asarray(du).ravel()
                    sub = f"{cont}/{klab}dof0={dof0.tolist()}/ext0={elab}" + ("" if o1 == "asc" else f"/dof1={o1}")
                    if size and not np.array_equal(du[dof0], target - uu[dof0]):
                        c.bad(sub + "/prescribed", "prescribed increments must be ext0 - u0 (exactly)", (du[dof0]).tolist(), (target - uu[dof0]).tolist())
                    res1 = K[np.ix_(dof1, dof1)] @ du[dof1] + r[dof1] + (K[np.ix_(dof1, dof0)] @ (target - uu[dof0]) if size else 0)
                    e = np.abs(res1).max() / np.abs(r).max()
                    c.nontrivial.append(sub)
                    if e > 1e-12:
                        c.bad(sub + "/reduced", "reduced system K11 du1 + r1 + K10 (ext0 - u0) = 0", float(e), 0, 1e-12)
                    if elab == "generic" and (o0, o1) == ("asc", "asc") and size in (1, 2):
                        for fmt in ("csc", "lil"):  # (formats that support indexing)
                            du_f = np.asarray(fem.solve.solve(*fem.solve.partition(f2, getattr(Ks, "to" + fmt)(), dof1, dof0, r), ext0)).ravel()
                            c.trans += 1
                            if np.abs(du_f - du).max() > 1e-13 * max(np.abs(du).max(), 1.0):
                                c.bad(sub + f"/format={fmt}", "partitioned solve with the matrix in another sparse format", float(np.abs(du_f - du).max()), 0, 1e-13)
                    if elab == "generic" and size:
                        parts = fem.tools.solve(Ks, -r, f2, dof0, dof1, f2.offsets, ext0)
                        flat = np.concatenate([np.asarray(p).ravel() for p in parts])
                        if len(parts) != len(f2.fields) or np.abs(flat - du).max() > 1e-14:
                            c.bad(sub + "/tools.solve", "tools.solve returns the same increment split per field", "differs", "equal")
    return c.result(dict(case=case["key"], unknowns=N))


# ----------------------------------------------------------------------------- E2
def build_problem(case):
    import felupe as fem
    import felupe.constitution as C
    from .c01 import boundary_field, make_field

    mk, fk, mat, extra, seed = case["mesh"], case["fk"], case["mat"], case["extra"], case["seed"]
    mixed = mat == "mixed-ThreeField"
    mesh, region, field = make_field(mk, "distorted" if mk not in ("hexahedron", "quad", "tetra") else "renum", fk, seed, mixed=mixed)
    tw = zoo.make(mk, "block", seed)
    if mk in ("hexahedron", "quad", "tetra"):
        tw = zoo.renumber(tw, seed)
    P = tw.points
    q, nc = region.quadrature.npoints, mesh.ncells

    def mk_items(fld, statevars=None):
        """fresh items on field fld; statevars: list (per item) of committed states or None"""
        sv = statevars or {}
        its = {}
        if mat == "LinearElastic":
            its["solid"] = fem.SolidBody(fem.LinearElastic(E=2.0, nu=0.3), fld)
        elif mat == "NeoHooke":
            its["solid"] = fem.SolidBody(fem.NeoHooke(mu=1.0, bulk=5.0), fld)
        elif mat == "NeoHookeCompressible":
            its["solid"] = fem.SolidBody(fem.NeoHookeCompressible(mu=1.0, lmbda=2.0), fld)
        elif mat == "mixed-ThreeField":
            its["solid"] = fem.SolidBody(fem.ThreeFieldVariation(fem.NeoHooke(mu=1.0, bulk=20.0)), fld)
        elif mat == "NearlyIncompressibleBody":
            its["solid"] = fem.SolidBodyNearlyIncompressible(fem.NeoHooke(mu=1.0), fld, bulk=50.0)
        elif mat == "OgdenRoxburgh":
            its["solid"] = fem.SolidBody(fem.OgdenRoxburgh(fem.NeoHooke(mu=1.0, bulk=5.0), r=3.0, m=1.0, beta=0.1), fld, statevars=sv.get("solid"))
        elif mat == "plasticity":
            its["solid"] = fem.SolidBody(fem.LinearElasticPlasticIsotropicHardening(E=2.0, nu=0.3, sy=0.05, K=0.4), fld, statevars=sv.get("solid"))
        elif mat == "tt-visco":
            its["solid"] = fem.SolidBody(fem.Hyperelastic(C.finite_strain_viscoelastic, mu=1.0, eta=1.0, dtime=1.0, nstatevars=6) & C.Volumetric(bulk=5.0), fld, statevars=sv.get("solid"))
        if extra == "pressure":
            top = np.isclose(P[:, -1] if fk != "axi" else P[:, 1], (P[:, -1] if fk != "axi" else P[:, 1]).max())
            rb, fb = boundary_field(mk, mesh, fk, fld, top)
            fb.fields[0].values = fld.fields[0].values
            its["pressure"] = fem.SolidBodyPressure(fb, pressure=0.05)
        elif extra == "pressure-plain":
            # a follower load whose boundary field is of ANOTHER class than the global field (a plain two-component field on the
            # edges of a plane-strain body): the load follows the iterate like every other item
            from .c13 import BREGION

            top = np.isclose(P[:, -1], P[:, -1].max())
            rb = getattr(fem, BREGION[mk])(mesh, mask=top)
            fb = fem.FieldContainer([fem.Field(rb, dim=mesh.dim)])
            fb.fields[0].values = fld.fields[0].values
            its["pressure"] = fem.SolidBodyPressure(fb, pressure=0.05)
        elif extra.startswith("item-x"):
            its["scaled"] = fem.SolidBody(fem.NeoHooke(mu=4.0, bulk=9.0) if mat != "LinearElastic" else fem.LinearElastic(E=9.0, nu=0.2), fld, multiplier=float(extra[6:]))
        elif extra == "pointload":
            pid = int(np.where(np.isclose(P[:, 0], P[:, 0].max()))[0][0])
            vals = np.zeros(mesh.dim)
            vals[-1] = 0.02
            its["pointload"] = fem.PointLoad(fld, [pid], values=vals)
        return its

    return mesh, region, field, P, mk_items


def run_problem(case):
    import felupe as fem

    warnings.simplefilter("ignore")
    c = Ctx(case["key"])
    mesh, region, field, P, mk_items = build_problem(case)
    fk = case["fk"]
    nd = mesh.dim
    sym = (False, True, False)[:nd] + (False,) * (3 - nd) if fk == "axi" else (False,) * 3
    tol = np.sqrt(np.finfo(float).eps)
    sequences = [[0.0], [0.05], [0.05, 0.12, 0.05], [0.3], [-0.15, 0.1], [4.0], [0.05, 4.0, 0.1], [0.1, 0.0, -0.05]]
    for seq in sequences:
        for maxiter, layout in ((1, "C"), (2, "C"), (16, "C"), (16, "F")):
            f = field.copy()
            if layout == "F":  # start values handed over in Fortran order (the library keeps the array it is given)
                for fl in f.fields:
                    fl.values = np.asfortranarray(fl.values)
            items = mk_items(f)
            bounds, lc = fem.dof.uniaxial(f, clamped=True, move=0.0, axis=0, sym=sym)
            if case["extra"] == "overlap":
                bm_ = bounds["move"]
                bounds["move-again"] = fem.Boundary(f.fields[0], mask=np.isin(np.arange(f.fields[0].values.shape[0]), bm_.points), skip=tuple(bm_.skip), value=0.0)
                bounds["move-y"] = fem.Boundary(f.fields[0], mask=np.isin(np.arange(f.fields[0].values.shape[0]), bm_.points), value=0.0)
                # (move-vec: the same, stated as ONE vector of components that is broadcast over the points of the face)
                bounds["move-vec"] = fem.Boundary(f.fields[0], mask=np.isin(np.arange(f.fields[0].values.shape[0]), bm_.points), value=np.zeros(f.fields[0].dim))
                d0_, d1_ = fem.dof.partition(f, bounds)
                lc = dict(lc, dof0=d0_, dof1=d1_)
            if case["mat"] == "mixed-ThreeField":
                # prescribed values on the LAST field of the container too (volume ratio of every third cell held at 1.01)
                fJ = f.fields[2]
                bounds["J-held"] = fem.Boundary(fJ, mask=np.arange(fJ.values.shape[0]) % 3 == 0, value=1.01)
                d0_, d1_ = fem.dof.partition(f, bounds)
                lc = dict(lc, dof0=d0_, dof1=d1_)
            x = f
            label = f"moves={seq}/maxiter={maxiter}" + ("" if layout == "C" else "/layout=F")
            for si, mv in enumerate(seq):
                bounds["move"].update(mv)
                if case["extra"] == "overlap":
                    bounds["move-again"].update(mv)
                    # (move-y: all components of the moved face, the normal one with the same value, the others held at zero)
                    vy_ = np.zeros((len(bounds["move-y"].points), f.fields[0].dim))
                    vy_[:, 0] = mv
                    bounds["move-y"].update(vy_)
                    vv_ = np.zeros(f.fields[0].dim)
                    vv_[0] = mv
                    bounds["move-vec"].update(vv_)
                dof0, dof1 = lc["dof0"], lc["dof1"]
                ext0 = fem.dof.apply(f, bounds, dof0)
                # the prescribed values as the boundary objects state them (independent of dof.apply): field offset + unknown
                offs_ = np.concatenate([[0], np.cumsum([fl.values.size for fl in f.fields])])
                want_full = np.full(int(offs_[-1]), np.nan)
                for b_ in bounds.values():
                    k_ = [i_ for i_, fl in enumerate(f.fields) if fl is b_.field][0]
                    if np.ndim(b_.value) == 1 and len(b_.value) == b_.field.dim and len(b_.dof) == len(b_.points) * b_.field.dim and len(b_.points) > 1:
                        # one vector of components for every point of the boundary (no skipped axis): point-wise order
                        want_full[offs_[k_] + np.asarray(b_.dof, dtype=int)] = np.tile(np.asarray(b_.value, dtype=float), len(b_.points))
                        continue
                    want_full[offs_[k_] + np.asarray(b_.dof, dtype=int)] = np.broadcast_to(np.asarray(b_.value, dtype=float).ravel() if np.ndim(b_.value) else float(b_.value), (len(b_.dof),)) if np.ndim(b_.value) <= 1 else np.asarray(b_.value, dtype=float).ravel()
                pres_ = want_full[dof0]
                if np.isfinite(pres_).any() and np.nanmax(np.abs(pres_ - ext0)) > 0:
                    c.bad(f"{label}/solve{si}/prescribed-values", "values handed to the solver for the prescribed unknowns vs the values the boundary objects state", float(np.nanmax(np.abs(pres_ - ext0))), 0)
                committed_before = {k: (None if getattr(it.results, "statevars", None) is None else np.array(it.results.statevars, copy=True)) for k, it in items.items()}
                x_before = np.concatenate([fl.values.ravel() for fl in f.fields]).copy()
                try:
                    res = fem.newtonrhapson(items=list(items.values()), dof0=dof0, dof1=dof1, ext0=ext0, maxiter=maxiter, verbose=False)
                    ok = True
                except ValueError:
                    ok = False
                c.trans += 1
                c.traces += 1
                c.states += 1
                sub = f"{label}/solve{si}"
                if not ok:
                    c.outcomes.add("raise")
                    for k, it in items.items():
                        after = getattr(it.results, "statevars", None)
                        if committed_before[k] is not None and not np.array_equal(after, committed_before[k]):
                            c.bad(sub + f"/commit-on-failure/{k}", "state variables committed although the solve raised", "changed", "unchanged")
                    break
                c.outcomes.add(f"return:{res.iterations}" if res.iterations < 4 else "return:>=4")
                c.nontrivial.append(sub)
                if not res.success:
                    c.bad(sub + "/success", "returned without success flag", res.success, True)
                xv = np.concatenate([fl.values.ravel() for fl in res.x.fields])
                scale = np.maximum(np.abs(ext0), np.abs(x_before[dof0]))
                if np.abs(xv[dof0] - ext0).max() > 4 * np.finfo(float).eps * max(scale.max(), 1.0):
                    c.bad(sub + "/constraints", "prescribed values not met exactly", float(np.abs(xv[dof0] - ext0).max()), 0)
                if case["mat"] == "LinearElastic" and case["extra"] in ("none", "pointload", "item-x0", "item-x0.5", "overlap") and res.iterations != 1:
                    c.bad(sub + "/linear", "a linear problem must converge with the first update", res.iterations, 1)
                # independent residual: fresh items on a copy of the returned field, pre-step committed state
                xf = res.x.copy()
                fresh = mk_items(xf, committed_before)
                rr = np.zeros(xv.size)
                for k, it in fresh.items():
                    v = it.assemble.vector(xf)
                    if case["mat"] == "NearlyIncompressibleBody" and k == "solid":
                        v = it.assemble.vector(xf)  # settled residual
                    v = v.toarray()[:, 0] * (it.assemble.multiplier if it.assemble.multiplier is not None else 1.0)
                    rr[: v.size] += v
                fnorm = np.linalg.norm(rr[dof1]) / (1e-3 + np.linalg.norm(rr[dof0]))
                slack = 10.0 if case["mat"] == "NearlyIncompressibleBody" else 1.0 + 1e-6
                if not fnorm <= tol * slack:
                    c.bad(sub + "/equilibrium", "independently re-assembled residual on the free unknowns exceeds the tolerance", float(fnorm), f"<= {tol * slack:.2e}")
                # history variables: committed state equals the trial state of the converged iterate = what fresh items produce
                for k, it in items.items():
                    if k == "solid" and case["mat"] in ("OgdenRoxburgh", "plasticity", "tt-visco"):
                        trial = fresh[k].results._statevars
                        if trial is not None and np.abs(np.asarray(it.results.statevars) - np.asarray(trial)).max() > 1e-9 * max(1.0, np.abs(trial).max()):
                            c.bad(sub + "/commit", "committed history variables differ from the update at the converged state", float(np.abs(np.asarray(it.results.statevars) - np.asarray(trial)).max()), 0, 1e-9)
                if case["extra"] == "item-x0":
                    # a switched-off item changes nothing: the same solve without it, from the same start, gives the same field
                    f2 = field.copy()
                    for fl, v0 in zip(f2.fields, np.split(x_before, np.cumsum([fl.values.size for fl in f.fields])[:-1])):
                        fl.values = v0.reshape(fl.values.shape).copy()
                    it2 = {k: v for k, v in mk_items(f2, committed_before).items() if k != "scaled"}
                    try:
                        r2 = fem.newtonrhapson(items=list(it2.values()), dof0=dof0, dof1=dof1, ext0=ext0, maxiter=maxiter, verbose=False)
                        x2 = np.concatenate([fl.values.ravel() for fl in r2.x.fields])
                        if np.abs(x2 - xv).max() > 1e-9 * max(np.abs(xv).max(), 1e-3):
                            c.bad(sub + "/switched-off-item", "solution with an item of multiplier 0 differs from the solution without that item", float(np.abs(x2 - xv).max()), 0, 1e-9)
                    except ValueError:
                        c.bad(sub + "/switched-off-item", "the solve without the switched-off item raised", "raise", "same result")
                x = res.x
    return c.result(dict(case=case["key"], sequences=len(sequences), unknowns=int(sum(field.fieldsizes))))


def run_callables(case):
    """newtonrhapson driven with user functions on plain arrays (no items, no dof0 / dof1): a lattice of small algebraic
    systems x start points x tolerances.  Whenever success is reported the documented criterion must hold for an
    independently re-evaluated residual: norm(f) / (eps + 0) < tol with eps = 1e-3 (no prescribed unknowns), res.fun is the
    residual at res.x, the norm lists have one entry per iteration; otherwise it must raise."""
    import felupe as fem

    c = Ctx(case["key"])
    eps = 1e-3
    problems = {
        "double-root": (lambda x: (x - 3.0) ** 2, lambda x: np.diag(2.0 * (x - 3.0)), [np.array([0.0]), np.array([1.0]), np.array([5.0]), np.array([10.0])]),
        "cubic": (lambda x: x**3 - 2.0 * x - 5.0, lambda x: np.diag(3.0 * x**2 - 2.0), [np.array([2.0]), np.array([3.0]), np.array([-4.0])]),
        "system2": (lambda x: np.array([x[0] ** 2 + x[1] - 2.0, x[0] - x[1] ** 3]), lambda x: np.array([[2.0 * x[0], 1.0], [1.0, -3.0 * x[1] ** 2]]),
                    [np.array([1.0, -1.5]), np.array([2.0, 2.0]), np.array([0.5, 0.3]), np.array([-3.0, 1.0])]),
        "linear3": (lambda x: np.array([[4.0, 1.0, 0.0], [1.0, 3.0, 1.0], [0.0, 1.0, 2.0]]) @ x - np.array([1.0, 2.0, 3.0]), lambda x: np.array([[4.0, 1.0, 0.0], [1.0, 3.0, 1.0], [0.0, 1.0, 2.0]]),
                    [np.zeros(3), np.array([5.0, -2.0, 1.0])]),
    }
    for pname, (fun, jac, starts) in problems.items():
        for k, x0 in enumerate(starts):
            for tol in (np.sqrt(np.finfo(float).eps), 1e-4, 1e-10):
                for maxiter in (8, 60):
                    sub = f"{pname}/start{k}/tol={tol:.1e}/maxiter={maxiter}"
                    try:
                        res = fem.newtonrhapson(x0=x0.copy(), fun=fun, jac=jac, solve=np.linalg.solve, maxiter=maxiter, tol=tol, verbose=False)
                        ok = True
                    except ValueError:
                        ok = False
                    except Exception as ex:  # noqa
                        c.bad(sub + "/exception", "unexpected exception type", repr(ex)[:120], "ValueError or a result")
                        continue
                    c.trans += 1
                    c.traces += 1
                    c.states += 1
                    if not ok:
                        c.outcomes.add("raised")
                        continue
                    c.outcomes.add("success")
                    c.nontrivial.append(sub)
                    xr = np.asarray(res.x, float)
                    fr = np.asarray(fun(xr), float)
                    crit = float(np.linalg.norm(fr)) / eps
                    if not res.success:
                        c.bad(sub + "/returned-without-success", "a result is returned although success is False", False, True)
                    if not crit < tol:
                        c.bad(sub + "/criterion", "success reported, but the independently re-evaluated residual violates norm(f) / (eps + norm(f0)) < tol (no prescribed unknowns: f0 empty, eps = 1e-3)", crit, f"< {tol:.3e}", tol)
                    if not np.array_equal(np.asarray(res.fun, float), fr):
                        c.bad(sub + "/fun", "res.fun is not the residual at res.x", np.asarray(res.fun, float).tolist(), fr.tolist())
                    if not (len(res.fnorms) == len(res.xnorms) == res.iterations <= maxiter):
                        c.bad(sub + "/bookkeeping", "iterations / norm lists", [res.iterations, len(res.fnorms), len(res.xnorms)], f"equal, <= {maxiter}")
                    if pname == "linear3" and res.iterations != 1:
                        c.bad(sub + "/linear", "a linear problem converges with the first update", res.iterations, 1)
    return c.result(dict(case=case["key"], problems=list(problems)))


def run_umatpath(case):
    """newtonrhapson driven through its default fun / jac of a constitutive material (no items): the kinematic options forwarded
    by keyword, positionally through args=, and with the documented defaults spelled out positionally -- a successful solve is
    an equilibrium of an independently assembled body and carries the prescribed values, for every way of forwarding"""
    import felupe as fem

    warnings.simplefilter("ignore")
    c = Ctx(case["key"])
    tol = np.sqrt(np.finfo(float).eps)
    mesh = fem.Cube(n=3)
    region = fem.RegionHexahedron(mesh)
    for mlab, um in (("LinearElastic", fem.LinearElastic(E=1.0, nu=0.3)), ("NeoHooke", fem.NeoHooke(mu=1.0, bulk=2.0))):
        sols = {}
        for move in (0.0, 0.1):
            for flab, fw in (("kwargs", dict(kwargs=dict(umat=um))), ("args", dict(args=(um,))), ("args+parallel", dict(args=(um, False))),
                             ("args-defaults-spelled", dict(args=(um, False, True, True, False))), ("kwargs-defaults-spelled", dict(kwargs=dict(umat=um, parallel=False, grad=True, add_identity=True, sym=False)))):
                field = fem.FieldContainer([fem.Field(region, dim=3)])
                bounds, lc = fem.dof.uniaxial(field, clamped=True, move=move, axis=0, sym=False)
                sub = f"{mlab}/move={move}/{flab}"
                try:
                    res = fem.newtonrhapson(field, dof1=lc["dof1"], dof0=lc["dof0"], ext0=lc["ext0"], verbose=False, **fw)
                except Exception as ex:  # noqa
                    c.bad(sub + "/exception", "the solve raised for a valid way of forwarding the options", repr(ex)[:160], "a converged field")
                    continue
                c.trans += 1
                c.traces += 1
                c.states += 1
                if not res.success:
                    continue
                xv = res.x[0].values.ravel()
                if np.abs(xv[lc["dof0"]] - lc["ext0"]).max() > 1e-14:
                    c.bad(sub + "/constraints", "prescribed values not met", float(np.abs(xv[lc["dof0"]] - lc["ext0"]).max()), 0)
                xf = res.x.copy()
                r = fem.SolidBody(um, xf).assemble.vector(xf).toarray()[:, 0]
                fnorm = np.linalg.norm(r[lc["dof1"]]) / (1e-3 + np.linalg.norm(r[lc["dof0"]]))
                if not fnorm <= tol:
                    c.bad(sub + "/equilibrium", "independently assembled residual on the free unknowns exceeds the tolerance although success was reported", float(fnorm), f"<= {tol:.2e}")
                if move == 0.0 and np.abs(xv).max() > 1e-9:
                    c.bad(sub + "/unloaded", "an unloaded clamped body moved", float(np.abs(xv).max()), 0)
                c.nontrivial.append(sub)
                sols.setdefault(move, {})[flab] = xv
        for move, d_ in sols.items():
            ref = d_.get("kwargs")
            for flab, xv in d_.items():
                if ref is not None and np.abs(xv - ref).max() > 1e-9 * max(np.abs(ref).max(), 1e-3):
                    c.bad(f"{mlab}/move={move}/{flab}/same-solution", "solution depends on how the options were forwarded", float(np.abs(xv - ref).max()), 0)
    return c.result(dict(case=case["key"]))


def run(case):
    return {"protocol": run_protocol, "solve": run_solve, "problem": run_problem, "callables": run_callables, "umatpath": run_umatpath}[case["kind"]](case)
