"""C04 Element shape functions: nodal basis, true derivatives, polynomial completeness.

All statements are polynomial identities.  A polynomial of per-axis degree < n that vanishes on
an n-per-axis tensor lattice is zero, so walking a tensor Chebyshev lattice with n = D + 3
nodes per axis (D = the element's per-axis degree) DECIDES them for every point of the
reference cell.  The derivative oracle is the exact spectral differentiation matrix of that
lattice applied to the tabulated `function` (independent of the hand-written `gradient` /
`hessian` tables).  The degree bound itself is verified on a second, shifted lattice.
"""

import itertools

import numpy as np

ID = "C04"
RULE = (
    "case = one element formulation (16 classes, bubble multipliers 0.1/1/2.5, ArbitraryOrderLagrange "
    "order 1..6 x dim 1..3 x permute on/off); inside a case the real function/gradient/hessian are "
    "tabulated on the full tensor Chebyshev lattice (n=D+3 per axis) and compared entry by entry "
    "(node, component) with spectral derivatives of the tabulated function; Kronecker delta at the "
    "element's own points, partition of unity, sum of gradients = 0, reproduction of every monomial "
    "of the element's space, bubbles on the principal lattice of every boundary facet, hessian "
    "symmetry. distinct_nontrivial counts (case, node, derivative component) table entries whose "
    "reference is not identically zero on the lattice."
)
ASSUMPTIONS = [
    "Shape functions are polynomials of per-axis degree <= D (D stated per element); this is itself "
    "checked: the lattice interpolant of every tabulated function must reproduce the function on a "
    "second, shifted lattice, otherwise 'degree bound exceeded' is reported instead of passing.",
    "Absolute tolerance 1e-9 on O(1) tables (measured floor 1e-16..2e-13, Lagrange order 6: 1e-11).",
    "For MINI elements 'nodal' means the vertex functions; the bubble is judged by the bubble clause.",
]


def BOUNDS(tier):
    return {"lattice_nodes_per_axis": "D+3", "lagrange_orders": "1..6", "dims": "1..3", "bubble_multipliers": [0.1, 1.0, 2.5]}


TOL = 1e-9


def plan(tier, seed):
    cases = []
    for name in [
        "Vertex", "Line", "ConstantQuad", "Quad", "QuadraticQuad", "BiQuadraticQuad",
        "ConstantHexahedron", "Hexahedron", "QuadraticHexahedron", "TriQuadraticHexahedron",
        "Triangle", "QuadraticTriangle", "Tetra", "QuadraticTetra",
    ]:
        cases.append(dict(key=name, cls=name, kw={}))
    for name in ["TriangleMINI", "TetraMINI"]:
        for a in (0.1, 1.0, 2.5):
            cases.append(dict(key=f"{name}/bubble_multiplier={a}", cls=name, kw={"bubble_multiplier": a}))
    for dim in (1, 2, 3):
        for order in range(1, 7):
            for permute in (True, False):
                cases.append(dict(key=f"ArbitraryOrderLagrange/order={order}/dim={dim}/permute={permute}", cls="ArbitraryOrderLagrange", kw=dict(order=order, dim=dim, permute=permute), cost=(order + 3) ** (2 * dim)))
    # high orders in one dimension (no order limit is documented; the monomial scaling uses factorials)
    for order in (10, 16, 21, 22):
        cases.append(dict(key=f"ArbitraryOrderLagrange/order={order}/dim=1/permute=False", cls="ArbitraryOrderLagrange", kw=dict(order=order, dim=1, permute=False), cost=order))
    # the class is documented as an n-dimensional element: dimension four (permute=False: no VTK ordering exists beyond three)
    for order in (1, 2):
        cases.append(dict(key=f"ArbitraryOrderLagrange/order={order}/dim=4/permute=False", cls="ArbitraryOrderLagrange", kw=dict(order=order, dim=4, permute=False), cost=(order + 3) ** 6))
    # non-default reference interval (a, b) of the Lagrange element: the cell is [a, b]^dim
    for dim in (1, 2):
        for order in (1, 2, 3):
            for interval in ([0.0, 1.0], [-2.0, 2.0], [1.0, 1.5]):
                cases.append(dict(key=f"ArbitraryOrderLagrange/order={order}/dim={dim}/interval={interval}", cls="ArbitraryOrderLagrange", kw=dict(order=order, dim=dim, interval=interval), cost=(order + 3) ** (2 * dim)))
    return cases


# ---------------------------------------------------------------- lattice tools
def cheb(n, lo, hi):
    j = np.arange(n)
    x = np.cos(np.pi * j / (n - 1))
    c = np.ones(n)
    c[0] = c[-1] = 2
    D = np.zeros((n, n))
    for i in range(n):
        for k in range(n):
            if i != k:
                D[i, k] = c[i] / c[k] * (-1) ** (i + k) / (x[i] - x[k])
    D[np.arange(n), np.arange(n)] = -D.sum(1)
    s = (hi - lo) / 2
    return lo + s * (x + 1), D / s


def bary_matrix(x, y):
    n = len(x)
    w = (-1.0) ** np.arange(n)
    w[0] *= 0.5
    w[-1] *= 0.5
    L = np.zeros((len(y), n))
    for i, yi in enumerate(y):
        d = yi - x
        if (np.abs(d) < 1e-14).any():
            L[i, np.argmin(np.abs(d))] = 1
        else:
            t = w / d
            L[i] = t / t.sum()
    return L


def apply_axis(M, T, axis):
    """apply matrix M (m x n) along lattice axis `axis` of T[..., n1, .., nd] (lattice axes are last d)."""
    return np.moveaxis(np.tensordot(M, T, axes=(1, axis)), 0, axis)


def space_monomials(kind, order, dim):
    if kind == "Q":
        return list(itertools.product(range(order + 1), repeat=dim))
    if kind == "P":
        return [e for e in itertools.product(range(order + 1), repeat=dim) if sum(e) <= order]
    if kind == "S":  # serendipity order 2: at most one exponent equal to 2, others <= 1
        return [e for e in itertools.product(range(3), repeat=dim) if sum(1 for k in e if k == 2) <= 1]
    raise ValueError(kind)


SPEC = {
    # cls: (dim, D per axis, box lo, box hi, space kind, space order, number of nodal functions or None=all)
    "Vertex": (1, 0, -1, 1, "Q", 0, None),
    "Line": (1, 1, -1, 1, "Q", 1, None),
    "ConstantQuad": (2, 0, -1, 1, "Q", 0, None),
    "Quad": (2, 1, -1, 1, "Q", 1, None),
    "QuadraticQuad": (2, 2, -1, 1, "S", 2, None),
    "BiQuadraticQuad": (2, 2, -1, 1, "Q", 2, None),
    "ConstantHexahedron": (3, 0, -1, 1, "Q", 0, None),
    "Hexahedron": (3, 1, -1, 1, "Q", 1, None),
    "QuadraticHexahedron": (3, 2, -1, 1, "S", 2, None),
    "TriQuadraticHexahedron": (3, 2, -1, 1, "Q", 2, None),
    "Triangle": (2, 1, 0, 1, "P", 1, None),
    "TriangleMINI": (2, 2, 0, 1, "P", 1, 3),
    "QuadraticTriangle": (2, 2, 0, 1, "P", 2, None),
    "Tetra": (3, 1, 0, 1, "P", 1, None),
    "TetraMINI": (3, 2, 0, 1, "P", 1, 4),
    "QuadraticTetra": (3, 2, 0, 1, "P", 2, None),
}


def run(case):
    import felupe as fem

    cls = case["cls"]
    key = case["key"]
    kwc = dict(case["kw"])
    if "interval" in kwc:
        kwc["interval"] = tuple(kwc["interval"])
    el = getattr(fem.element, cls)(**kwc)
    if cls == "ArbitraryOrderLagrange":
        dim, D, lo, hi, kind, order, nnodal = case["kw"]["dim"], case["kw"]["order"], -1, 1, "Q", case["kw"]["order"], None
        if "interval" in kwc:
            lo, hi = kwc["interval"]
    else:
        dim, D, lo, hi, kind, order, nnodal = SPEC[cls]
    viol, nontrivial = [], []
    ntrans = 0
    # (equidistant Lagrange bases of high order: entries up to 1e6 and an ill-conditioned Vandermonde matrix -- the round-off of
    #  the unchanged code grows by about 3 per order: 2e-9 at order 16, 4e-8 at 21, 1e-7 at 22)
    TOLc = TOL if not (cls == "ArbitraryOrderLagrange" and order >= 14) else TOL * 3.5 ** (order - 14) * 10

    def bad(sub, what, obs, exp):
        viol.append(dict(key=f"{key}/{sub}", what=what, observed=obs, expected=exp, tol=TOLc))

    n = D + 3
    x, Dm = cheb(n, lo, hi)
    lattice = list(itertools.product(range(n), repeat=dim))
    shape = (n,) * dim

    def tab(fn, pts_axes):
        out = None
        sh = tuple(len(a) for a in pts_axes)
        for idx in itertools.product(*[range(len(a)) for a in pts_axes]):
            r = np.array([pts_axes[k][idx[k]] for k in range(dim)], dtype=float)
            v = np.asarray(fn(r), dtype=float)
            if out is None:
                out = np.zeros(v.shape + sh)
            out[(Ellipsis,) + idx] = v
        return out

    H = tab(el.function, [x] * dim)  # (a, n1..nd)
    G = tab(el.gradient, [x] * dim)  # (a, k, n1..nd)
    ntrans += 2 * len(lattice)
    nb = H.shape[0]
    if G.shape != (nb, dim) + shape:
        bad("shape", "gradient shape", list(G.shape), [nb, dim] + list(shape))
        return dict(viol=viol, states=len(lattice), transitions=ntrans, traces=1, nontrivial=[], outcomes=["shape"])
    if nnodal is None:
        nnodal = nb
    if len(el.points) != nb and not cls.startswith("Constant"):
        bad("points", "number of element points vs number of functions", len(el.points), nb)

    # (0) results of different evaluation points must be independent arrays (a region keeps the results of all
    #     quadrature points alive at the same time): evaluate at r1, keep the result, evaluate at r2, look again
    for fname in ("function", "gradient") + (("hessian",) if hasattr(el, "hessian") else ()):
        fn = getattr(el, fname)
        r1 = np.array([x[1]] * dim, dtype=float)
        r2 = np.array([x[-2]] * dim, dtype=float) * 0.7 + 0.1
        a1 = fn(r1)
        keep = np.array(a1, dtype=float, copy=True)
        a2 = fn(r2)
        ntrans += 2
        if not np.array_equal(np.asarray(a1, dtype=float), keep):
            bad(f"aliasing/{fname}", f"the array returned by {fname}(r1) changed when {fname}(r2) was evaluated (shared result buffer)", float(np.abs(np.asarray(a1, float) - keep).max()), 0)
        if not np.array_equal(r1, np.array([x[1]] * dim, dtype=float)):
            bad(f"input/{fname}", "evaluation point modified", r1.tolist(), "unchanged")
        # a caller may scale the array it was handed (e.g. to map a gradient to physical coordinates): later evaluations on the
        # same element object must not see that
        try:
            a1 *= 2.5
            a2 += 1.0
        except (ValueError, TypeError):
            pass  # read-only result: fine
        a3 = np.asarray(fn(r1), dtype=float)
        ntrans += 1
        if not np.array_equal(a3, keep):
            bad(f"aliasing/{fname}/caller-mutation", f"{fname}(r) after the caller modified an earlier result in place differs from the first evaluation (result array owned by the element object)", float(np.abs(a3 - keep).max()), 0)
        # a caller may re-use ONE point container and overwrite it in place between calls (completely, and in one coordinate):
        # the element must evaluate the values the container holds at the time of the call
        el_fresh = getattr(fem.element, cls)(**kwc)
        for how in ("whole", "first-coordinate", "list"):
            pt = r1.copy() if how != "list" else r1.tolist()
            fn(pt)
            if how == "whole":
                pt[:] = r2
            else:
                pt[0] = float(r2[0])
            got = np.asarray(fn(pt), dtype=float)
            want = np.asarray(getattr(el_fresh, fname)(np.array(pt, dtype=float)), dtype=float)
            ntrans += 3
            if got.shape != want.shape or np.abs(got - want).max() > 1e-13 * max(np.abs(want).max(), 1.0):
                bad(f"aliasing/{fname}/point-container-reused/{how}", f"{fname}(point) after the SAME point container was overwritten in place returns the values of the earlier point", float(np.abs(got - want).max()) if got.shape == want.shape else list(got.shape), 0)

    # (0b) objects of the same order created AFTER the element and modified in place by THEIR owners (a sibling element that
    # is re-numbered consistently, an arbitrary-order mesh whose cells are re-numbered, a Gauss-Legendre rule of that order that
    # is rescaled): the first element keeps its nodal basis (one at its own node, zero at the others)
    if cls == "ArbitraryOrderLagrange":
        pts0 = np.array(el.points, dtype=float, copy=True)
        K0 = np.array([np.asarray(el.function(pt_), dtype=float) for pt_ in pts0])
        sib = getattr(fem.element, cls)(**kwc)
        if getattr(sib, "permute", None) is not None and len(np.atleast_1d(sib.permute)) > 2:
            pm = sib.permute
            i_, j_ = len(pm) // 2, len(pm) - 1
            pm[[i_, j_]] = pm[[j_, i_]]
            sib.points[[i_, j_]] = sib.points[[j_, i_]]
        try:
            if dim == 2:
                m_ = fem.mesh.RectangleArbitraryOrderQuad(order=order)
            elif dim == 3:
                m_ = fem.mesh.CubeArbitraryOrderHexahedron(order=order)
            else:
                m_ = None
            if m_ is not None:
                cc_ = m_.cells
                a_, b_ = cc_.shape[1] // 2, cc_.shape[1] - 1
                cc_[:, [a_, b_]] = cc_[:, [b_, a_]]
        except Exception:  # noqa
            pass
        try:
            q_ = fem.GaussLegendre(order=order, dim=dim)
            q_.points *= 0.5
            q_.weights *= 0.5
        except Exception:  # noqa
            pass
        K1 = np.array([np.asarray(el.function(pt_), dtype=float) for pt_ in pts0])
        ntrans += 2 * len(pts0)
        if not np.array_equal(np.asarray(el.points, dtype=float), pts0):
            bad("siblings/points", "the element's point table changed when sibling objects of the same order were modified by their owners", float(np.abs(np.asarray(el.points, dtype=float) - pts0).max()), 0)
        if np.abs(K1 - K0).max() > 0 or np.abs(K1 - np.eye(len(pts0))).max() > max(1e-9, TOLc):
            bad("siblings/nodal-basis", "shape functions at the element's own points after sibling objects (element, mesh, quadrature of the same order) were modified in place by their owners", float(max(np.abs(K1 - K0).max(), np.abs(K1 - np.eye(len(pts0))).max())), "identity, unchanged")

    # (0c) the same point handed over in another container / number type (list of Python ints, tuple, integer array, float32
    # array, list of floats): points with integer coordinates inside the closed cell -- function, gradient and hessian are
    # those of the float64 array
    ipts = [p_ for p_ in itertools.product(*[sorted({int(np.ceil(lo)), 0 if lo <= 0 <= hi else int(np.ceil(lo)), int(np.floor(hi))})] * dim)]
    if kind != "Q" and cls != "ArbitraryOrderLagrange":
        ipts = [p_ for p_ in ipts if sum(p_) <= 1 and min(p_) >= 0]  # simplex cells
    for p_ in ipts:
        rf = np.array(p_, dtype=float)
        for mname in ("function", "gradient") + (("hessian",) if hasattr(el, "hessian") else ()):
            try:
                ref_ = np.asarray(getattr(el, mname)(rf), dtype=float)
            except Exception:
                continue
            for clab, conv in (("list-of-int", lambda q: [int(v) for v in q]), ("tuple-of-int", lambda q: tuple(int(v) for v in q)), ("int64-array", lambda q: np.array(q, dtype=np.int64)),
                               ("float32-array", lambda q: np.array(q, dtype=np.float32)), ("list-of-float", lambda q: [float(v) for v in q])):
                ntrans += 1
                try:
                    got_ = np.asarray(getattr(el, mname)(conv(p_)), dtype=float)
                except Exception as ex:  # noqa
                    bad(f"point-type/{mname}/{clab}/point={list(p_)}/exception", "evaluation raised for a point given in another container / number type", repr(ex)[:120], "values")
                    continue
                if got_.shape != ref_.shape or np.abs(got_ - ref_).max() > (1e-6 if clab == "float32-array" else 1e-14) * max(1.0, np.abs(ref_).max()):
                    bad(f"point-type/{mname}/{clab}/point={list(p_)}", f"{mname} at a point with integer coordinates given as {clab} vs the same point as float64 array", got_.ravel()[:6].tolist(), ref_.ravel()[:6].tolist())
    # (v) degree bound: interpolate the tabulated function onto a shifted lattice
    y = lo + (hi - lo) * (np.arange(n + 1) + 0.37) / (n + 1.3)
    L = bary_matrix(x, y)
    Hi = H
    for k in range(dim):
        Hi = apply_axis(L, Hi, 1 + k)
    Hy = tab(el.function, [y] * dim)
    ntrans += len(y) ** dim
    e = np.abs(Hi - Hy)
    if e.max() > TOLc:
        a = int(np.unravel_index(e.argmax(), e.shape)[0])
        bad(f"degree/node={a}", "degree bound exceeded: function is not a polynomial of per-axis degree <= D", float(e.max()), f"per-axis degree <= {D}")

    # (v') the same polynomials OUTSIDE the reference cell (tools.extrapolate evaluates the linear families at the inverse Gauss
    # points +-sqrt(3)): the polynomial through the lattice values, continued beyond [lo, hi], and its derivative
    mid, half = 0.5 * (lo + hi), 0.5 * (hi - lo)
    yo = mid + half * np.array([-np.sqrt(3.0), -1.4, 1.25, np.sqrt(3.0)])
    Lo = bary_matrix(x, yo)
    Ho = H
    for k in range(dim):
        Ho = apply_axis(Lo, Ho, 1 + k)
    Hyo = tab(el.function, [yo] * dim)
    ntrans += len(yo) ** dim
    amp = max(np.abs(Lo).sum(1).max() ** dim, 1.0)
    eo = np.abs(Ho - Hyo)
    if eo.max() > TOLc * amp * max(np.abs(Hyo).max(), 1.0):
        a = int(np.unravel_index(eo.argmax(), eo.shape)[0])
        bad(f"outside-cell/function/node={a}", "function evaluated outside the reference cell is not the continuation of the polynomial it is inside", float(eo.max()), 0)
    for k in range(dim):
        Go = apply_axis(Dm, H, 1 + k)
        for kk in range(dim):
            Go = apply_axis(Lo, Go, 1 + kk)
        Gyo = tab(el.gradient, [yo] * dim)[:, k]
        ego = np.abs(Go - Gyo)
        if ego.max() > TOLc * amp * 10 * max(np.abs(Gyo).max(), 1.0) * (n ** 2):
            a = int(np.unravel_index(ego.argmax(), ego.shape)[0])
            bad(f"outside-cell/gradient/node={a}/comp={k}", "gradient evaluated outside the reference cell is not the derivative of the continued polynomial", float(ego.max()), 0)
    ntrans += len(yo) ** dim

    # (i) gradient = spectral derivative of function, entry by entry
    for k in range(dim):
        ref = apply_axis(Dm, H, 1 + k)
        for a in range(nb):
            err = np.abs(G[a, k] - ref[a]).max()
            if np.abs(ref[a]).max() > 1e-12:
                nontrivial.append(f"grad/{a}/{k}")
            if err > TOLc:
                bad(f"gradient/node={a}/comp={k}", "gradient entry differs from the derivative of function", float(err), "0 (max abs deviation on the lattice)")
    has_hess = hasattr(el, "hessian")
    if has_hess:
        HS = tab(el.hessian, [x] * dim)  # (a, k, l, lattice)
        ntrans += len(lattice)
        if HS.shape != (nb, dim, dim) + shape:
            bad("hessian/shape", "hessian shape", list(HS.shape), [nb, dim, dim] + list(shape))
        else:
            for k in range(dim):
                for l in range(dim):
                    ref = apply_axis(Dm, apply_axis(Dm, H, 1 + k), 1 + l)
                    for a in range(nb):
                        err = np.abs(HS[a, k, l] - ref[a]).max()
                        if np.abs(ref[a]).max() > 1e-12:
                            nontrivial.append(f"hess/{a}/{k}{l}")
                        if err > TOLc * 10:
                            bad(f"hessian/node={a}/comp={k},{l}", "hessian entry differs from the second derivative of function", float(err), "0 (max abs deviation on the lattice)")
                        serr = np.abs(HS[a, k, l] - HS[a, l, k]).max()
                        if l > k and serr > TOLc:
                            bad(f"hessian/node={a}/sym={k},{l}", "hessian not symmetric", float(serr), 0)

    # (ii) Kronecker delta at own points, partition of unity, sum of gradients
    if not cls.startswith("Constant"):
        P = np.asarray(el.points, float)
        for a in range(nnodal):
            h = np.asarray(el.function(P[a]), float)[:nnodal]
            ntrans += 1
            d = np.zeros(nnodal)
            d[a] = 1
            if np.abs(h - d).max() > TOLc:
                bad(f"delta/point={a}", "nodal functions at the element's own point", h.tolist(), d.tolist())
    pu = np.abs(H[:nnodal].sum(0) - 1).max()
    if pu > TOLc:
        bad("partition_of_unity", "sum of nodal functions", float(pu), 0)
    sg = np.abs(G[:nnodal].sum(0)).max()
    if sg > TOLc:
        bad("sum_gradient", "sum of nodal gradients", float(sg), 0)
    nontrivial.append("pu")

    # (iii) completeness: every monomial of the element's space is reproduced on the lattice
    mons = space_monomials(kind, order, dim)
    if not cls.startswith("Constant"):
        P = np.asarray(el.points, float)[:nnodal]
        grids = np.meshgrid(*([x] * dim), indexing="ij")
        for e_ in mons:
            mv = np.prod([P[:, k] ** e_[k] for k in range(dim)], axis=0)
            lhs = np.tensordot(mv, H[:nnodal], axes=(0, 0))
            rhs = np.prod([grids[k] ** e_[k] for k in range(dim)], axis=0)
            err = np.abs(lhs - rhs).max()
            ntrans += 1
            nontrivial.append("mono" + "".join(map(str, e_)))
            if err > TOLc:
                bad("completeness/monomial=" + "".join(map(str, e_)), "interpolant of a monomial of the element space", float(err), 0)
    nspace = len(mons)
    if not cls.startswith("Constant") and nspace != nnodal:
        bad("space_dim", "dimension of the element space vs nodal functions", nnodal, nspace)

    # (iv) bubbles vanish on the principal lattice of every boundary facet
    if cls in ("TriangleMINI", "TetraMINI"):
        m = 6
        cnt = 0
        for lam in itertools.product(range(m + 1), repeat=dim + 1):
            if sum(lam) != m or min(lam) != 0:
                continue  # only points on the boundary (one barycentric coordinate zero)
            r = np.array(lam[1:], float) / m
            b = np.asarray(el.function(r), float)[nnodal:]
            ntrans += 1
            cnt += 1
            if np.abs(b).max() > TOLc:
                bad("bubble/boundary=" + ",".join(map(str, lam)), "bubble function on the cell boundary", b.tolist(), 0)
        # and it is not identically zero (centre value a / 27 resp. a / 256)
        c = np.full(dim, 1 / (dim + 1))
        bc = float(np.asarray(el.function(c))[-1])
        expc = case["kw"]["bubble_multiplier"] / (dim + 1) ** (dim + 1)
        if abs(bc - expc) > TOLc:
            bad("bubble/centre", "bubble value at the barycentre", bc, expc)
        nontrivial.append("bubble")

    sample = dict(case=key, dim=dim, per_axis_degree=D, lattice_points=len(lattice), functions=nb, has_hessian=has_hess, space=kind + str(order), monomials=nspace)
    dig = repr((H.tobytes(), G.tobytes()))
    return dict(viol=viol, states=len(lattice) + len(y) ** dim, transitions=ntrans, traces=1 + int(has_hess), nontrivial=nontrivial,
                outcomes=[("hess" if has_hess else "nohess") + "/" + kind + str(order)], sample=sample, digest=str(hash(dig)))
