"""Scripted environment for the solver protocol: duck-typed items whose residual answers follow a
script, so that the explorer can enumerate every answer sequence of the real Newton loop,
Step.generate and Job.evaluate."""

import numpy as np


class ScriptedItem:
    """An item for felupe.newtonrhapson whose k-th residual evaluation answers script[k].

    answers: "c" converged (zero residual on the free unknowns), "b" barely converged (0.5 tol),
             "n" not yet (unit residual), "s" stagnating (1.5 tol), "N" NaN residual.
    The item carries a trial state (results._statevars = number of the evaluation) and a committed
    state (results.statevars) through felupe's own Results class, so the real commit code runs.
    """

    def __init__(self, field, script, dof1, dof0, tol, passive=False, log=None, name="item"):
        from felupe.mechanics._helpers import Assemble, Results

        self.field = field
        self.script = list(script)
        self.dof1, self.dof0 = np.asarray(dof1), np.asarray(dof0)
        self.tol = tol
        self.passive = passive
        self.name = name
        self.calls = 0  # number of vector evaluations (0 = initial residual)
        self.results = Results()
        self.results.statevars = np.array([-1.0])
        self.results._statevars = None
        self.assemble = Assemble(vector=self._vector, matrix=self._matrix)
        self.log = log if log is not None else []
        self.value = None

    def update(self, value):
        self.value = value
        self.log.append(("update", self.name, value))

    def _vector(self, field=None, parallel=False):
        from scipy.sparse import csr_matrix

        if field is not None:
            self.field = field
        n = int(sum(self.field.fieldsizes))
        k = self.calls
        self.calls += 1
        r = np.zeros(n)
        r[self.dof0] = 1.0  # reaction forces: the convergence measure is |r1| / (eps + |r0|)
        ans = "n" if k == 0 else (self.script[k - 1] if k - 1 < len(self.script) else "n")
        if not self.passive:
            if ans == "n":
                r[self.dof1] = 1.0
            elif ans in ("s", "b"):
                # fnorm = |r1|_2 / (1e-3 + |r0|_2): 1.5 tol (stagnating, not converged) resp. 0.5 tol (barely converged)
                fac = 1.5 if ans == "s" else 0.5
                r[self.dof1] = fac * self.tol * (1e-3 + np.sqrt(len(self.dof0))) / np.sqrt(max(len(self.dof1), 1))
            elif ans == "N":
                r[self.dof1] = np.nan
        else:
            r[:] = 0.0
        self.results._statevars = np.array([float(k)])
        self.log.append(("vector", self.name, k, ans, np.concatenate([f.values.ravel() for f in self.field.fields]).copy()))
        return csr_matrix(r.reshape(-1, 1))

    def _matrix(self, field=None, parallel=False):
        from scipy.sparse import identity

        if field is not None:
            self.field = field
        n = int(sum(self.field.fieldsizes))
        self.log.append(("matrix", self.name))
        return identity(n, format="csr") * (0.0 if self.passive else 1.0)


def tiny_field(ndof_free=2):
    """a 1-cell line field with dim components: dof0 = first point, dof1 = second point"""
    import felupe as fem

    mesh = fem.mesh.Line(n=2)
    region = fem.Region(mesh, fem.Line(), fem.GaussLegendre(order=1, dim=1))
    field = fem.FieldContainer([fem.Field(region, dim=ndof_free)])
    dof0 = np.arange(ndof_free)
    dof1 = np.arange(ndof_free, 2 * ndof_free)
    return field, dof0, dof1
