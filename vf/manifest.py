"""Regenerates /verif/MANIFEST.json from the checks that exist (python -m vf.manifest)."""

import json
import os

ROOT = os.path.dirname(os.path.dirname(os.path.abspath(__file__)))

TECH = {
    "C01": ("bounded-exhaustive exploration of the real assembly: item x field kind x mesh zoo x material x state lattice, derivative decided along ALL unit dof directions (central FD of the real vector vs the real matrix)", "2-C01"),
    "C02": ("exhaustive enumeration of unit integrands (basis of the linear map) x configurations against a defining-sum reference model; stateless exploration of all thread schedules (preemption-bounded) and all einsumt task orders under a controlled scheduler", "2-C02"),
    "C03": ("bounded-exhaustive lattice walk (model x parameters x F-lattice x stored state x out-buffer history), derivative decided along all 9 unit directions", "2-C03"),
    "C04": ("complete decision of polynomial identities by walking unisolvent tensor Chebyshev lattices; spectral-derivative oracle", "2-C04"),
    "C05": ("complete enumeration of the monomial basis of every scheme's exactness space against exact rational integrals", "2-C05"),
    "C06": ("exhaustive enumeration of monomial nodal fields (basis of the linear interpolation map) x region templates x mesh zoo against analytic values", "2-C06"),
    "C07": ("stateless model checking of the real Newton loop under a scripted environment: all answer sequences up to maxiter (full deviation tree) against a reference protocol model; bounded-exhaustive real problems", "2-C07"),
    "C08": ("exhaustive enumeration of boundary dictionaries (all ordered selections up to size 3 from an alphabet) x containers against a dict reference model of the dof numbering", "2-C08"),
    "C09": ("bounded-exhaustive exploration of homogeneous problems: element family x density x distortion x material x load case x ramp subdivision against closed forms", "2-C09"),
    "C10": ("bounded-exhaustive differential exploration: reduced/condensed/fast-path formulation vs full counterpart on a lattice of meshes/states/materials", "2-C10"),
    "C11": ("exhaustive enumeration over all 24 proper cube rotations + generic rotations x F-lattice x models", "2-C11"),
    "C12": ("bounded-exhaustive differential exploration of implementation pairs on the F-lattice; documented initial-moduli table", "2-C12"),
    "C13": ("exhaustive enumeration: cell types x mesh zoo x flags x mask family against a reference face model", "2-C13"),
    "C14": ("bounded-exhaustive exploration of balance identities over field kinds x families x zoo x state lattice x loads", "2-C14"),
    "C15": ("explicit-state BFS over ramp histories (all sequences up to a depth over a load alphabet, failure injected at every position) on the real Step/Job with canonical state hashing and a reference history model", "2-C15"),
    "C16": ("explicit-state BFS over mesh programs (generator x all operation sequences up to a depth) with a reference model of measure/orientation", "2-C16"),
    "C17": ("exhaustive enumeration of unit-tensor tuples (basis of the multilinear maps) and integer lattices x batch shapes x flags x buffer histories; all einsumt task orders", "2-C17"),
    "C18": ("bounded-exhaustive exploration of modal problems: meshes x boundary dictionaries x k x rigid motions against re-assembled K, M", "2-C18"),
    "C19": ("exhaustive enumeration of unit nodal fields (basis) x templates x zoo for projection/extrapolation; lattice walk for stresses and view data", "2-C19"),
    "C20": ("explicit-state exploration of job shapes (steps x substeps x failure position x callbacks) and mesh round trips, files read back with an independent reader", "2-C20"),
}

LEVEL_TEXT = {
    "C04": "Decides the stated polynomial identities for every point of the reference cell (unisolvent lattice + verified degree bound): complete for the 16 classes, the three bubble multipliers and Lagrange orders 1..6 in dims 1..3.",
    "C05": "Complete: every scheme/order/dim/permute configuration is instantiated and applied to every monomial of its documented exactness space; exact rational reference.",
}


def main():
    checks = []
    na = []
    for i in range(1, 21):
        pid = "C%02d" % i
        path = os.path.join(ROOT, "vf", "checks", pid.lower() + ".py")
        if not os.path.exists(path):
            na.append({"property_id": pid, "reason": "applicable (design in DESIGN.md section 2) but its explorer is not built yet; not claimed until it exists"})
            continue
        tech, ref = TECH[pid]
        ns = {}
        src = open(path).read()
        checks.append(
            {
                "property_id": pid,
                "quick_cmd": "./check %s --tier quick" % pid,
                "thorough_cmd": "./check %s --tier thorough" % pid,
                "evidence_file": "/verif/evidence/%s.json" % pid,
                "replay_cmd_template": "./check %s --replay {path}" % pid,
                "engine": "vf",
                "level_claimed": {
                    "category": "model_checking",
                    "text": LEVEL_TEXT.get(pid, "Bounded-exhaustive exploration of the real code: the stated finite alphabet is enumerated completely within the stated bounds and every visited state is compared with an independent reference; see DESIGN.md."),
                    "design_ref": "DESIGN.md section " + ref,
                },
                "level_note": "Trusted base: numpy/scipy linear algebra used by the oracles, the checker's own reference models (vf/ref, vf/checks), exact rational arithmetic where stated. Continuous dimensions are covered on finite lattices only (small-scope claim); see the evidence file's assumptions.",
                "technique": tech,
            }
        )
    man = {
        "version": 1,
        "setup_cmd": "mkdir -p /verif/.scratch /verif/evidence /verif/replays && /venv/bin/python -c \"import felupe, numpy\"",
        "hooks": {
            "guard": "FELUPE_VERIF",
            "enable": "no source hooks are needed: the thread seams (felupe.assembly.expression._bilinear.Thread / _linear.Thread, einsumt.default_thread_pool) and the solver seam (duck-typed items) are rebound from the harness; ./check exports FELUPE_VERIF=1 for the interface's sake only",
            "baseline_off_cmd": "cd /repo && env -u FELUPE_VERIF /venv/bin/python -m pytest -ra -q -p no:cacheprovider --timeout=900 --continue-on-collection-errors",
            "source_commits": [],
            "add_only": True,
        },
        "engines": [
            {
                "name": "vf",
                "path": "/verif/vf",
                "serves_properties": [c["property_id"] for c in checks],
                "kind_free_text": "hand-written explicit-state / stateless explorer for Python: exhaustive enumeration of bounded alphabets on the real felupe code in a 16-process pool, reference models as oracles, cooperative thread scheduler, scripted solver environment",
            }
        ],
        "checks": checks,
        "not_applicable": na,
        "notes": "All checks run /repo's working tree directly (PYTHONPATH=/repo/src). VERIF_SEED only moves the generic offsets of the lattices; the lattices are always walked completely. Known findings: /verif/KNOWN_FINDINGS.json.",
    }
    with open(os.path.join(ROOT, "MANIFEST.json"), "w") as f:
        json.dump(man, f, indent=1)
    print("MANIFEST.json: %d checks, %d not yet claimed" % (len(checks), len(na)))


if __name__ == "__main__":
    main()
