"""Controlled schedulers for felupe's two thread seams.

(a) FakePool: drop-in for einsumt.default_thread_pool.  Tasks submitted with apply_async are
    not executed until the first .get(); then ALL pending tasks are executed in the order the
    current schedule prescribes (a permutation).  The explorer enumerates the permutations.

(b) CoopScheduler / CThread: drop-in for threading.Thread used by
    felupe.assembly.expression._linear/_bilinear.  Every thread body runs in a real OS thread
    but only the thread that holds the baton runs; it yields at every `line` event of the traced
    code (sys.settrace), so the explorer owns every scheduling decision.  Schedules are
    enumerated depth-first with a preemption bound; each schedule is a replayable choice list.
"""

import itertools
import sys
import threading


# ----------------------------------------------------------------------------- FakePool
class _Handle:
    def __init__(self, pool, i):
        self.pool, self.i = pool, i

    def get(self, timeout=None):
        self.pool._flush()
        r = self.pool._results[self.i]
        if isinstance(r, BaseException):
            raise r
        return r


class FakePool:
    def __init__(self, processes, order_fn=None):
        self._processes = processes
        self._pending = []
        self._results = {}
        self._n = 0
        self.order_fn = order_fn or (lambda n: list(range(n)))
        self.batches = []  # sizes of the task batches seen (one per einsumt call)
        self.orders = []

    def apply_async(self, func, args=(), kwds=None, callback=None, error_callback=None):
        i = self._n
        self._n += 1
        self._pending.append((i, func, args, kwds or {}))
        return _Handle(self, i)

    def _flush(self):
        if not self._pending:
            return
        pend, self._pending = self._pending, []
        order = self.order_fn(len(pend))
        assert sorted(order) == list(range(len(pend)))
        self.batches.append(len(pend))
        self.orders.append(tuple(order))
        for k in order:
            i, func, args, kwds = pend[k]
            try:
                self._results[i] = func(*args, **kwds)
            except BaseException as e:  # noqa
                self._results[i] = e


def task_orders(n, full_upto=3):
    """all permutations for n <= full_upto, otherwise identity, reverse and all single transpositions"""
    if n <= full_upto:
        return [list(p) for p in itertools.permutations(range(n))]
    out = [list(range(n)), list(range(n))[::-1]]
    for i in range(n):
        for j in range(i + 1, n):
            p = list(range(n))
            p[i], p[j] = p[j], p[i]
            out.append(p)
    return out


class use_pool:
    """context manager: install a FakePool as einsumt's default pool"""

    def __init__(self, pool):
        self.pool = pool

    def __enter__(self):
        import einsumt

        self.mod = sys.modules[einsumt.einsumt.__module__]
        self.old = self.mod.default_thread_pool
        self.mod.default_thread_pool = self.pool
        return self.pool

    def __exit__(self, *a):
        self.mod.default_thread_pool = self.old


def explore_pool(fn, sizes=(2, 3, 5), full_upto=3, cap=400):
    """Run fn() under every FakePool size and every task order of every batch.

    The k-th batch of an execution gets the order chosen for position k; orders are enumerated as
    a product over the batches observed in the first (identity) run, capped at `cap` executions
    per pool size (cap reported).  Returns list of (size, orders, result) and a capped flag.
    """
    out = []
    capped = False
    for size in sizes:
        pool = FakePool(size)
        with use_pool(pool):
            r0 = fn()
        out.append((size, tuple(pool.orders), r0))
        batches = list(pool.batches)
        if not batches:
            continue
        choices = [task_orders(b, full_upto) for b in batches]
        total = 1
        for c in choices:
            total *= len(c)
        if total <= cap:
            combos = itertools.product(*choices)
        else:
            # vary one batch at a time (all its orders), others identity: "one deviation" bound
            capped = True
            combos = []
            for bi, c in enumerate(choices):
                for o in c[1:]:
                    combo = [ch[0] for ch in choices]
                    combo[bi] = o
                    combos.append(tuple(combo))
        for combo in combos:
            combo = list(combo)
            if all(list(o) == list(range(len(o))) for o in combo):
                continue
            it = iter(combo)

            def order_fn(n, it=it):
                try:
                    o = next(it)
                except StopIteration:
                    return list(range(n))
                return list(o) if len(o) == n else list(range(n))

            pool = FakePool(size, order_fn)
            with use_pool(pool):
                r = fn()
            out.append((size, tuple(pool.orders), r))
    return out, capped


# ----------------------------------------------------------------------------- cooperative threads
class Divergence(RuntimeError):
    pass


class CoopScheduler:
    """Owns all CThreads created while it is installed.  One execution = one call of run()."""

    def __init__(self, trace_files, choices=(), max_steps=2000000, delay_mode=False):
        self.delay_mode = delay_mode
        self.delayed = []  # delay-bounded scheduling: threads skipped once go to the end of the canonical order
        self.trace_files = tuple(trace_files)
        self.prefix = list(choices)
        self.threads = []
        self.points = []  # per decision: dict(enabled=[ids], running=id or None, chosen=index)
        self.taken = []
        self.baton = threading.Semaphore(0)  # driver waits on this
        self.current = None
        self.max_steps = max_steps
        self.steps = 0
        self.error = None
        self.last = None
        self.unjoined = 0

    # --- API used by CThread
    def register(self, t):
        t.cid = len(self.threads)
        self.threads.append(t)

    def _yield_from(self, t):
        """called in thread t at a yield point: hand control to the driver and wait for the baton"""
        self.baton.release()
        t.sem.acquire()

    def drive(self, until=None, record=True):
        """run started, unfinished threads under the schedule: until thread `until` has finished (join semantics: the
        caller -- the main thread, which runs atomically between its joins -- resumes as soon as the thread it waits for
        is done, whatever else is still unfinished), or, with until=None, until all have finished.  record=False
        (clean-up after the function under test has returned): default choices only, no decision points."""
        last = self.last
        while True:
            if until is not None and until.finished:
                break
            enabled = [t.cid for t in self.threads if t.started and not t.finished]
            if not enabled:
                break
            # canonical order: running thread first if still enabled (no preemption by default), then the thread the
            # caller waits for, then ascending ids
            order = []
            if last in enabled:
                order.append(last)
            if until is not None and until.cid in enabled and until.cid not in order:
                order.append(until.cid)
            order += [c for c in enabled if c not in order]
            if self.delay_mode and self.delayed:
                order = [c for c in order if c not in self.delayed] + [c for c in self.delayed if c in order]
            if record:
                k = len(self.taken)
                if k < len(self.prefix):
                    ch = self.prefix[k]
                    if ch >= len(order):
                        raise Divergence("replayed choice %d out of range at decision %d (enabled %r)" % (ch, k, order))
                else:
                    ch = 0
                self.points.append(dict(enabled=order, running=last if last in enabled else None))
                self.taken.append(ch)
                if self.delay_mode and ch:
                    if ch != 1:
                        raise Divergence("delay mode knows the choices 0 (default) and 1 (delay the default thread) only")
                    self.delayed.append(order[0])
            else:
                ch = 0
            cid = order[ch]
            t = self.threads[cid]
            last = cid
            self.steps += 1
            if self.steps > self.max_steps:
                raise RuntimeError("horizon exceeded")
            t.sem.release()
            self.baton.acquire()
            if t.exc is not None and self.error is None:
                self.error = t.exc
            self.last = last


_ACTIVE = None


class CThread:
    """threading.Thread look-alike whose body only advances when the scheduler says so."""

    def __init__(self, group=None, target=None, name=None, args=(), kwargs=None, daemon=None):
        self.target, self.args, self.kwargs = target, args, kwargs or {}
        self.sem = threading.Semaphore(0)
        self.started = False
        self.finished = False
        self.exc = None
        self.sch = _ACTIVE
        if self.sch is None:
            raise RuntimeError("CThread created without an active scheduler")
        self.sch.register(self)
        self._t = threading.Thread(target=self._body, daemon=True)

    def _trace(self, frame, event, arg):
        if frame.f_code.co_filename.endswith(self.sch.trace_files):
            return self._local
        return None

    def _local(self, frame, event, arg):
        if event == "line":
            self.sch._yield_from(self)
        return self._local

    def _body(self):
        self.sem.acquire()  # wait for first scheduling
        sys.settrace(self._trace)
        try:
            self.target(*self.args, **self.kwargs)
        except BaseException as e:  # noqa
            self.exc = e
        finally:
            sys.settrace(None)
            self.finished = True
            self.sch.baton.release()

    def start(self):
        self.started = True
        self._t.start()

    def join(self, timeout=None):
        # the caller waits for THIS thread only: other threads may still be unfinished when it resumes
        if not self.started:
            raise RuntimeError("cannot join thread before it is started")
        if not self.finished:
            self.sch.drive(until=self)
        self._t.join()


class use_threads:
    """install CThread at the given module attributes (e.g. felupe's expression modules)"""

    def __init__(self, scheduler, modules):
        self.s, self.modules = scheduler, modules

    def __enter__(self):
        global _ACTIVE
        _ACTIVE = self.s
        self.old = [(m, m.Thread) for m in self.modules]
        for m in self.modules:
            m.Thread = CThread
        return self.s

    def __exit__(self, *a):
        global _ACTIVE
        for m, o in self.old:
            m.Thread = o
        _ACTIVE = None


def explore_delays(fn, modules, trace_files, bound=1, cap=5000, free_only=False):
    """Delay-bounded exploration (Emmi, Qadeer, Rakamaric 2011) for models with many threads: the scheduler is the
    deterministic canonical one; a *delay* skips the thread it would run next and moves it to the end of the order.  All
    schedules with at most `bound` delays are enumerated (free_only: delays only where no thread is running, i.e. at
    thread boundaries).  Returns (list of (choices, result, unjoined), stats)."""
    results = []
    stats = dict(executions=0, capped=False, max_decisions=0, max_threads=0, max_unjoined=0)

    def run(prefix):
        s = CoopScheduler(trace_files, prefix, delay_mode=True)
        with use_threads(s, modules):
            r = fn()
            s.unjoined = sum(1 for t in s.threads if t.started and not t.finished)
            s.drive(record=False)
        if s.error is not None:
            raise s.error
        if len(s.taken) < len(prefix):
            raise Divergence("execution ended before the replayed prefix was consumed")
        stats["executions"] += 1
        stats["max_decisions"] = max(stats["max_decisions"], len(s.taken))
        stats["max_threads"] = max(stats["max_threads"], len(s.threads))
        stats["max_unjoined"] = max(stats["max_unjoined"], s.unjoined)
        return s, r

    def rec(prefix, used):
        if stats["executions"] >= cap:
            stats["capped"] = True
            return
        s, r = run(prefix)
        results.append((list(s.taken), r, s.unjoined))
        if used >= bound:
            return
        for i in range(len(prefix), len(s.points)):
            p = s.points[i]
            if len(p["enabled"]) < 2 or (free_only and p["running"] is not None):
                continue
            rec(list(s.taken[:i]) + [1], used + 1)

    rec([], 0)
    return results, stats


def explore_threads(fn, modules, trace_files, bound=1, cap=5000):
    """Depth-first enumeration of all schedules of fn() with at most `bound` preemptions.

    fn() must create its threads through `modules`' Thread attribute.  Returns
    (list of (choices, result), stats dict).  Every execution replays a prefix exactly (divergence
    is a hard error) and then takes choice 0 (keep running the current thread) at later points.
    """
    results = []
    stats = dict(executions=0, capped=False, max_decisions=0, max_threads=0)

    def run(prefix):
        s = CoopScheduler(trace_files, prefix)
        with use_threads(s, modules):
            r = fn()
            # threads the function under test has not waited for: counted, then run to completion (clean-up only; the
            # result was taken when the function returned)
            s.unjoined = sum(1 for t in s.threads if t.started and not t.finished)
            s.drive(record=False)
        stats["max_unjoined"] = max(stats.get("max_unjoined", 0), s.unjoined)
        if s.error is not None:
            raise s.error
        if len(s.taken) < len(prefix):
            raise Divergence("execution ended before the replayed prefix was consumed")
        stats["executions"] += 1
        stats["max_decisions"] = max(stats["max_decisions"], len(s.taken))
        stats["max_threads"] = max(stats["max_threads"], len(s.threads))
        return s, r

    def preemptions(points, taken, upto):
        n = 0
        for i in range(upto):
            p = points[i]
            if p["running"] is not None and taken[i] != 0:
                n += 1
        return n

    def rec(prefix):
        if stats["executions"] >= cap:
            stats["capped"] = True
            return
        s, r = run(prefix)
        results.append((list(s.taken), r))
        for i in range(len(prefix), len(s.points)):
            p = s.points[i]
            cost = preemptions(s.points, s.taken, i)
            for alt in range(1, len(p["enabled"])):
                c = cost + (1 if p["running"] is not None else 0)
                if c > bound:
                    continue
                rec(list(s.taken[:i]) + [alt])

    rec([])
    return results, stats
