"""Driver: enumerate a check's cases, execute them on the real code in a process pool,
merge deterministically, match violations against the committed known findings, write
replay files and the evidence file, print VIOLATION / KNOWN-FINDING lines.

Check module interface (vf/checks/cNN.py):

    ID, RULE (str), ASSUMPTIONS (list[str]), BOUNDS(tier) -> dict (optional)
    plan(tier, seed) -> list[case]         case: JSON-serialisable dict with a unique "key"
    run(case) -> dict with
        viol:        list of {key, what, observed, expected, tol}
        states:      distinct canonical states / configurations visited in this case
        transitions: operations / evaluations of real code executed
        traces:      executions of real code compared against the oracle
        nontrivial:  list of keys (str) of distinct non-trivial comparisons (or int)
        outcomes:    list of outcome-class labels (str)
        sample:      one written-out explored case (optional)
        capped:      True if a cap was hit (optional)
        digest:      string that must be identical when the same case is re-run (optional)
        notes:       list[str] (optional)
"""

import argparse
import hashlib
import importlib
import json
import os
import shutil
import subprocess
import sys
import time
import traceback

ROOT = os.path.dirname(os.path.dirname(os.path.abspath(__file__)))
ALL = ["C%02d" % i for i in range(1, 21)]
MAX_REPLAY_FILES = 40


def _jsonable(x):
    import numpy as np

    if isinstance(x, dict):
        return {str(k): _jsonable(v) for k, v in x.items()}
    if isinstance(x, (list, tuple, set)):
        return [_jsonable(v) for v in x]
    if isinstance(x, np.ndarray):
        return _jsonable(x.tolist())
    if isinstance(x, (np.floating,)):
        return float(x)
    if isinstance(x, (np.integer,)):
        return int(x)
    if isinstance(x, (np.bool_,)):
        return bool(x)
    if isinstance(x, float):
        if x != x or x in (float("inf"), float("-inf")):
            return repr(x)
        return x
    if isinstance(x, (int, str, bool)) or x is None:
        return x
    return repr(x)


def _load(pid):
    return importlib.import_module("vf.checks." + pid.lower())


_MOD = None


def _init_worker(pid, runid=None):
    global _MOD
    os.environ.setdefault("VERIF_WORKER", "1")
    scratch = os.path.join(ROOT, ".scratch", "run%s" % (runid or os.getpid()), "w%d" % os.getpid())
    os.makedirs(scratch, exist_ok=True)
    os.chdir(scratch)
    _MOD = _load(pid)


def _run_case(case):
    t0 = time.time()
    try:
        res = _MOD.run(case)
    except Exception as e:  # an exception on a valid input is itself an observation
        tb = traceback.format_exc()
        res = {
            "viol": [
                {
                    "key": case["key"] + "/exception",
                    "what": "real code (or oracle) raised on a valid case",
                    "observed": "%s: %s" % (type(e).__name__, e),
                    "expected": "no exception",
                    "tol": 0,
                    "traceback": tb[-3000:],
                }
            ],
            "states": 0,
            "transitions": 0,
            "traces": 0,
            "nontrivial": [],
            "outcomes": ["exception"],
        }
    res["wall"] = time.time() - t0
    res["case_key"] = case["key"]
    return _jsonable(res)


def _known():
    p = os.path.join(ROOT, "KNOWN_FINDINGS.json")
    if not os.path.exists(p):
        return []
    with open(p) as f:
        return json.load(f)["findings"]


def _match_known(pid, key, known):
    for k in known:
        if k.get("property") == pid and k.get("status") == "known":
            if key == k["key"] or key.startswith(k["key"].rstrip("/") + "/"):
                return k
    return None


def _cleanup_scratch():
    # only this run's own scratch directory (several checks may run at the same time)
    shutil.rmtree(os.path.join(ROOT, ".scratch", "run%d" % os.getpid()), ignore_errors=True)


def execute(pid, tier, seed, only_case=None, jobs=None):
    mod = _load(pid)
    t0 = time.time()
    cases = mod.plan(tier, seed)
    keys = [c["key"] for c in cases]
    assert len(set(keys)) == len(keys), "duplicate case keys in plan"
    if only_case is not None:
        cases = [c for c in cases if c["key"] == only_case]
        if not cases:
            raise SystemExit("replay: case key %r not in the plan any more" % only_case)
    jobs = jobs or int(os.environ.get("VERIF_JOBS", "16"))
    jobs = max(1, min(jobs, len(cases)))
    results = []
    if jobs == 1 or getattr(mod, "INPROCESS", False):
        _init_worker(pid, os.getpid())
        for c in cases:
            results.append(_run_case(c))
        determinism = None
        if cases and only_case is None:
            again = _run_case(cases[0])
            determinism = again.get("digest") == results[0].get("digest")
    else:
        import concurrent.futures as cf
        import multiprocessing as mp

        ctx = mp.get_context("spawn")
        with cf.ProcessPoolExecutor(
            max_workers=jobs, mp_context=ctx, initializer=_init_worker, initargs=(pid, os.getpid())
        ) as ex:
            # longest first (modules may give a cost hint), results merged in plan order
            order = sorted(range(len(cases)), key=lambda i: -cases[i].get("cost", 1))
            futs = {i: ex.submit(_run_case, cases[i]) for i in order}
            again_f = ex.submit(_run_case, cases[0]) if only_case is None else None
            results = [futs[i].result() for i in range(len(cases))]
            determinism = None
            if again_f is not None:
                determinism = again_f.result().get("digest") == results[0].get("digest")
    os.chdir(ROOT)
    _cleanup_scratch()
    return mod, cases, results, determinism, time.time() - t0


def report(pid, tier, seed, mod, cases, results, determinism, wall, write_evidence=True):
    known = _known()
    viols = []
    for r in results:
        for v in r.get("viol", []):
            v = dict(v)
            v["case_key"] = r["case_key"]
            viols.append(v)
    new, kn = [], []
    for v in viols:
        k = _match_known(pid, v["key"], known)
        (kn if k else new).append((v, k))
    if determinism is False:
        new.append(
            (
                {
                    "key": cases[0]["key"] + "/nondeterministic",
                    "case_key": cases[0]["key"],
                    "what": "same case executed twice gave different observations",
                    "observed": "digest mismatch",
                    "expected": "identical",
                    "tol": 0,
                },
                None,
            )
        )
    # --- known findings: one line per listed finding that fired
    fired = {}
    for v, k in kn:
        fired.setdefault(k["key"], [k, 0])[1] += 1
    for key, (k, n) in sorted(fired.items()):
        print("KNOWN-FINDING: property=%s %s [%s; %d failing comparisons]" % (pid, k["what"], key, n))
    # --- new violations: replay files, grouped per case
    os.makedirs(os.path.join(ROOT, "replays"), exist_ok=True)
    if write_evidence:  # a full run supersedes the replay files of earlier runs of this property
        for n in os.listdir(os.path.join(ROOT, "replays")):
            if n.startswith(pid + "-"):
                os.remove(os.path.join(ROOT, "replays", n))
    bycase = {}
    for v, _ in new:
        bycase.setdefault(v["case_key"], []).append(v)
    case_by_key = {c["key"]: c for c in cases}
    nfiles = 0
    for ck, vs in bycase.items():
        if nfiles >= MAX_REPLAY_FILES:
            print("... %d further violating cases not written out" % (len(bycase) - nfiles))
            break
        h = hashlib.sha1((pid + ck).encode()).hexdigest()[:10]
        path = os.path.join("replays", "%s-%s.json" % (pid, h))
        with open(os.path.join(ROOT, path), "w") as f:
            json.dump(
                {
                    "property": pid,
                    "tier": tier,
                    "seed": seed,
                    "case": case_by_key[ck],
                    "violations": vs[:50],
                    "n_violations": len(vs),
                    "cmd": "./check %s --replay %s" % (pid, path),
                },
                f,
                indent=1,
            )
        nfiles += 1
        first = vs[0]
        print(
            "VIOLATION property=%s replay=%s key=%s what=%s observed=%s expected=%s (+%d more in this case)"
            % (
                pid,
                os.path.join(ROOT, path),
                first["key"],
                first["what"],
                str(first.get("observed"))[:160],
                str(first.get("expected"))[:160],
                len(vs) - 1,
            )
        )
    # --- evidence
    states = sum(int(r.get("states", 0)) for r in results)
    transitions = sum(int(r.get("transitions", 0)) for r in results)
    traces = sum(int(r.get("traces", 0)) for r in results)
    nontriv = set()
    nontriv_int = 0
    for r in results:
        nt = r.get("nontrivial", [])
        if isinstance(nt, int):
            nontriv_int += nt
        else:
            nontriv.update(r["case_key"] + "/" + str(x) for x in nt)
    outcomes = sorted({o for r in results for o in r.get("outcomes", [])})
    capped = any(r.get("capped") for r in results)
    samples = [r["sample"] for r in results if r.get("sample") is not None][:4]
    if not samples:
        samples = [c for c in cases[:3]]
    notes = sorted({n for r in results for n in r.get("notes", [])})
    cov = {
        "states": states,
        "transitions": transitions,
        "traces_validated_against_impl": traces,
        "evaluations": transitions,
        "distinct_nontrivial": len(nontriv) + nontriv_int,
        "rule": mod.RULE,
        "samples": samples,
        "exhaustive": (not capped),
        "cases": len(cases),
        "distinct_outcomes": len(outcomes),
        "outcome_classes": outcomes[:40],
        "bounds": mod.BOUNDS(tier) if hasattr(mod, "BOUNDS") else {},
        "capped": capped,
        "determinism_recheck": determinism,
        "known_findings_fired": sorted(fired),
        "new_violations": len(new),
        "slowest_cases": sorted(
            ((round(r["wall"], 2), r["case_key"]) for r in results), reverse=True
        )[:5],
        "notes": notes[:40],
    }
    ev = {
        "property_id": pid,
        "tier": tier,
        "seed": seed,
        "level": getattr(mod, "LEVEL", "model_checking"),
        "coverage": cov,
        "assumptions": list(mod.ASSUMPTIONS),
        "wall_s": round(wall, 2),
        "violations": len(new),
    }
    if write_evidence:
        os.makedirs(os.path.join(ROOT, "evidence"), exist_ok=True)
        p = os.path.join(ROOT, "evidence", pid + ".json")
        with open(p, "w") as f:
            json.dump(_jsonable(ev), f, indent=1)
        _validate(p)
    print(
        "%s tier=%s seed=%d cases=%d states=%d transitions=%d traces=%d nontrivial=%d outcomes=%d "
        "exhaustive=%s known=%d new_violations=%d wall=%.1fs"
        % (
            pid,
            tier,
            seed,
            len(cases),
            states,
            transitions,
            traces,
            cov["distinct_nontrivial"],
            len(outcomes),
            not capped,
            len(kn),
            len(new),
            wall,
        )
    )
    return 1 if new else 0


def _validate(path):
    vt = shutil.which("python3-vt")
    schema = "/root/.vp/EVIDENCE.schema.json"
    if not vt or not os.path.exists(schema):
        return
    code = (
        "import json,sys,jsonschema;"
        "jsonschema.validate(json.load(open(sys.argv[1])),json.load(open(sys.argv[2])))"
    )
    r = subprocess.run([vt, "-c", code, path, schema], capture_output=True, text=True)
    if r.returncode != 0:
        print("evidence file does not validate:\n" + r.stderr[-2000:])
        raise SystemExit(2)


def main(argv=None):
    ap = argparse.ArgumentParser()
    ap.add_argument("pid")
    ap.add_argument("--tier", default=os.environ.get("VERIF_TIER", "quick"), choices=["quick", "thorough"])
    ap.add_argument("--replay")
    ap.add_argument("--jobs", type=int)
    ap.add_argument("--case")
    a = ap.parse_args(argv)
    seed = int(os.environ.get("VERIF_SEED", "0") or 0)
    if a.pid == "all":
        rc = 0
        for pid in ALL:
            if os.path.exists(os.path.join(ROOT, "vf", "checks", pid.lower() + ".py")):
                rc |= subprocess.call([sys.executable, "-m", "vf.run", pid, "--tier", a.tier])
        return rc
    pid = a.pid.upper()
    if a.replay:
        with open(a.replay) as f:
            rp = json.load(f)
        mod, cases, results, det, wall = execute(pid, rp["tier"], rp["seed"], only_case=rp["case"]["key"], jobs=1)
        bad = [v for r in results for v in r.get("viol", [])]
        for v in bad[:30]:
            print(json.dumps(_jsonable(v))[:1500])
        print("replay %s: %d violations (recorded: %d)" % (rp["case"]["key"], len(bad), rp["n_violations"]))
        known = _known()
        return 1 if [v for v in bad if not _match_known(pid, v["key"], known)] else 0
    mod, cases, results, det, wall = execute(pid, a.tier, seed, only_case=a.case, jobs=a.jobs)
    return report(pid, a.tier, seed, mod, cases, results, det, wall, write_evidence=(a.case is None))


if __name__ == "__main__":
    sys.exit(main())
