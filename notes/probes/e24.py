import numpy as np, felupe as fem, meshio, os
from felupe.mesh._geometry import RectangleArbitraryOrderQuad, CubeArbitraryOrderHexahedron
Q=fem.Rectangle(n=3); H=fem.Cube(n=3)
zoo={"line":fem.mesh.Line(n=3),"quad":Q,"quad8":Q.add_midpoints_edges(),"quad9":Q.add_midpoints_edges().add_midpoints_faces(),"hexahedron":H,"hexahedron20":H.add_midpoints_edges(),
 "hexahedron27":H.add_midpoints_edges().add_midpoints_faces().add_midpoints_volumes(),"triangle":Q.triangulate(),"triangle6":Q.triangulate().add_midpoints_edges(),"tetra":H.triangulate(),"tetra10":H.triangulate().add_midpoints_edges(),
 "vertex":fem.Point(a=1.0), "lagquad":RectangleArbitraryOrderQuad(order=3), "laghex":CubeArbitraryOrderHexahedron(order=3)}
for name,m in zoo.items():
    for ext in ("vtk","vtu","xdmf"):
        fn=f"m_{name}.{ext}"
        try:
            m.write(fn); c=fem.mesh.read(fn); m2=c.meshes[0]
            ok=(m2.cell_type==m.cell_type, np.array_equal(m2.cells,m.cells), np.allclose(m2.points[:, :m.dim],m.points), m2.points.shape[1])
            print(f"{name:13s}{ext:5s}", ok, end=" | ")
        except Exception as e: print(f"{name:13s}{ext:5s} ERR {type(e).__name__}: {str(e)[:50]}", end=" | ")
    print()
# container merge shares one points array
c=fem.MeshContainer([Q, Q.translate(1,0)]); m=c.as_meshio(combined=False); m.write("cont.vtk")
r=fem.mesh.read("cont.vtk", dim=2, merge=True, decimals=8); print("shared", all(x.points is r.points for x in r.meshes), len(r.points), [x.ncells for x in r.meshes])
