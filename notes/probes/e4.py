# feasibility probe: controlled scheduler for felupe's Form(parallel=True) threads
import sys, threading, itertools, time
import numpy as np, felupe as fem
import felupe.assembly.expression._bilinear as B

class Sched:
    def __init__(self, choices): self.choices=list(choices); self.pos=0; self.trace=[]; self.points=[]
class CThread:
    sched=None; registry=[]
    def __init__(self, target, args=()):
        self.target, self.args = target, args
        self.sem = threading.Semaphore(0); self.done=False; self.started=False
        self.t = threading.Thread(target=self._run)
        CThread.registry.append(self)
    def _trace(self, frame, event, arg):
        if frame.f_code is self.target.__code__:
            if event == 'line':
                self._yield()
            return self._trace
        return None
    def _yield(self):
        CThread.main_sem.release(); self.sem.acquire()
    def _run(self):
        self.sem.acquire()
        sys.settrace(self._trace)
        try: self.target(*self.args)
        finally:
            sys.settrace(None); self.done=True; CThread.main_sem.release()
    def start(self):
        self.started=True; self.t.start()
    def join(self):
        # first join drives the whole schedule
        if not CThread.driven:
            CThread.driven=True; drive()
        self.t.join()

def drive():
    s = CThread.sched
    cur=None
    while True:
        en=[i for i,t in enumerate(CThread.registry) if t.started and not t.done]
        if not en: break
        # canonical order: current first
        if cur in en: en=[cur]+[i for i in en if i!=cur]
        c = s.choices[s.pos] if s.pos < len(s.choices) else 0
        s.pos+=1; s.points.append(len(en))
        if c>=len(en): raise RuntimeError("bad choice")
        cur=en[c]; s.trace.append(cur)
        CThread.registry[cur].sem.release(); CThread.main_sem.acquire()

def run(choices):
    CThread.registry=[]; CThread.sched=Sched(choices); CThread.main_sem=threading.Semaphore(0); CThread.driven=False
    mesh = fem.mesh.Line(n=3); region = fem.Region(mesh, fem.Line(), fem.GaussLegendre(1,1))
    u = fem.Field(region, dim=1); f = fem.FieldContainer([u])
    form = fem.Form(lambda: [lambda v,u,**kw: fem.math.ddot(v.grad, u.grad) ], v=f, u=f) if False else None
    @fem.Form(v=f, u=f)
    def a():
        return [lambda v,u: v*u + 0*fem.math.ddot(fem.math.grad(v), fem.math.grad(u))]
    K = a.assemble(v=f, u=f, parallel=True, sym=True).toarray()
    return K, CThread.sched
B.Thread = CThread
t0=time.time()
K0,s = run([])
print("points", len(s.points), s.points[:40], "threads", len(CThread.registry))
# explore all with <=1 preemption naive: alt choice at each point
n=0; outs=set()
for i in range(len(s.points)):
    for alt in range(1, s.points[i]):
        K,s2 = run([0]*i+[alt]); n+=1; outs.add(K.tobytes())
        assert np.allclose(K,K0)
print("execs", n, "distinct", len(outs), "time", time.time()-t0)
