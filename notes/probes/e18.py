import numpy as np, felupe as fem, itertools
from scipy.sparse import csr_matrix, identity
from felupe.mechanics._helpers import Assemble, Results
class Scripted:
    """item whose residual follows a script: answers 'c' (converged), 'n' (not yet), 'N' (NaN)"""
    def __init__(self, field, script):
        self.field=field; self.script=list(script); self.k=0
        self.results=Results(); self.results.statevars=np.zeros(1); self.results._statevars=None
        self.assemble=Assemble(vector=self._vector, matrix=self._matrix)
        self.calls=[]
    def _vector(self, field=None, parallel=False):
        if field is not None: self.field=field
        n=sum(self.field.fieldsizes)
        ans = self.script[self.k-1] if self.k>0 else 'n'   # first call (k=0) is the initial residual
        mag = {'c':0.0,'n':1.0,'N':np.nan}[ans]
        self.results._statevars=np.array([float(self.k)])    # trial state = index of evaluation
        self.calls.append(('v',self.k,ans)); self.k+=1
        return csr_matrix(np.full((n,1), mag))
    def _matrix(self, field=None, parallel=False):
        n=sum(self.field.fieldsizes); return identity(n, format="csr")
def run(script, maxiter):
    m=fem.mesh.Line(n=3); r=fem.Region(m, fem.Line(), fem.GaussLegendre(1,1)); f=fem.FieldContainer([fem.Field(r,dim=1)])
    it=Scripted(f, script)
    try:
        res=fem.newtonrhapson(items=[it], maxiter=maxiter, verbose=False, dof0=np.array([0]), dof1=np.array([1,2]), ext0=np.zeros(1))
        return ("ret", res.success, res.iterations, float(it.results.statevars[0]))
    except Exception as e:
        return ("raise", type(e).__name__, float(it.results.statevars[0]))
outs={}
for maxiter in (1,2,3):
    for script in itertools.product("cnN", repeat=maxiter):
        o=run(script,maxiter)
        # oracle
        exp=None
        for i,a in enumerate(script):
            if a=='c': exp=("ret",True,i+1,float(i+1)); break
            if a=='N': exp=("raise","ValueError",0.0); break
        if exp is None: exp=("raise","ValueError",0.0)
        ok = o==exp
        outs[(maxiter,''.join(script))]=(o,ok)
bad={k:v for k,v in outs.items() if not v[1]}
print(len(outs),"executions; mismatches:",bad)
print(sorted(set(v[0][:2] for v in outs.values())))
