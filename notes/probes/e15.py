import numpy as np, felupe as fem, itertools, warnings
rng=np.random.default_rng(4)
def monos(dim, deg, tensor):
    out=[]
    for e in itertools.product(range(deg+1), repeat=dim):
        if tensor or sum(e)<=deg: out.append(e)
    return out
def evalm(e, X): return np.prod([X[...,i]**e[i] for i in range(len(e))],axis=0)
def gradm(e, X):
    g=[]
    for k in range(len(e)):
        if e[k]==0: g.append(np.zeros(X.shape[:-1])); continue
        ee=list(e); ee[k]-=1; g.append(e[k]*evalm(ee,X))
    return np.stack(g,0)
def affine(dim):
    A = np.eye(dim)+0.3*rng.uniform(-1,1,(dim,dim)); return A, rng.uniform(-1,1,dim)
def run(name, mesh, R, order, tensor, kw={}):
    dim=mesh.dim
    A,b=affine(dim); m=mesh.copy(); m.points = m.points@A.T+b
    with warnings.catch_warnings():
        warnings.simplefilter("error", UserWarning)
        r=R(m, **kw)
    V = r.dV.sum(); Vex = abs(np.linalg.det(A))*1.0
    xq = np.einsum("caI,aqc->qcI", m.points[m.cells[:, :r.h.shape[0]]] if r.h.shape[0]<=m.cells.shape[1] else None, r.h) if r.h.shape[0]<=m.cells.shape[1] else None
    if xq is None: print(name,"skip xq"); return
    worst_v=worst_g=0
    nn = r.h.shape[0]
    if nn!=r.mesh.cells.shape[1]:
        print(f"{name:28s} V err {abs(V-Vex):.1e} (enriched; skip repro) minDV {r.dV.min():.2e}"); return
    for e in monos(dim, order, tensor):
        f = fem.Field(r, dim=1, values=evalm(e, r.mesh.points).reshape(-1,1))
        worst_v=max(worst_v, np.abs(f.interpolate()[0]-evalm(e,xq)).max())
        worst_g=max(worst_g, np.abs(f.grad()[0]-gradm(e,xq)).max())
    # stiffness exactness: compare sum dhdX dhdX dV with high-order rule
    print(f"{name:28s} V err {abs(V-Vex):.1e} val {worst_v:.1e} grad {worst_g:.1e} minDV {r.dV.min():.2e}")
Q=fem.Rectangle(n=3); H=fem.Cube(n=3)
run("RegionQuad", Q, fem.RegionQuad, 1, True)
run("RegionQuadraticQuad", Q.add_midpoints_edges(), fem.RegionQuadraticQuad, 2, False)
run("RegionBiQuadraticQuad", Q.add_midpoints_edges().add_midpoints_faces(), fem.RegionBiQuadraticQuad, 2, True)
run("RegionHexahedron", H, fem.RegionHexahedron, 1, True)
run("RegionQuadraticHexahedron", H.add_midpoints_edges(), fem.RegionQuadraticHexahedron, 2, False)
run("RegionTriQuadraticHexahedron", H.add_midpoints_edges().add_midpoints_faces().add_midpoints_volumes(), fem.RegionTriQuadraticHexahedron, 2, True)
T=Q.triangulate(); TT=H.triangulate()
run("RegionTriangle", T, fem.RegionTriangle, 1, False)
run("RegionQuadraticTriangle", T.add_midpoints_edges(), fem.RegionQuadraticTriangle, 2, False)
run("RegionTetra", TT, fem.RegionTetra, 1, False)
run("RegionQuadraticTetra", TT.add_midpoints_edges(), fem.RegionQuadraticTetra, 2, False)
run("RegionTriangleMINI", T, fem.RegionTriangleMINI, 1, False)
run("RegionTetraMINI", TT, fem.RegionTetraMINI, 1, False)
from felupe.mesh._geometry import RectangleArbitraryOrderQuad, CubeArbitraryOrderHexahedron
for o in (2,3,4):
    run(f"RegionLagrange o{o} d2", RectangleArbitraryOrderQuad(order=o), fem.RegionLagrange, o, True, dict(order=o, dim=2))
for o in (2,3):
    run(f"RegionLagrange o{o} d3", CubeArbitraryOrderHexahedron(order=o), fem.RegionLagrange, o, True, dict(order=o, dim=3))
