import numpy as np, felupe as fem, warnings, copy
exec(open("e3.py").read().split("def mesh3")[0].split("rng = ")[1].split("\n",1)[1])
rng = np.random.default_rng(1)
def mesh3():
    m = fem.Cube(n=3); m.points[13] += rng.uniform(-.1,.1,3); return m
# NI body settled residual
def ni_check(axi=False, ps=False):
    if axi or ps:
        m = fem.Rectangle(a=(0,0.5), b=(1,1.5), n=3); m.points[4]+= [.05,.03]; r=fem.RegionQuad(m)
        u = (fem.FieldAxisymmetric if axi else fem.FieldPlaneStrain)(r, dim=2)
    else:
        m = mesh3(); r = fem.RegionHexahedron(m); u = fem.Field(r, dim=3)
    f = fem.FieldContainer([u]); U0 = rng.uniform(-.05,.05,u.values.shape)
    def make(): 
        u.values[:] = 0
        b = fem.SolidBodyNearlyIncompressible(fem.NeoHooke(mu=1.), f, bulk=50.)
        return b
    def R(U):
        b = make(); u.values[:] = U; b.assemble.vector(f); v = b.assemble.vector(f).toarray()[:,0]; return v, b
    v0,b = R(U0); K = b.assemble.matrix().toarray()
    n=U0.size; Kn=np.zeros((n,n)); h=1e-6
    for j in range(n):
        e=np.zeros(n); e[j]=h; e=e.reshape(U0.shape)
        Kn[:,j]=(R(U0+e)[0]-R(U0-e)[0])/(2*h)
    print(f"NI axi={axi} ps={ps} relerr {np.abs(K-Kn).max()/np.abs(K).max():.1e} sym {np.abs(K-K.T).max()/np.abs(K).max():.1e}")
ni_check(); ni_check(axi=True); ni_check(ps=True)
def gen(items_f, name):
    fd_check(items_f, name)
def mpc():
    m = mesh3(); r = fem.RegionHexahedron(m); u = fem.Field(r, dim=3); f = fem.FieldContainer([u]); u.values[:] = rng.uniform(-.05,.05,u.values.shape)
    return f, [fem.SolidBody(fem.NeoHooke(mu=1.,bulk=2.), f), fem.MultiPointConstraint(f, points=np.array([2,5,8]), centerpoint=26, skip=(0,1,0), multiplier=10.)]
gen(mpc,"MPC")
def contact():
    m = mesh3(); r = fem.RegionHexahedron(m); u = fem.Field(r, dim=3); f = fem.FieldContainer([u]); u.values[:] = rng.uniform(-.02,.02,u.values.shape)
    m.add_points([[2.,0.5,0.5]]); r = fem.RegionHexahedron(m); u = fem.Field(r, dim=3); f = fem.FieldContainer([u]); u.values[:] = rng.uniform(-.02,.02,u.values.shape)
    u.values[27] = [-1.3, 0, 0]  # center point moved so that x=1 face points penetrate (xc=0.7<1)
    pts = np.where(m.points[:27,0]==1)[0]
    return f, [fem.SolidBody(fem.NeoHooke(mu=1.,bulk=2.), f), fem.MultiPointContact(f, points=pts, centerpoint=27, skip=(0,1,1), multiplier=10.)]
gen(contact,"Contact (closed)")
def cauchy():
    m = mesh3(); r = fem.RegionHexahedron(m); u = fem.Field(r, dim=3); f = fem.FieldContainer([u]); u.values[:] = rng.uniform(-.05,.05,u.values.shape)
    rb = fem.RegionHexahedronBoundary(m, mask=m.points[:,0]==1); ub = fem.Field(rb, dim=3); fb = fem.FieldContainer([ub])
    S = np.array([[1.,.2,.1],[.2,-.5,.3],[.1,.3,.4]])
    return f, [fem.SolidBody(fem.NeoHooke(mu=1.,bulk=2.), f), fem.SolidBodyCauchyStress(fb, cauchy_stress=S)]
gen(cauchy,"CauchyStress")
def paxi():
    m = fem.Rectangle(a=(0,0.5), b=(1,1.5), n=3); m.points[4]+= [.05,.03]; r=fem.RegionQuad(m); u=fem.FieldAxisymmetric(r,dim=2); f=fem.FieldContainer([u]); u.values[:] = rng.uniform(-.05,.05,u.values.shape)
    rb = fem.RegionQuadBoundary(m, mask=m.points[:,1]==1.5, ensure_3d=True); ub=fem.FieldAxisymmetric(rb,dim=2); fb=fem.FieldContainer([ub])
    return f, [fem.SolidBody(fem.NeoHooke(mu=1.,bulk=2.), f), fem.SolidBodyPressure(fb, pressure=0.7)]
gen(paxi,"pressure axi")
def pps():
    m = fem.Rectangle(n=3); m.points[4]+= [.05,.03]; r=fem.RegionQuad(m); u=fem.FieldPlaneStrain(r,dim=2); f=fem.FieldContainer([u]); u.values[:] = rng.uniform(-.05,.05,u.values.shape)
    rb = fem.RegionQuadBoundary(m, mask=m.points[:,1]==1, ensure_3d=True); ub=fem.FieldPlaneStrain(rb,dim=2); fb=fem.FieldContainer([ub])
    return f, [fem.SolidBody(fem.NeoHooke(mu=1.,bulk=2.), f), fem.SolidBodyPressure(fb, pressure=0.7)]
gen(pps,"pressure planestrain")
# C14 balance
m = mesh3(); r = fem.RegionHexahedron(m); u = fem.Field(r, dim=3); f = fem.FieldContainer([u]); u.values[:] = rng.uniform(-.05,.05,u.values.shape)
fo = fem.SolidBody(fem.NeoHooke(mu=1.,bulk=2.), f, density=1.7).assemble.vector(f).toarray().reshape(-1,3)
x = m.points+u.values
print("sum f", np.abs(fo.sum(0)).max(), "moment", np.abs(np.cross(x,fo).sum(0)).max())
M = fem.SolidBody(fem.NeoHooke(mu=1.,bulk=2.), f, density=1.7).assemble.mass().toarray()
print("mass sym", np.abs(M-M.T).max(), "min eig", np.linalg.eigvalsh(M).min(), "total", [M[i::3,i::3].sum() for i in range(3)], 1.7*r.dV.sum())
rb = fem.RegionHexahedronBoundary(m); ub = fem.Field(rb, dim=3); fb = fem.FieldContainer([ub]); ub.values[:] = u.values
pv = fem.SolidBodyPressure(fb, pressure=0.7).assemble.vector(fb).toarray().reshape(-1,3)
print("closed pressure sum", np.abs(pv.sum(0)).max())
bf = fem.SolidBodyForce(f, values=[1,2,3], scale=1.5).assemble.vector().toarray().reshape(-1,3).sum(0); print("body force", bf, 1.5*np.array([1,2,3])*r.dV.sum())
with warnings.catch_warnings():
    warnings.simplefilter("ignore")
    g = fem.SolidBodyGravity(f, gravity=[1,2,3], density=1.5).assemble.vector().toarray().reshape(-1,3).sum(0); print("gravity", g)
pl = fem.PointLoad(f, [1,5,5], values=[[1,2,3],[4,5,6],[7,8,9]]).assemble.vector().toarray().reshape(-1,3); print("pointload rows", pl[1], pl[5])
