import numpy as np, felupe as fem, itertools, time
import felupe.constitution as C
def model(umat_f, statevars=True):
    m=fem.Cube(n=2); r=fem.RegionHexahedron(m); f=fem.FieldContainer([fem.Field(r,dim=3)])
    b,lc=fem.dof.uniaxial(f, clamped=False)
    sb=fem.SolidBody(umat_f(), f)
    return f,b,sb
def run_hist(umat_f, hist):
    f,b,sb=model(umat_f); seen=[]
    step=fem.Step([sb], ramp={b["move"]: np.array(hist)}, boundaries=b)
    out=[]
    for i,res in enumerate(step.generate(verbose=False)):
        F=res.x.extract()[0]; 
        out.append(dict(move=hist[i], u=res.x[0].values.copy(), sv=sb.results.statevars.copy(), F=F.copy(), ext=res.x[0].values[b["move"].points,0].copy(), f=fem.tools.force(res.x,res.fun,b["move"])[0]))
    return out, sb
orx=lambda: fem.OgdenRoxburgh(fem.NeoHooke(mu=1.,bulk=5.), r=3,m=1,beta=.1)
t0=time.time()
out,sb=run_hist(orx,[0.2,0.5,0.2,0.5,0.7])
print("time/substep", (time.time()-t0)/5)
nh=fem.NeoHooke(mu=1.,bulk=5.)
Ws=[nh.function([o["F"],None])[0] for o in out]
print("applied in order", [float(o["ext"].max()) for o in out])
print("Wmax stored", [float(o["sv"][0].max()) for o in out]); print("running max W", list(np.maximum.accumulate([float(w.max()) for w in Ws])))
print("force", [round(float(o["f"]),6) for o in out], " (reload at .5 == first .5 ?)")
# primary path equals base material
outb,_=run_hist(lambda: nh,[0.2,0.5,0.7])
print("primary == base:", out[0]["f"]-outb[0]["f"], out[1]["f"]-outb[1]["f"], out[4]["f"]-outb[2]["f"])
# path independence for elastic
a,_=run_hist(lambda: nh,[0.5]); b_,_=run_hist(lambda: nh,[0.1,0.3,0.5]); c,_=run_hist(lambda: nh,[0.7,0.2,0.5])
print("path indep", np.abs(a[-1]["u"]-b_[-1]["u"]).max(), np.abs(a[-1]["u"]-c[-1]["u"]).max())
# plasticity
pl=lambda: fem.LinearElasticPlasticIsotropicHardening(E=100.,nu=.3,sy=1.,K=10.)
outp,sbp=run_hist(pl,[0.005,0.02,0.01,0.03])
for o in outp:
    sv=o["sv"]; print("alpha max", float(sv[0].max()), "shape", sv.shape)
