import ast, sys, io, tokenize
# print source with docstrings and license header removed, keeping line numbers
for fn in sys.argv[1:]:
    src = open(fn).read()
    tree = ast.parse(src)
    skip = set()
    for node in ast.walk(tree):
        if isinstance(node, (ast.Module, ast.ClassDef, ast.FunctionDef, ast.AsyncFunctionDef)):
            b = node.body
            if b and isinstance(b[0], ast.Expr) and isinstance(getattr(b[0], 'value', None), ast.Constant) and isinstance(b[0].value.value, str):
                for l in range(b[0].lineno, b[0].end_lineno + 1):
                    skip.add(l)
    print(f"##### {fn}")
    blank = False
    for i, line in enumerate(src.splitlines(), 1):
        if i in skip: continue
        if not line.strip():
            if blank: continue
            blank = True
        else:
            blank = False
        print(f"{i:4d} {line}")
