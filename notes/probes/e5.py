import sys, itertools, numpy as np, felupe as fem, os, tempfile
import einsumt as E
class Lazy:
    def __init__(s, pool, f, a, k): s.pool, s.f, s.a, s.k, s.done = pool, f, a, k, False
    def run(s):
        if not s.done: s.val = s.f(*s.a, **s.k); s.done = True
    def get(s):
        s.pool.flush(); return s.val
class FakePool:
    def __init__(s, n, order): s._processes = n; s.order = order; s.tasks = []; s.log=[]
    def apply_async(s, f, args=(), kwds={}):
        t = Lazy(s, f, args, kwds); s.tasks.append(t); return t
    def flush(s):
        pend = [t for t in s.tasks if not t.done]
        if not pend: return
        perm = s.order(len(pend)); s.log.append(perm)
        for i in perm: pend[i].run()
m = fem.Cube(n=3); r = fem.RegionHexahedron(m); f = fem.FieldContainer([fem.Field(r, dim=3)])
f[0].values[:] = np.random.default_rng(0).uniform(-.05,.05,f[0].values.shape)
sb = fem.SolidBody(fem.NeoHooke(mu=1, bulk=2, parallel=True), f)
ref = sb.assemble.vector(f, parallel=False).toarray(); Kref = sb.assemble.matrix(f, parallel=False).toarray()
outs=set()
for n in (2,3):
    for perm in itertools.permutations(range(n)):
        pool = FakePool(n, lambda k, perm=perm: [p for p in perm if p < k])
        E.default_thread_pool = pool
        v = sb.assemble.vector(f, parallel=True).toarray(); K = sb.assemble.matrix(f, parallel=True).toarray()
        outs.add((np.abs(v-ref).max(), np.abs(K-Kref).max(), len(pool.log)))
print(outs)
# xdmf round trip
import meshio
d = tempfile.mkdtemp(); os.chdir(d); fn = "r.xdmf"
b, lc = fem.dof.uniaxial(f, clamped=True)
f[0].values[:] = 0
sb = fem.SolidBody(fem.NeoHooke(mu=1, bulk=2), f)
step = fem.Step([sb], ramp={b["move"]: fem.math.linsteps([0, .1], num=2)}, boundaries=b)
seen=[]
job = fem.Job([step], callback=lambda i,j,s: seen.append(s.x[0].values.copy())).evaluate(filename=fn, verbose=False)
with meshio.xdmf.TimeSeriesReader(fn) as rd:
    pts, cells = rd.read_points_cells()
    print(rd.num_steps, len(seen))
    for k in range(rd.num_steps):
        t, pd, cd = rd.read_data(k)
        print(t, np.abs(pd["Displacement"]-seen[k]).max(), list(cd.keys()))
