import numpy as np, felupe as fem, itertools, math
from fractions import Fraction
E=fem.element
def cheb(n,a,b):
    x=np.cos(np.pi*np.arange(n)/(n-1))[::-1]; return a+(b-a)*(x+1)/2
def diffmat(x):
    n=len(x); V=np.vander(x,n,increasing=True); dV=np.zeros_like(V); dV[:,1:]=V[:,:-1]*np.arange(1,n); return dV@np.linalg.inv(V)
def sweep(name, el, n, lo, hi, nodal=None):
    dim=el.points.shape[1]; x=cheb(n,lo,hi); D=diffmat(x)
    grid=np.stack(np.meshgrid(*([x]*dim),indexing="ij"),-1).reshape(-1,dim)
    H=np.array([el.function(p) for p in grid]).reshape(*([n]*dim),-1)
    G=np.array([el.gradient(p) for p in grid]).reshape(*([n]*dim),-1,dim)
    out={}
    def d(T,ax): return np.moveaxis(np.tensordot(D,np.moveaxis(T,ax,0),axes=(1,0)),0,ax)
    errs=np.zeros((H.shape[-1],dim))
    for ax in range(dim):
        errs[:,ax]=np.abs(d(H,ax)-G[...,ax]).reshape(-1,H.shape[-1]).max(0)
    out["grad"]=errs.max()
    bad=[(int(a),int(i)) for a,i in np.argwhere(errs>1e-9)]
    if hasattr(el,"hessian"):
        try:
            HH=np.array([el.hessian(p) for p in grid]).reshape(*([n]*dim),-1,dim,dim)
            eh=np.zeros((H.shape[-1],dim,dim))
            for ax in range(dim):
                eh[:,:,ax]=np.abs(d(G,ax)-HH[...,ax]).reshape(-1,H.shape[-1],dim).max(0)   # d/dr_ax of G[..., a, i] vs HH[..., a, i, ax]
            out["hess"]=eh.max(); out["hess_sym"]=np.abs(HH-np.swapaxes(HH,-1,-2)).max()
            bad+= [("h",int(a),int(i),int(j)) for a,i,j in np.argwhere(eh>1e-9)]
        except Exception as e: out["hess"]=repr(e)[:40]
    nn = nodal if nodal is not None else len(el.points)
    P=np.array([el.function(p) for p in el.points[:nn]])[:, :nn]
    out["delta"]=np.abs(P-np.eye(nn)).max()
    out["pu"]=np.abs(H[...,:nn].sum(-1)-1).max()
    print(f"{name:34s}", {k:(f"{v:.1e}" if not isinstance(v,str) else v) for k,v in out.items()}, bad[:6])
sweep("Line",E.Line(),4,-1,1); sweep("Quad",E.Quad(),4,-1,1); sweep("ConstantQuad",E.ConstantQuad(),3,-1,1); sweep("QuadraticQuad",E.QuadraticQuad(),5,-1,1); sweep("BiQuadraticQuad",E.BiQuadraticQuad(),5,-1,1)
sweep("Hexahedron",E.Hexahedron(),4,-1,1); sweep("ConstantHexahedron",E.ConstantHexahedron(),3,-1,1); sweep("QuadraticHexahedron",E.QuadraticHexahedron(),5,-1,1); sweep("TriQuadraticHexahedron",E.TriQuadraticHexahedron(),5,-1,1)
sweep("Triangle",E.Triangle(),4,0,1); sweep("QuadraticTriangle",E.QuadraticTriangle(),5,0,1); sweep("TriangleMINI",E.TriangleMINI(bubble_multiplier=2.5),6,0,1,nodal=3)
sweep("Tetra",E.Tetra(),4,0,1); sweep("QuadraticTetra",E.QuadraticTetra(),5,0,1); sweep("TetraMINI",E.TetraMINI(bubble_multiplier=2.5),7,0,1,nodal=4); sweep("Vertex",E.Vertex(),3,-1,1)
for dim in (1,2,3):
    for order in range(1, 7 if dim<3 else 5):
        for perm in (True,False):
            sweep(f"Lagrange o{order} d{dim} perm={perm}", E.ArbitraryOrderLagrange(order,dim,permute=perm), order+3, -1, 1)
# bubbles vanish on boundary
tm=E.TriangleMINI(); tt=E.TetraMINI()
xs=np.linspace(0,1,7)
print("tri bubble on edges", max(abs(tm.function(p)[3]) for p in [(x,0) for x in xs]+[(0,x) for x in xs]+[(x,1-x) for x in xs]))
pts=[(a,b,0) for a in xs for b in xs if a+b<=1]+[(a,0,b) for a in xs for b in xs if a+b<=1]+[(0,a,b) for a in xs for b in xs if a+b<=1]+[(a,b,1-a-b) for a in xs for b in xs if a+b<=1]
print("tet bubble on faces", max(abs(tt.function(p)[4]) for p in pts))
