import numpy as np, felupe as fem, warnings
rng=np.random.default_rng(7)
def zoo():
    Q=fem.Rectangle(n=3); Q.points[4]+=[.07,.05]; H=fem.Cube(n=3); H.points[13]+=[.05,.04,-.06]
    T=Q.triangulate(); TT=H.triangulate()
    yield "quad", Q, fem.RegionQuad, {}
    yield "quad8", Q.add_midpoints_edges(), fem.RegionQuadraticQuad, {}
    yield "quad9", Q.add_midpoints_edges().add_midpoints_faces(), fem.RegionBiQuadraticQuad, {}
    yield "hex", H, fem.RegionHexahedron, {}
    yield "hex20", H.add_midpoints_edges(), fem.RegionQuadraticHexahedron, {}
    yield "hex27", H.add_midpoints_edges().add_midpoints_faces().add_midpoints_volumes(), fem.RegionTriQuadraticHexahedron, {}
    yield "tri", T, fem.RegionTriangle, {}
    yield "tri6", T.add_midpoints_edges(), fem.RegionQuadraticTriangle, {}
    yield "tet", TT, fem.RegionTetra, {}
    yield "tet10", TT.add_midpoints_edges(), fem.RegionQuadraticTetra, {}
for name,m,R,kw in zoo():
    r=R(m,**kw)
    xhat = rng.normal(size=(m.npoints,2))
    f=fem.Field(r,dim=2,values=xhat)
    vq = f.interpolate()
    try:
        p = fem.project(vq, r)
        e1 = np.abs(p-xhat).max()
    except Exception as e: e1=repr(e)[:60]
    try:
        vals = rng.normal(size=(2,3,*r.dV.shape)); pp = fem.project(vals, r)
        ff = fem.Field(r, dim=6, values=pp.reshape(m.npoints,-1)); e2 = np.abs((ff.interpolate().reshape(2,3,*r.dV.shape)*r.dV).sum((-1,-2))-(vals*r.dV).sum((-1,-2))).max()
    except Exception as e: e2=repr(e)[:60]
    # topoints averaging
    try:
        v = rng.normal(size=(3,*r.dV.shape)); tp = fem.topoints(v, r)
        ref=np.zeros((m.npoints,3)); cnt=np.zeros(m.npoints)
        ppc=m.cells.shape[1]
        for c in range(m.ncells):
            for a in range(min(ppc, v.shape[1])):
                ref[m.cells[c,a]]+=v[:,a,c]; cnt[m.cells[c,a]]+=1
        e3 = np.abs(tp-ref/np.maximum(cnt,1)[:,None])[cnt>0].max() if v.shape[1]>=ppc else "nq<ppc"
    except Exception as e: e3=repr(e)[:60]
    print(f"{name:6s} project-id {e1}  integral {e2}  topoints {e3}")
# extrapolate multilinear
for name,m,R in [("quad",fem.Rectangle(n=3),fem.RegionQuad),("hex",fem.Cube(n=3),fem.RegionHexahedron)]:
    m.points[m.npoints//2]+=0.03; r=R(m); X=m.points
    vals = (1+2*X[:,0]-X[:,1]+0.5*X[:,0]*X[:,1]).reshape(-1,1)
    f=fem.Field(r,dim=1,values=vals); ex=fem.tools.extrapolate(f.interpolate(), r)
    print(name,"extrapolate", np.abs(ex-vals).max())
# stresses
m=fem.Cube(n=3); r=fem.RegionHexahedron(m); u=fem.Field(r,dim=3); f=fem.FieldContainer([u]); u.values[:]=rng.uniform(-.05,.05,u.values.shape)
sb=fem.SolidBody(fem.NeoHooke(mu=1,bulk=2),f)
P=sb.evaluate.gradient(f)[0].copy(); F=f.extract()[0]
tau=np.einsum("ij...,kj...->ik...",P,F); J=np.linalg.det(F.transpose(2,3,0,1))
print("kirchhoff", np.abs(sb.evaluate.kirchhoff_stress(f)-tau).max(), "cauchy", np.abs(sb.evaluate.cauchy_stress(f)-tau/J).max())
import pyvista
v = fem.ViewSolid(f, solid=sb)
cd = v.mesh.cell_data
s = tau/J
print(list(cd.keys()))
voigt=[(0,0),(1,1),(2,2),(0,1),(1,2),(0,2)]
print("view cauchy", max(np.abs(cd["Cauchy Stress"][:,k]-s[i,j].mean(0)).max() for k,(i,j) in enumerate(voigt)))
print("view F", np.abs(np.asarray(cd["Deformation Gradient"]).reshape(-1,3,3)-F.mean(2).transpose(2,0,1)).max(), np.abs(np.asarray(cd["Deformation Gradient"]).reshape(-1,3,3)-F.mean(2).transpose(2,1,0)).max())
b=fem.Boundary(u, fx=1); frc=sb.assemble.vector(f)
print("force", np.abs(fem.tools.force(f, frc, b)-frc.toarray().reshape(-1,3)[b.points].sum(0)).max())
x=m.points+u.values; ff=frc.toarray().reshape(-1,3)
print("moment", np.abs(fem.tools.moment(f, frc, b, centerpoint=[.1,.2,.3])-np.cross(x[b.points]-[.1,.2,.3], ff[b.points]).sum(0)).max())
