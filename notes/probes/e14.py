import numpy as np, felupe as fem, itertools
from felupe import math as M
rng=np.random.default_rng(2)
def batch(shape, d): return rng.normal(size=(*shape, 2, 3)) 
def per_item(f, *args):
    return f(*args)
res={}
def rec(name, err): res[name]=max(res.get(name,0), float(err))
for d in (1,2,3):
    A = rng.normal(size=(d,d,2,3)) + 2*np.eye(d).reshape(d,d,1,1); B = rng.normal(size=(d,d,2,3)); a=rng.normal(size=(d,2,3)); b=rng.normal(size=(d,2,3))
    A4 = rng.normal(size=(d,d,d,d,2,3)); B4=rng.normal(size=(d,d,d,d,2,3)); A3=rng.normal(size=(d,d,d,2,3)); B3=rng.normal(size=(d,d,d,2,3))
    Am = np.moveaxis(A,(0,1),(-2,-1)); Bm=np.moveaxis(B,(0,1),(-2,-1))
    A0=A.copy()
    rec(f"det{d}", np.abs(M.det(A)-np.linalg.det(Am)).max())
    rec(f"inv{d}", np.abs(np.moveaxis(M.inv(A),(0,1),(-2,-1))-np.linalg.inv(Am)).max())
    rec(f"inv{d} det", np.abs(np.moveaxis(M.inv(A, determinant=M.det(A)),(0,1),(-2,-1))-np.linalg.inv(Am)).max())
    S = A+np.swapaxes(A,0,1)
    rec(f"inv{d} sym", np.abs(np.moveaxis(M.inv(S, sym=True),(0,1),(-2,-1))-np.linalg.inv(np.moveaxis(S,(0,1),(-2,-1)))).max())
    buf=np.full_like(A, 7.7); r=M.inv(A, out=buf); rec(f"inv{d} out", np.abs(np.moveaxis(r,(0,1),(-2,-1))-np.linalg.inv(Am)).max())
    buf=np.full_like(A[0,0], 7.7); r=M.det(A, out=buf); rec(f"det{d} out", np.abs(r-np.linalg.det(Am)).max())
    rec(f"cof{d}", np.abs(np.moveaxis(M.cof(A),(0,1),(-2,-1))-np.linalg.det(Am)[...,None,None]*np.swapaxes(np.linalg.inv(Am),-1,-2)).max())
    rec(f"dev{d}", np.abs(M.dev(A)-(A-np.trace(A)/d*np.eye(d).reshape(d,d,1,1))).max())
    rec(f"sym{d}", np.abs(M.sym(A)-(A+np.swapaxes(A,0,1))/2).max())
    rec(f"trace{d}", np.abs(M.trace(A)-np.einsum("ii...",A)).max())
    rec(f"dot22 {d}", np.abs(M.dot(A,B)-np.einsum("ik...,kj...->ij...",A,B)).max())
    for mode,sub,X,Y in [((1,1),"i...,i...->...",a,b),((2,1),"ij...,j...->i...",A,b),((1,2),"i...,ij...->j...",a,B),((4,1),"ijkl...,l...->ijk...",A4,b),((1,4),"i...,ijkl...->jkl...",a,B4),((2,4),"im...,mjkl...->ijkl...",A,B4),((4,2),"ijkm...,ml...->ijkl...",A4,B),((2,3),"im...,mjk...->ijk...",A,B3),((3,2),"ijm...,mk...->ijk...",A3,B),((4,4),"ijkp...,plmn...->ijklmn...",A4,B4)]:
        # independent loops for a few entries: use explicit tensordot per batch item
        out = M.dot(X,Y,mode=mode)
        ref = np.zeros_like(out)
        for q in range(2):
            for c in range(3):
                ref[...,q,c] = np.tensordot(X[...,q,c], Y[...,q,c], axes=(X.ndim-3, 0)) if mode!=(1,1) else X[:,q,c]@Y[:,q,c]
        rec(f"dot{mode} {d}", np.abs(out-ref).max())
    for mode,X,Y,ax in [((2,2),A,B,2),((2,4),A,B4,2),((4,2),A4,B,2),((2,3),A,B3,2),((3,2),A3,B,2),((4,4),A4,B4,2)]:
        out=M.ddot(X,Y,mode=mode); ref=np.zeros_like(out)
        for q in range(2):
            for c in range(3):
                x=X[...,q,c]; y=Y[...,q,c]
                ref[...,q,c]=np.tensordot(x,y,axes=([x.ndim-2,x.ndim-1],[0,1]))
        rec(f"ddot{mode} {d}", np.abs(out-ref).max())
    rec(f"dya2 {d}", np.abs(M.dya(A,B)-np.einsum("ij...,kl...->ijkl...",A,B)).max())
    rec(f"dya1 {d}", np.abs(M.dya(a,b,mode=1)-np.einsum("i...,j...->ij...",a,b)).max())
    rec(f"cdya_ik {d}", np.abs(M.cdya_ik(A,B)-np.einsum("ij...,kl...->ikjl...",A,B)).max())
    rec(f"cdya_il {d}", np.abs(M.cdya_il(A,B)-np.einsum("ij...,kl...->ilkj...",A,B)).max())
    rec(f"cdya {d}", np.abs(M.cdya(A,B)-(np.einsum("ij...,kl...->ikjl...",A,B)+np.einsum("ij...,kl...->ilkj...",A,B))/2).max())
    rec(f"transpose2 {d}", np.abs(M.transpose(A4,mode=2)-np.einsum("ijkl...->klij...",A4)).max())
    w,v = M.eigh(S); wm,vm=np.linalg.eigh(np.moveaxis(S,(0,1),(-2,-1)))
    rec(f"eigh vals {d}", np.abs(np.moveaxis(w,0,-1)-wm).max()); rec(f"eigvalsh {d}", np.abs(np.moveaxis(M.eigvalsh(S),0,-1)-wm).max())
    rec(f"eigh recon {d}", np.abs(np.einsum("a...,ia...,ja...->ij...",w,v,v)-S).max())
    rec(f"inputs unchanged {d}", np.abs(A-A0).max())
    if d>1:
        tv = M.tovoigt(S); 
        ij = [(0,0),(1,1),(0,1)] if d==2 else [(0,0),(1,1),(2,2),(0,1),(1,2),(0,2)]
        rec(f"tovoigt {d}", max(np.abs(tv[k]-S[i,j]).max() for k,(i,j) in enumerate(ij)))
        vm_ = M.equivalent_von_mises(S); Sp=np.zeros((3,3,2,3)); Sp[:d,:d]=S; dv=Sp-np.trace(Sp)/3*np.eye(3).reshape(3,3,1,1)
        rec(f"vonmises {d}", np.abs(vm_-np.sqrt(1.5*np.einsum("ij...,ij...",dv,dv))).max())
a=rng.normal(size=(3,2,3)); b=rng.normal(size=(3,2,3))
rec("cross", np.abs(M.cross(a,b)-np.cross(a,b,axis=0)).max())
A3=rng.normal(size=(3,3,3,2,3)); rec("dddot", np.abs(M.dddot(A3,A3)-np.einsum("ijk...,ijk...",A3,A3)).max())
# solve_2d
A4 = rng.normal(size=(3,3,3,3,2,3)) + 3*np.einsum("ik,jl->ijkl",np.eye(3),np.eye(3))[...,None,None]; b2=rng.normal(size=(3,3,2,3))
x = M.solve_2d(A4,b2); rec("solve_2d", np.abs(np.einsum("ijkl...,kl...->ij...",A4,x)-b2).max())
# rotation matrices
for ax in range(3):
    R = M.rotation_matrix(35., 3, ax); e=np.eye(3)[ax]
    rec("rot orth", np.abs(R@R.T-np.eye(3)).max()); rec("rot axis", np.abs(R@e-e).max()); rec("rot det", abs(np.linalg.det(R)-1))
    # right-handed: rotating e_{ax+1} by +90 gives e_{ax+2}
    R90 = M.rotation_matrix(90.,3,ax); rec("rot handed", np.abs(R90@np.eye(3)[(ax+1)%3]-np.eye(3)[(ax+2)%3]).max())
print({k:f"{v:.1e}" for k,v in res.items() if v>1e-12})
print("n routines", len(res), "max", max(res.values()))
print(M.linsteps([0,1,0], num=[2,3]), M.linsteps([0,1],num=2,axis=1,axes=3))
