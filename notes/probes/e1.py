import numpy as np, felupe as fem, warnings
np.set_printoptions(precision=3, suppress=True, linewidth=200)
# 1. hessian of linear field on distorted quad
m = fem.Rectangle(n=3)
m.points[4] += [0.1, 0.07]
for R,kw in [(fem.RegionQuad,{}),(fem.RegionQuadraticQuad,{}),]:
    mm = m if R is fem.RegionQuad else m.add_midpoints_edges()
    r = R(mm, hess=True)
    f = fem.Field(r, dim=1, values=(1+2*mm.points[:,0]+3*mm.points[:,1]).reshape(-1,1))
    print(R.__name__, "grad err", np.abs(f.grad()[0,0]-2).max(), np.abs(f.grad()[0,1]-3).max(), "hess max", np.abs(f.hess()).max())
# undistorted
m2 = fem.Rectangle(n=3); r=fem.RegionQuad(m2, hess=True)
f = fem.Field(r, dim=1, values=(m2.points[:,0]*m2.points[:,1]).reshape(-1,1))
print("affine quad xy hess", f.hess()[0,:,:,0,0])
# hex hessian on affine mesh for xyz-type fields
m3 = fem.Cube(n=2); r=fem.RegionHexahedron(m3, hess=True)
X=m3.points
for name,vals,H in [("xz",X[:,0]*X[:,2],[[0,0,1],[0,0,0],[1,0,0]]),("yz",X[:,1]*X[:,2],[[0,0,0],[0,0,1],[0,1,0]]),("xy",X[:,0]*X[:,1],[[0,1,0],[1,0,0],[0,0,0]])]:
    f = fem.Field(r, dim=1, values=vals.reshape(-1,1))
    print(name, np.abs(f.hess()[0,:,:,:,0]-np.array(H)[:,:,None]).max())
# 2. collect_volumes tetra
t = fem.Cube(n=2).triangulate()
pv, cv, _ = t.collect_volumes()
print("tet centroid err", np.abs(pv - t.points[t.cells].mean(1)).max())
t15 = t.convert(order=2, calc_midfaces=True, calc_midvolumes=True)
print(t15.cell_type, t15.cells.shape)
h = fem.Cube(n=2); pvh,_,_ = h.collect_volumes(); print("hex centroid err", np.abs(pvh - h.points[h.cells].mean(1)).max())
