import numpy as np, felupe as fem, warnings, itertools
warnings.simplefilter("error")
TEMPL = {"line":None,"quad":fem.RegionQuad,"hexahedron":fem.RegionHexahedron,"triangle":fem.RegionTriangle,"tetra":fem.RegionTetra,
 "quad8":fem.RegionQuadraticQuad,"quad9":fem.RegionBiQuadraticQuad,"hexahedron20":fem.RegionQuadraticHexahedron,"hexahedron27":fem.RegionTriQuadraticHexahedron,
 "triangle6":fem.RegionQuadraticTriangle,"tetra10":fem.RegionQuadraticTetra}
def vol(m):
    if m.cell_type=="line":
        r = fem.Region(m, fem.Line(), fem.GaussLegendre(1,1)); 
    else: r = TEMPL[m.cell_type](m)
    return r.dV.sum(), (r.dV>0).all()
def rep(name, m, expect=None):
    try:
        v,pos = vol(m)
        dup = len(np.unique(np.round(m.points,10),axis=0))!=m.npoints
        print(f"{name:45s} {m.cell_type:12s} V={v:.10f} pos={pos} unused={len(m.points_without_cells)} dup={dup}" + (f" expect={expect:.10f} {'OK' if abs(v-expect)<1e-9 else 'MISMATCH'}" if expect is not None else ""))
    except Exception as e: print(f"{name:45s} ERR {type(e).__name__}: {str(e)[:90]}")
rep("Line", fem.mesh.Line(a=1,b=3,n=4), 2)
R = fem.Rectangle(a=(0,0.5), b=(2,1.5), n=(3,4)); rep("Rectangle", R, 2)
C = fem.Cube(a=(0,0,0), b=(2,1,3), n=(3,2,4)); rep("Cube", C, 6)
rep("Grid", fem.Grid(np.array([0,1,3.]), np.array([0,.5,2.])), 6)
for n in (2,3,5): rep(f"Circle n={n}", fem.Circle(n=n))
rep("Circle sections", fem.Circle(n=3, sections=[0,90]))
for n in (2,3,4): rep(f"Triangle n={n}", fem.mesh.Triangle(n=n), 0.5)
rep("Triangle abc", fem.mesh.Triangle(a=(0,0),b=(2,0.3),c=(0.4,1.5),n=3), 0.5*abs(2*1.5-0.3*0.4))
from felupe.mesh._geometry import RectangleArbitraryOrderQuad, CubeArbitraryOrderHexahedron
for o in (2,3):
    m = RectangleArbitraryOrderQuad(order=o); r = fem.RegionLagrange(m, order=o, dim=2); print("RAOQ",o, r.dV.sum(), (r.dV>0).all())
    m = CubeArbitraryOrderHexahedron(order=o); r = fem.RegionLagrange(m, order=o, dim=3); print("CAOH",o, r.dV.sum(), (r.dV>0).all())
# ops
rep("R.rotate", R.rotate(30,2), 2); rep("R.mirror x", R.mirror(), 2); rep("R.mirror oblique", R.mirror(normal=[1,1,0]),2)
rep("C.mirror oblique", C.mirror(normal=[1,2,3]),6); rep("C.flip.flip", C.flip().flip(),6)
rep("R.triangulate", R.triangulate(),2); rep("C.triangulate3", C.triangulate(mode=3),6); rep("C.triangulate0", C.triangulate(mode=0),6)
rep("R.expand", R.expand(n=3,z=2.5), 5); rep("Line.expand", fem.mesh.Line(n=3).expand(n=3,z=2), 2)
L = fem.mesh.Line(a=0.5,b=1.5,n=3)
rep("R.revolve 90 n=4", R.revolve(n=4, phi=90), 3*np.sin(np.deg2rad(30))*(R.points[:,1].mean()*0+ (2*1.0)) ) # int r dA = A * rbar = 2*1
rep("R.revolve 360", R.revolve(n=7, phi=360), 6*np.sin(np.deg2rad(60))*2)
rep("R.convert2", R.convert(order=2),2); rep("R.convert2 faces", R.convert(order=2, calc_midfaces=True),2)
rep("C.convert2", C.convert(order=2),6); rep("C.convert2 f v", C.convert(order=2, calc_midfaces=True, calc_midvolumes=True),6)
T = R.triangulate(); rep("T.convert2", T.convert(order=2), 2); rep("T.mirror", T.mirror(),2)
TT = C.triangulate(); rep("TT.convert2", TT.convert(order=2), 6); rep("TT.mirror", TT.mirror(),6); rep("TT.flip.flip", TT.flip().flip(),6)
rep("concat+sweep", fem.mesh.concatenate([R, R.translate(2,0)]).sweep(), 4)
rep("sweep decimals", fem.mesh.concatenate([R, R.translate(2,0)]).sweep(decimals=6), 4)
rep("container merge", fem.MeshContainer([R, R.translate(2,0)], merge=True).stack(), 4)
rep("disconnect", C.disconnect(), 6)
rep("line revolve", fem.mesh.Line(a=0.5,b=1.5,n=3).expand(n=2,z=1).revolve(n=3,phi=60), None)
