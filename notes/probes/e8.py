import numpy as np, felupe as fem, warnings
from scipy.sparse.linalg import eigsh
m = fem.Cube(n=3); r = fem.RegionHexahedron(m); f = fem.FieldContainer([fem.Field(r,dim=3)])
sb = fem.SolidBody(fem.LinearElastic(E=1.,nu=0.3), f, density=1.0)
try:
    job = fem.FreeVibration([sb]).evaluate(k=9)
    print("sigma0 eig", job.eigenvalues)
except Exception as e: print("sigma0 ERR", type(e).__name__, str(e)[:100])
job = fem.FreeVibration([sb]).evaluate(k=9, solver=lambda A, M, sigma, **kw: eigsh(A=A, M=M, sigma=-0.01, **kw))
print("eig", job.eigenvalues)
fld, freq = job.extract(n=7, inplace=False); print(freq, np.sqrt(job.eigenvalues[7])/2/np.pi)
