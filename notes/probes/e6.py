import numpy as np, felupe as fem, itertools, math
np.set_printoptions(precision=4, suppress=False, linewidth=200)
# 1. sphere rule
q = fem.BazantOh(n=21)
def df(n): 
    r=1
    while n>1: r*=n; n-=2
    return r
worst = {}
for deg in range(0,12):
    w=0
    for a,b,c in itertools.product(range(deg+1),repeat=3):
        if a+b+c!=deg: continue
        num = (q.weights*q.points[:,0]**a*q.points[:,1]**b*q.points[:,2]**c).sum()
        if a%2==0 and b%2==0 and c%2==0:
            ex = df(a-1)*df(b-1)*df(c-1)/df(a+b+c+1)
        else: ex=0.0
        # symmetrised rule: odd total degree -> 0 automatically
        if deg%2==1: num=0.0
        w=max(w,abs(num-ex))
    worst[deg]=w
print("sphere", {k: f"{v:.1e}" for k,v in worst.items()})
# 4. C04 spectral differentiation feasibility on TriQuadraticHexahedron and Lagrange order 6 dim 2
def cheb(n,a=-1,b=1):
    x = np.cos(np.pi*np.arange(n)/(n-1))[::-1]; return a+(b-a)*(x+1)/2
def diffmat(x):
    n=len(x); V=np.vander(x,n,increasing=True); dV=np.zeros_like(V); dV[:,1:]=V[:,:-1]*np.arange(1,n)
    return dV@np.linalg.inv(V)
def check(el, n, lo=-1, hi=1):
    dim = el.points.shape[1]; x=cheb(n,lo,hi); D=diffmat(x)
    grid = np.stack(np.meshgrid(*([x]*dim), indexing="ij"),-1).reshape(-1,dim)
    H = np.array([el.function(p) for p in grid]).reshape(*([n]*dim),-1)
    G = np.array([el.gradient(p) for p in grid]).reshape(*([n]*dim),-1,dim)
    err=0
    for ax in range(dim):
        dH = np.moveaxis(np.tensordot(D, np.moveaxis(H,ax,0), axes=(1,0)),0,ax)
        err=max(err, np.abs(dH-G[...,ax]).max())
    return err
print("hex27", check(fem.element.TriQuadraticHexahedron(), 5), "hex8", check(fem.Hexahedron(),4), "L6d2", check(fem.ArbitraryOrderLagrangeElement(6,2), 9), "L4d3", check(fem.ArbitraryOrderLagrangeElement(4,3),7), "tet10", check(fem.QuadraticTetra(),5,0,1), "quad8", check(fem.QuadraticQuad(),5))
