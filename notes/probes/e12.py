import numpy as np, felupe as fem, warnings, itertools, inspect
import felupe.constitution as C
import jax; jax.config.update("jax_enable_x64", True)
import felupe.constitution.jax as CJ
import felupe.constitution.tensortrax as CT
np.set_printoptions(precision=3, linewidth=200)
rng=np.random.default_rng(5)
def Fset():
    Fs=[np.eye(3)]
    for a,b,c in [(0.8,1.0,1.3),(1.3,0.8,1.0),(1.1,1.1,0.9),(0.9,1.2,1.05)]: Fs.append(np.diag([a,b,c]))
    G1=np.array([[0.31,-0.52,0.17],[0.44,-0.23,0.61],[-0.37,0.29,0.13]]); G2=np.array([[-0.21,0.33,0.47],[0.12,0.41,-0.39],[0.53,-0.11,-0.27]])
    for s in (0.1,0.25):
        Fs.append(np.eye(3)+s*G1); Fs.append(np.eye(3)+s*G2)
    F=np.stack(Fs,-1)[...,None,:]   # (3,3,1,n)
    F = np.ascontiguousarray(np.moveaxis(F, -1, -2)) # (3,3,n,1)
    return F
F = Fset(); n=F.shape[2]
assert (np.linalg.det(F[...,0].transpose(2,0,1))>0.4).all()
def fd(umat, F, sv, h=1e-6, name=""):
    P0 = umat.gradient([F, sv])[0]
    A = umat.hessian([F, sv])[0]
    A = np.broadcast_to(A, (3,3,3,3,*F.shape[2:]))
    An = np.zeros_like(A)
    for k,l in itertools.product(range(3),repeat=2):
        E=np.zeros((3,3,1,1)); E[k,l]=h
        Pp = umat.gradient([F+E, sv])[0]; Pm = umat.gradient([F-E, sv])[0]
        An[:,:,k,l] = (Pp-Pm)/(2*h)
    scale = max(np.abs(A).max(),1e-12)
    errA = np.abs(A-An).max()/scale
    errW=None
    if hasattr(umat,"function"):
        try:
            W0=umat.function([F,sv])[0]; Pn=np.zeros_like(P0)
            for k,l in itertools.product(range(3),repeat=2):
                E=np.zeros((3,3,1,1)); E[k,l]=h
                Pn[k,l]=(umat.function([F+E,sv])[0]-umat.function([F-E,sv])[0])/(2*h)
            errW=np.abs(P0-Pn).max()/max(np.abs(P0).max(),1e-12)
        except Exception as e: errW=repr(e)[:40]
    major = np.abs(A-A.transpose(2,3,0,1,4,5)).max()/scale
    PFt = np.einsum("ij...,kj...->ik...",P0,F); symK = np.abs(PFt-PFt.transpose(1,0,2,3)).max()/max(np.abs(P0).max(),1e-12)
    P_I = np.abs(P0[:,:,0,0]).max()
    print(f"{name:38s} dP/dF {errA:.1e}  dW/dF {errW if errW is None or isinstance(errW,str) else format(errW,'.1e')}  major {major:.1e} symPFt {symK:.1e} P(I) {P_I:.1e}")
sv0 = np.zeros((0,n,1))
fd(fem.NeoHooke(mu=1.3,bulk=4.1),F,sv0,name="NeoHooke")
fd(fem.NeoHooke(mu=1.3),F,sv0,name="NeoHooke mu")
fd(fem.Volumetric(bulk=4.1),F,sv0,name="Volumetric")
fd(fem.NeoHookeCompressible(mu=1.3,lmbda=2.2),F,sv0,name="NeoHookeCompressible")
fd(fem.NeoHookeCompressible(mu=1.3),F,sv0,name="NeoHookeCompressible mu")
fd(fem.LinearElasticLargeStrain(E=2.,nu=.3),F,sv0,name="LELS")
fd(fem.LinearElastic(E=2.,nu=.3),F,sv0,name="LinearElastic")
fd(C.LinearElasticTensorNotation(E=2.,nu=.3),F,sv0,name="LinearElasticTN")
fd(fem.LinearElasticOrthotropic(E=[2.,3.,4.],nu=[.3,.2,.1],G=[1.,1.5,2.]),F,sv0,name="LEOrtho")
fd(fem.Laplace(multiplier=2.),F,sv0,name="Laplace")
svw = np.zeros((1,n,1)); fd(fem.OgdenRoxburgh(fem.NeoHooke(mu=1.,bulk=2.), r=3,m=1,beta=0.1),F,svw,name="OgdenRoxburgh virgin(=primary)")
svw = np.full((1,n,1), 0.8); fd(fem.OgdenRoxburgh(fem.NeoHooke(mu=1.,bulk=2.), r=3,m=1,beta=0.1),F,svw,name="OgdenRoxburgh unloading")
models = dict(
 neo_hooke=dict(mu=1.2), mooney_rivlin=dict(C10=0.4,C01=0.2), yeoh=dict(C10=.5,C20=-.1,C30=.02), third_order_deformation=dict(C10=.5,C01=.1,C11=.02,C20=-.05,C30=.01),
 ogden=dict(mu=[1.,.2],alpha=[1.7,-1.5]), arruda_boyce=dict(C1=1.,limit=3.2), extended_tube=dict(Gc=.2,Ge=.2,beta=.2,delta=.1), van_der_waals=dict(mu=1.,beta=.1,a=.5,limit=5.),
 blatz_ko=dict(mu=1.), storakers=dict(mu=[1.],alpha=[2.],beta=[1.]), lopez_pamies=dict(mu=[1.,.1],alpha=[1.,-2.]), alexander=dict(C1=.1,C2=.2,C3=.05,gamma=.8,k=.1),
 anssari_benam_bucchi=dict(mu=1.,N=10.), miehe_goektepe_lulei=dict(mu=.2,N=20.,U=10.,p=1.5,q=.2), saint_venant_kirchhoff=dict(mu=1.,lmbda=2.),
 saint_venant_kirchhoff_orthotropic=dict(mu=[1.,1.2,1.4],lmbda=[2.,.5,.6,2.5,.7,3.]),
)
for name,kw in models.items():
    try: fd(C.Hyperelastic(getattr(C,name), **kw), F, sv0, name="tt."+name)
    except Exception as e: print("tt."+name, "ERR", repr(e)[:100])
for name in CJ.models.hyperelastic.__all__:
    kw = models[name]
    try: fd(CJ.Hyperelastic(getattr(CJ.models.hyperelastic,name), **kw), F, sv0, name="jax."+name)
    except Exception as e: print("jax."+name, "ERR", repr(e)[:100])
