import numpy as np, felupe as fem, itertools
rng=np.random.default_rng(0)
def testtensors(field, grad):
    """G[a,i] -> array (shape..., q, c) test tensor of basis fn (a,i) by definition"""
    r = field.region; cells = r.mesh.cells; nq = r.h.shape[1] if r.h.ndim==3 else None
    na = cells.shape[1]; dim = field.dim; q = r.quadrature.npoints; nc = r.mesh.ncells
    kind = type(field).__name__
    out = {}
    for a in range(na):
        for i in range(dim):
            if not grad:
                if kind in ("FieldPlaneStrain","FieldAxisymmetric"):
                    G = np.zeros((3,q,nc)); G[i] = np.broadcast_to(r.h[a], (q,nc))
                else:
                    G = np.zeros((dim,q,nc)); G[i] = np.broadcast_to(r.h[a], (q,nc))
            else:
                d = r.dhdX.shape[1]
                if kind in ("FieldPlaneStrain","FieldAxisymmetric"):
                    G = np.zeros((3,3,q,nc)); G[i,:d] = r.dhdX[a]
                    if kind=="FieldAxisymmetric" and i==1:
                        G[2,2] = r.h[a]/field.radius
                else:
                    G = np.zeros((dim,d,q,nc)); G[i] = r.dhdX[a]
            out[(a,i)] = G
    return out
def ref_vector(fun, field, grad, dV):
    r = field.region; cells=r.mesh.cells; dim=field.dim
    T = testtensors(field, grad); vec = np.zeros(r.mesh.npoints*dim)
    w = dV*(2*np.pi*field.radius if type(field).__name__=="FieldAxisymmetric" else 1)
    for (a,i),G in T.items():
        val = (fun*G).reshape(-1,*G.shape[-2:]).sum(0)   # (q,c)
        for c in range(r.mesh.ncells):
            vec[dim*cells[c,a]+i] += (val[:,c]*w[:,c]).sum()
    return vec
def ref_matrix(fun, v, u, gv, gu, dV):
    rv=v.region; ru=u.region
    Tv=testtensors(v,gv); Tu=testtensors(u,gu)
    K=np.zeros((rv.mesh.npoints*v.dim, ru.mesh.npoints*u.dim))
    w = dV*(2*np.pi*v.radius if type(v).__name__=="FieldAxisymmetric" else 1)
    for (a,i),G in Tv.items():
        nG = G.ndim-2
        for (b,k),H in Tu.items():
            nH=H.ndim-2
            # contract G:fun:H
            sub_g="ij"[:nG]; sub_h="kl"[:nH]
            val=np.einsum(f"{sub_g}qc,{sub_g}{sub_h}qc,{sub_h}qc->qc", G, fun, H)
            for c in range(rv.mesh.ncells):
                K[v.dim*rv.mesh.cells[c,a]+i, u.dim*ru.mesh.cells[c,b]+k] += (val[:,c]*w[:,c]).sum()
    return K
for F_, name in [(fem.FieldAxisymmetric,"axi"),(fem.FieldPlaneStrain,"ps")]:
    m = fem.Rectangle(a=(0,0.5), b=(1,1.5), n=3); m.points[4]+=[.05,.04]
    perm = rng.permutation(m.npoints); inv=np.argsort(perm); m = fem.Mesh(m.points[perm], inv[m.cells], "quad")
    r = fem.RegionQuad(m); u = F_(r, dim=2); f = fem.FieldContainer([u])
    q,c = r.quadrature.npoints, m.ncells
    fun = rng.normal(size=(3,3,q,c)); A = rng.normal(size=(3,3,3,3,q,c))
    v1 = fem.IntegralForm([fun], f, r.dV).assemble().toarray()[:,0]
    print(name, "vec", np.abs(v1-ref_vector(fun,u,True,r.dV)).max())
    K1 = fem.IntegralForm([A], f, r.dV, f).assemble().toarray()
    print(name, "mat", np.abs(K1-ref_matrix(A,u,u,True,True,r.dV)).max())
    # value forms
    g = rng.normal(size=(3,q,c))
    v2 = fem.IntegralForm([g], f, r.dV, grad_v=[False]).assemble().toarray()[:,0]
    print(name, "vec value", np.abs(v2-ref_vector(g,u,False,r.dV)).max())
# mixed 3D
m = fem.Cube(n=3); r = fem.RegionHexahedron(m); f = fem.FieldsMixed(r, n=3)
print([type(x).__name__ for x in f.fields], [x.region.mesh.cells.shape for x in f.fields], f.offsets)
