import numpy as np, felupe as fem, itertools
import felupe.constitution as C
import jax; jax.config.update("jax_enable_x64", True)
import felupe.constitution.jax as CJ
exec(open("e12.py").read().split("def fd(")[0].split("np.set_printoptions")[1].split("\n",1)[1])  # reuse Fset
sv0 = np.zeros((0,n,1))
def moduli(umat, sv=None):
    I = np.eye(3).reshape(3,3,1,1); sv = np.zeros((0,1,1)) if sv is None else sv
    A = np.broadcast_to(umat.hessian([I, sv])[0], (3,3,3,3,1,1))[...,0,0]
    # isotropic: A = lam dij dkl + mu (dik djl + dil djk)
    mu = A[0,1,0,1]; lam = A[0,0,1,1]; 
    d=np.eye(3); Aiso = lam*np.einsum("ij,kl",d,d)+mu*(np.einsum("ik,jl",d,d)+np.einsum("il,jk",d,d))
    return mu, lam+2*mu/3, np.abs(A-Aiso).max()
models = dict(
 neo_hooke=(dict(mu=1.2), 1.2), mooney_rivlin=(dict(C10=0.4,C01=0.2),1.2), yeoh=(dict(C10=.5,C20=-.1,C30=.02),1.0), third_order_deformation=(dict(C10=.5,C01=.1,C11=.02,C20=-.05,C30=.01),1.2),
 ogden=(dict(mu=[1.,.2],alpha=[1.7,-1.5]),1.2), arruda_boyce=(dict(C1=1.,limit=3.2), None), extended_tube=(dict(Gc=.2,Ge=.3,beta=.2,delta=0.),0.5), van_der_waals=(dict(mu=1.,beta=0.,a=.5,limit=5.),1.0),
 blatz_ko=(dict(mu=1.),1.0), storakers=(dict(mu=[1.,.3],alpha=[2.,-1.],beta=[1.,.5]),1.3), lopez_pamies=(dict(mu=[1.,.1],alpha=[1.,-2.]),1.1), alexander=(dict(C1=.1,C2=.2,C3=.05,gamma=.8,k=.1), 2*(.1+.2/.8+.05)),
 anssari_benam_bucchi=(dict(mu=1.,N=10.),None), miehe_goektepe_lulei=(dict(mu=.2,N=20.,U=10.,p=1.5,q=.2),None), saint_venant_kirchhoff=(dict(mu=1.,lmbda=2.),1.0),
)
for name,(kw,mu0) in models.items():
    u = C.Hyperelastic(getattr(C,name), **kw); mu,K,dev = moduli(u)
    print(f"tt.{name:28s} mu0={mu:.6f} K0={K:.6f} iso-dev={dev:.1e} doc mu={mu0}")
for name,u in [("NeoHooke",fem.NeoHooke(mu=1.2,bulk=3.)),("NeoHookeCompressible",fem.NeoHookeCompressible(mu=1.2,lmbda=2.)),("LELS",fem.LinearElasticLargeStrain(E=2.,nu=.3)),("LinearElastic",fem.LinearElastic(E=2.,nu=.3))]:
    print(name, moduli(u), "E/2(1+nu)=",2/2.6, "K=", 2/(3*(1-.6)))
# pairs
def cmp(a,b,name,sv=sv0):
    Pa=a.gradient([F,sv])[0]; Pb=b.gradient([F,sv])[0]; Aa=np.broadcast_to(a.hessian([F,sv])[0],(3,3,3,3,n,1)); Ab=np.broadcast_to(b.hessian([F,sv])[0],(3,3,3,3,n,1))
    print(f"{name:30s} dP {np.abs(Pa-Pb).max()/np.abs(Pa).max():.1e} dA {np.abs(Aa-Ab).max()/np.abs(Aa).max():.1e}")
for name in CJ.models.hyperelastic.__all__:
    kw=models[name][0]; cmp(C.Hyperelastic(getattr(C,name),**kw), CJ.Hyperelastic(getattr(CJ.models.hyperelastic,name),**kw), "tt vs jax "+name)
cmp(fem.NeoHooke(mu=1.2), C.Hyperelastic(C.neo_hooke, mu=1.2), "NeoHooke hand vs tt")
svw=np.full((1,n,1),0.4)
cmp(fem.OgdenRoxburgh(fem.NeoHooke(mu=1.2), r=3,m=1,beta=.1), C.Hyperelastic(C.ogden_roxburgh, material=C.neo_hooke, r=3,m=1,beta=.1,mu=1.2, nstatevars=1), "OgdenRoxburgh hand vs tt", svw)
cmp(fem.LinearElastic(E=2.,nu=.3), C.LinearElasticTensorNotation(E=2.,nu=.3), "LE vs TN")
# orthotropic
E=[2.,3.,4.]; nu=[.3,.2,.1]; G=[1.,1.5,2.]
lm, mu = C.lame_converter_orthotropic(E,nu,G)
lo = fem.LinearElasticOrthotropic(E,nu,G); svk = C.Hyperelastic(C.saint_venant_kirchhoff_orthotropic, mu=mu, lmbda=lm)
I = np.eye(3).reshape(3,3,1,1); A1=lo.hessian([I,np.zeros((0,1,1))])[0]; A2=svk.hessian([I,np.zeros((0,1,1))])[0]
print("ortho LE vs SVK at I:", np.abs(np.broadcast_to(A1,A2.shape)-A2).max())
