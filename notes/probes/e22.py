import numpy as np, felupe as fem, itertools, math
def cube_exact(e): 
    r=1.0
    for k in e: r*= (0 if k%2 else 2/(k+1))
    return r
worst={}
for dim in (1,2,3):
    for order in range(0,9):
        for perm in (True,False):
            q=fem.GaussLegendre(order,dim,permute=perm); deg=2*(order+1)-1
            w=0
            for e in itertools.product(range(deg+1),repeat=dim):
                num=(q.weights*np.prod([q.points[:,i]**e[i] for i in range(dim)],axis=0)).sum(); w=max(w,abs(num-cube_exact(e)))
            # beyond
            e=(deg+1,)+(0,)*(dim-1); beyond=abs((q.weights*q.points[:,0]**(deg+1)).sum()-cube_exact(e))
            worst[("GL",dim,order,perm)]=(w,beyond, np.abs(q.points).max()<=1, abs(q.weights.sum()-2**dim))
    for order in range(0,6):
        q=fem.GaussLobatto(order,dim); deg=2*(order+2)-3; w=0
        for e in itertools.product(range(deg+1),repeat=dim):
            num=(q.weights*np.prod([q.points[:,i]**e[i] for i in range(dim)],axis=0)).sum(); w=max(w,abs(num-cube_exact(e)))
        e=(deg+1,)+(0,)*(dim-1); beyond=abs((q.weights*q.points[:,0]**(deg+1)).sum()-cube_exact(e))
        worst[("Lob",dim,order)]=(w,beyond,np.abs(q.points).max()<=1, abs(q.weights.sum()-2**dim))
bad={k:v for k,v in worst.items() if v[0]>1e-13 or not v[2] or v[3]>1e-13}
print("bad cube rules:", bad); print("n rules", len(worst), "min beyond-degree error", min(v[1] for v in worst.values()))
# permutation only reorders
for dim in (2,3):
    for order in (1,2,3,4):
        a=fem.GaussLegendre(order,dim,permute=True); b=fem.GaussLegendre(order,dim,permute=False)
        sa=np.lexsort(np.c_[a.points,a.weights].T); sb=np.lexsort(np.c_[b.points,b.weights].T)
        print("perm", dim, order, np.abs(np.c_[a.points,a.weights][sa]-np.c_[b.points,b.weights][sb]).max(), end="; ")
print()
for dim in (2,3):
    for order in (0,1,2,3):
        qb=fem.GaussLegendreBoundary(order,dim); q=fem.GaussLegendre(order,dim-1)
        print("bnd",dim,order, np.abs(qb.points[:,:-1]-q.points).max(), np.abs(qb.points[:,-1]+1).max(), np.abs(qb.weights-q.weights).max(), qb.dim, end="; ")
print()
