import numpy as np, felupe as fem
m = fem.Rectangle(a=(0,0.5), b=(1,1.5), n=3); r = fem.RegionQuad(m)
for F_ in (fem.FieldAxisymmetric, fem.FieldPlaneStrain):
    u = F_(r, dim=2); f = fem.FieldContainer([u])
    for vals in ([1.0, 2.0], [1.0, 2.0, 0.0]):
        try:
            v = fem.SolidBodyForce(f, values=vals, scale=1.5).assemble.vector().toarray().reshape(-1,2)
            V = (r.dV*(2*np.pi*u.radius if F_ is fem.FieldAxisymmetric else 1)).sum()
            print(F_.__name__, vals, v.sum(0), "expected", 1.5*np.array(vals[:2])*V)
        except Exception as e: print(F_.__name__, vals, "ERR", type(e).__name__, str(e)[:80])
