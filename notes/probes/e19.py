import numpy as np, felupe as fem, itertools
m = fem.Cube(n=2); m.add_points([[5.,5.,5.]]); 
r = fem.RegionHexahedron(m); 
for nf in (1,2,3):
    f = fem.FieldsMixed(r, n=nf) if nf>1 else fem.FieldContainer([fem.Field(r,dim=3)])
    u=f[0]
    sizes=[x.values.size for x in f.fields]; offs=np.concatenate([[0],np.cumsum(sizes)[:-1]])
    alpha = {
      "x0": dict(fx=0.), "x1skip": dict(fx=1., skip=(0,1,0), value=0.3), "and": dict(fx=0., fy=0., mode="and", value=-1.), "or": dict(fx=0., fy=1., value=2.),
      "mask": dict(mask=np.arange(m.npoints)%3==0, skip=(1,0,0)), "arr": dict(fz=1., value=np.arange(12.).reshape(4,3)+10), "row": dict(fz=0., value=np.array([7.,8.,9.])),
      "dofmask": dict(mask=(np.arange(m.npoints*3).reshape(-1,3)%4==1)),
    }
    n=0; bad=0
    keys=list(alpha)
    for k in range(1,3):
        for combo in itertools.permutations(keys,k):
            bounds={c: fem.Boundary(u, **alpha[c]) for c in combo}
            d0,d1=fem.dof.partition(f,bounds); ext=fem.dof.apply(f,bounds,d0)
            # reference
            X=m.points; ref={}
            for c in combo:
                a=alpha[c]
                if "mask" in a:
                    mk=np.asarray(a["mask"]); mk = np.tile(mk.reshape(-1,1),3) if mk.size==m.npoints else mk.reshape(-1,3).copy()
                    if mk is not None and np.asarray(a["mask"]).size==m.npoints:
                        for ax,s in enumerate(a.get("skip",(0,0,0))):
                            if s: mk[:,ax]=False
                else:
                    ms=[np.isclose(X[:,i],a[k2]) for i,k2 in enumerate(("fx","fy","fz")) if k2 in a]
                    pm = np.logical_and.reduce(ms) if a.get("mode","or")=="and" else np.logical_or.reduce(ms)
                    mk=np.tile(pm.reshape(-1,1),3)
                    for ax,s in enumerate(a.get("skip",(0,0,0))):
                        if s: mk[:,ax]=False
                val=a.get("value",0.)
                pts=np.where(mk.any(1))[0]
                if isinstance(val,np.ndarray):
                    if val.size==mk.sum(): vv=val.ravel()
                    else: vv=np.broadcast_to(val.reshape(1,-1),(len(pts),val.shape[-1])).ravel()
                else: vv=np.full(mk.sum(),val)
                for (p,cmp),v in zip(np.argwhere(mk),vv): ref[3*p+cmp]=v
            for cmp in range(3): ref.setdefault(3*8+cmp, 0.0)   # point without cells
            rd0=np.array(sorted(ref)); 
            ok = np.array_equal(d0[d0<sizes[0]],rd0) and np.allclose(ext[:len(rd0)],[ref[i] for i in rd0])
            alld=np.arange(sum(sizes)); ok = ok and np.array_equal(np.sort(np.concatenate([d0,d1])),alld) and len(np.intersect1d(d0,d1))==0
            n+=1; bad+= (not ok)
            if not ok and bad<3: print("MISMATCH", nf, combo, d0, rd0, ext[:len(rd0)], [ref[i] for i in rd0])
    print("fields",nf,"dictionaries",n,"bad",bad, "offsets", f.offsets, [x.region.mesh.npoints for x in f.fields], "d0 beyond u:", d0[d0>=sizes[0]], [x.region.mesh.points_without_cells for x in f.fields])
