import numpy as np, felupe as fem, warnings, copy
np.set_printoptions(precision=3, suppress=True, linewidth=200)
rng = np.random.default_rng(1)
def fd_check(make, name, h=1e-6):
    field, items = make()
    x0 = np.concatenate([f.values.ravel() for f in field.fields]).copy()
    def setx(x):
        parts = np.split(x, field.offsets)
        for f,p in zip(field.fields, parts): f.values[:] = p.reshape(f.values.shape)
    def R(x):
        setx(x); return fem.tools.fun(items, field)
    setx(x0); R(x0)
    K = fem.tools.jac(items, field).toarray()
    n = len(x0); Kn = np.zeros((n,n))
    for j in range(n):
        e = np.zeros(n); e[j]=h
        Kn[:,j] = (R(x0+e)-R(x0-e))/(2*h)
    err = np.abs(K-Kn).max()/max(1e-12,np.abs(K).max())
    print(f"{name:40s} relerr {err:.2e} sym {np.abs(K-K.T).max()/np.abs(K).max():.1e}")
def mesh3():
    m = fem.Cube(n=3); m.points[13] += rng.uniform(-.1,.1,3); return m
def solid(umat_f, R=fem.RegionHexahedron):
    def make():
        m = mesh3(); r = R(m); u = fem.Field(r, dim=3); f = fem.FieldContainer([u])
        u.values[:] = rng.uniform(-.05,.05,u.values.shape)
        return f, [fem.SolidBody(umat_f(), f)]
    return make
fd_check(solid(lambda: fem.NeoHooke(mu=1.3, bulk=4.1)), "NeoHooke")
fd_check(solid(lambda: fem.NeoHookeCompressible(mu=1.3, lmbda=2.2)), "NeoHookeCompressible")
fd_check(solid(lambda: fem.LinearElasticLargeStrain(E=2., nu=0.3)), "LELS")
def mixed():
    m = mesh3(); r = fem.RegionHexahedron(m); f = fem.FieldsMixed(r, n=3)
    f[0].values[:] = rng.uniform(-.05,.05,f[0].values.shape); f[1].values[:] = rng.uniform(-.1,.1,f[1].values.shape); f[2].values[:] = 1+rng.uniform(-.05,.05,f[2].values.shape)
    return f, [fem.SolidBody(fem.ThreeFieldVariation(fem.NeoHooke(mu=1.3, bulk=7.)), f)]
fd_check(mixed, "ThreeFieldVariation")
def mixed2():
    m = mesh3(); r = fem.RegionHexahedron(m); f = fem.FieldsMixed(r, n=3)
    f[0].values[:] = rng.uniform(-.05,.05,f[0].values.shape); f[1].values[:] = rng.uniform(-.1,.1,f[1].values.shape); f[2].values[:] = 1+rng.uniform(-.05,.05,f[2].values.shape)
    return f, [fem.SolidBody(fem.NearlyIncompressible(fem.NeoHooke(mu=1.3), bulk=7.), f)]
fd_check(mixed2, "NearlyIncompressible")
def pressure():
    m = mesh3(); r = fem.RegionHexahedron(m); u = fem.Field(r, dim=3); f = fem.FieldContainer([u])
    u.values[:] = rng.uniform(-.05,.05,u.values.shape)
    rb = fem.RegionHexahedronBoundary(m); ub = fem.Field(rb, dim=3); fb = fem.FieldContainer([ub])
    return f, [fem.SolidBody(fem.NeoHooke(mu=1.,bulk=2.), f), fem.SolidBodyPressure(fb, pressure=0.7)]
fd_check(pressure, "pressure")
def axi():
    m = fem.Rectangle(a=(0,0.5), b=(1,1.5), n=3); m.points[4] += [.05,.03]; r = fem.RegionQuad(m); u = fem.FieldAxisymmetric(r, dim=2); f = fem.FieldContainer([u])
    u.values[:] = rng.uniform(-.05,.05,u.values.shape)
    return f, [fem.SolidBody(fem.NeoHooke(mu=1.,bulk=2.), f)]
fd_check(axi, "axi")
def ps():
    m = fem.Rectangle(n=3); m.points[4] += [.05,.03]; r = fem.RegionQuad(m); u = fem.FieldPlaneStrain(r, dim=2); f = fem.FieldContainer([u])
    u.values[:] = rng.uniform(-.05,.05,u.values.shape)
    return f, [fem.SolidBody(fem.NeoHooke(mu=1.,bulk=2.), f)]
fd_check(ps, "planestrain")
def axim():
    m = fem.Rectangle(a=(0,0.5), b=(1,1.5), n=3); m.points[4] += [.05,.03]; r = fem.RegionQuad(m); f = fem.FieldsMixed(r, n=3, axisymmetric=True)
    f[0].values[:] = rng.uniform(-.05,.05,f[0].values.shape); f[1].values[:] = rng.uniform(-.1,.1,f[1].values.shape); f[2].values[:] = 1+rng.uniform(-.05,.05,f[2].values.shape)
    return f, [fem.SolidBody(fem.ThreeFieldVariation(fem.NeoHooke(mu=1.3, bulk=7.)), f)]
fd_check(axim, "axi mixed")
