import numpy as np, felupe as fem, warnings
np.set_printoptions(precision=5, suppress=False, linewidth=200)
rng=np.random.default_rng(3)
# C10(b): axisymmetric nodal forces vs revolved 3D sector
m2 = fem.Rectangle(a=(0,0.5), b=(1,1.5), n=3); m2.points[4]+= [0.05,0.04]
r2 = fem.RegionQuad(m2); u2 = fem.FieldAxisymmetric(r2, dim=2); f2 = fem.FieldContainer([u2])
U = rng.uniform(-.05,.05,u2.values.shape); u2.values[:] = U
umat = fem.NeoHooke(mu=1.0, bulk=3.0)
fa = fem.SolidBody(umat, f2).assemble.vector(f2).toarray().reshape(-1,2)   # (z? x, r) comps
for n in (9,17,33):
    phi = 20.0
    m3 = m2.revolve(n=n, phi=phi, axis=0)   # revolve about x axis
    r3 = fem.RegionHexahedron(m3); u3 = fem.Field(r3, dim=3); f3 = fem.FieldContainer([u3])
    ang = np.deg2rad(np.linspace(0,phi,n))
    npts = m2.npoints
    vals = np.zeros((n,npts,3))
    for k,a in enumerate(ang):
        vals[k,:,0]=U[:,0]; vals[k,:,1]=U[:,1]*np.cos(a); vals[k,:,2]=U[:,1]*np.sin(a)
    u3.values[:] = vals.reshape(-1,3)
    # check that revolve ordering matches: points of layer k = R(a) p
    P = m3.points.reshape(n,npts,3)
    assert np.allclose(P[:,:,1], m2.points[None,:,1]*np.cos(ang)[:,None]) 
    f = fem.SolidBody(umat, f3).assemble.vector(f3).toarray().reshape(n,npts,3)
    # interior layer k: axial force and radial force per unit angle
    k = n//2; a=ang[k]; dphi = ang[1]-ang[0]
    fx = f[k,:,0]/dphi*2*np.pi; fr = (f[k,:,1]*np.cos(a)+f[k,:,2]*np.sin(a))/dphi*2*np.pi
    print(n, np.abs(fx-fa[:,0]).max()/np.abs(fa).max(), np.abs(fr-fa[:,1]).max()/np.abs(fa).max())
# C10(c): NI vs explicit three-field
def solve(kind, bulk, move):
    m = fem.Cube(n=3); m.points[13]+=[.05,-.04,.03]; r = fem.RegionHexahedron(m)
    if kind=="ni":
        f = fem.FieldContainer([fem.Field(r,dim=3)]); sb = fem.SolidBodyNearlyIncompressible(fem.NeoHooke(mu=1.), f, bulk=bulk)
    else:
        f = fem.FieldsMixed(r, n=3); sb = fem.SolidBody(fem.ThreeFieldVariation(fem.NeoHooke(mu=1., bulk=bulk)), f)
    b,lc = fem.dof.uniaxial(f, clamped=True, move=move)
    res = fem.newtonrhapson(items=[sb], **lc, tol=1e-11, verbose=False)
    return res, sb, f
for bulk in (5., 5000.):
    ra, sa, fa_ = solve("ni", bulk, 0.3); rb, sb_, fb_ = solve("tf", bulk, 0.3)
    # settle NI state
    sa.assemble.vector(ra.x); 
    print("bulk",bulk,"du", np.abs(ra.x[0].values-rb.x[0].values).max(), "p", np.abs(sa.results.state.p - rb.x[1].values.ravel()).max()/max(1,np.abs(rb.x[1].values).max()), "J", np.abs(sa.results.state.J-rb.x[2].values.ravel()).max(), ra.iterations, rb.iterations)
# C18: unconstrained modes with negative shift
m = fem.Cube(n=3); r = fem.RegionHexahedron(m); f = fem.FieldContainer([fem.Field(r,dim=3)])
sb = fem.SolidBody(fem.LinearElastic(E=1.,nu=0.3), f, density=1.0)
job = fem.FreeVibration([sb]).evaluate(k=9, sigma=-0.01)
print("eig", job.eigenvalues)
