import numpy as np, felupe as fem, itertools, os, tempfile, warnings
rng=np.random.default_rng(11)
# C09 displacement patch test across families
def patch(name, mesh, R, F_, dim, kw={}):
    r=R(mesh,**kw); u=F_(r,dim=dim); f=fem.FieldContainer([u])
    A = np.eye(dim)+np.array([[.2,.1,-.05],[.05,-.1,.08],[-.07,.03,.15]])[:dim,:dim]
    X=r.mesh.points; target=(X@(A-np.eye(dim)).T)
    # boundary = all points on bounding box
    onb=np.zeros(len(X),bool)
    for i in range(dim): onb|=np.isclose(X[:,i],X[:,i].min())|np.isclose(X[:,i],X[:,i].max())
    b={"all": fem.Boundary(u, mask=onb, value=target[onb])}
    sb=fem.SolidBody(fem.NeoHooke(mu=1.,bulk=3.), f)
    d0,d1=fem.dof.partition(f,b); ext=fem.dof.apply(f,b,d0)
    res=fem.newtonrhapson(items=[sb],dof0=d0,dof1=d1,ext0=ext,verbose=False,tol=1e-10)
    err=np.abs(res.x[0].values-target)[r.mesh.points_with_cells].max()
    F=res.x.extract()[0]; Fex=np.eye(3); Fex[:dim,:dim]=A
    print(f"{name:10s} u err {err:.1e} F err {np.abs(F-Fex.reshape(3,3,1,1)).max():.1e} it {res.iterations}")
def distort(m, amp):
    X=m.points.copy(); inner=np.ones(len(X),bool)
    for i in range(m.dim): inner&=~(np.isclose(X[:,i],X[:,i].min())|np.isclose(X[:,i],X[:,i].max()))
    X[inner]+=rng.uniform(-amp,amp,(inner.sum(),m.dim)); return fem.Mesh(X,m.cells,m.cell_type)
H=distort(fem.Cube(n=4),.05); Q=distort(fem.Rectangle(n=4),.05)
patch("hex8",H,fem.RegionHexahedron,fem.Field,3)
patch("hex20",distort(fem.Cube(n=3),.05).add_midpoints_edges(),fem.RegionQuadraticHexahedron,fem.Field,3)
patch("hex27",distort(fem.Cube(n=3),.05).add_midpoints_edges().add_midpoints_faces().add_midpoints_volumes(),fem.RegionTriQuadraticHexahedron,fem.Field,3)
patch("quad4",Q,fem.RegionQuad,fem.FieldPlaneStrain,2)
patch("quad8",Q.add_midpoints_edges(),fem.RegionQuadraticQuad,fem.FieldPlaneStrain,2)
patch("quad9",Q.add_midpoints_edges().add_midpoints_faces(),fem.RegionBiQuadraticQuad,fem.FieldPlaneStrain,2)
patch("tet4",H.triangulate(),fem.RegionTetra,fem.Field,3)
patch("tet10",H.triangulate().add_midpoints_edges(),fem.RegionQuadraticTetra,fem.Field,3)
patch("tri3",Q.triangulate(),fem.RegionTriangle,fem.FieldPlaneStrain,2)
patch("tri6",Q.triangulate().add_midpoints_edges(),fem.RegionQuadraticTriangle,fem.FieldPlaneStrain,2)
patch("tetMINI",H.triangulate().add_midpoints_volumes(),fem.RegionTetraMINI,fem.Field,3)
patch("triMINI",Q.triangulate().add_midpoints_faces(),fem.RegionTriangleMINI,fem.FieldPlaneStrain,2)
# uniaxial characteristic curve
m=distort(fem.Cube(n=3),.05); r=fem.RegionHexahedron(m); f=fem.FieldContainer([fem.Field(r,dim=3)])
b,lc=fem.dof.uniaxial(f,clamped=False); mu,K=1.,3.
sb=fem.SolidBody(fem.NeoHooke(mu=mu,bulk=K),f)
step=fem.Step([sb],ramp={b["move"]: fem.math.linsteps([0,.5],num=3)},boundaries=b)
job=fem.CharacteristicCurve([step],boundary=b["move"]).evaluate(verbose=False)
from scipy.optimize import brentq
def P11(l1):
    def P(l1,l2):
        J=l1*l2*l2; trC=l1**2+2*l2**2
        p=lambda l: mu*J**(-2/3)*(l-trC/3/l)+K*(J-1)*J/l
        return p(l1),p(l2)
    l2=brentq(lambda l2:P(l1,l2)[1],0.3,2.); return P(l1,l2)[0]
print("curve x", [float(x[0]) for x in job.x], "y", [float(y[0]) for y in job.y], "analytic", [P11(1+float(x[0])) for x in job.x])
